"""Translator: /repo/src/cocls/*.h (clang-14 JSON AST) -> lean/CoclsModel/Generated/*.lean (Lean *data*).
Regenerated on every check run; the Lean library proves decidable obligations over these tables."""
import hashlib
import os
import re
import sys

from . import astwalk
from . import names

VERIF = os.path.dirname(os.path.dirname(os.path.abspath(__file__)))
REPO = os.environ.get("COCLS_REPO", "/repo")
GEN = os.path.join(VERIF, "lean", "CoclsModel", "Generated")
WORK = os.path.join(VERIF, "build", "extract")

# classes whose fields are protected by the object's std::mutex
GUARDED = {
    "queue": {"file": "queue.h", "type_re": r"(^|[^_\w])queue<", "bases": [], "exempt": set()},
    "limited_queue": {"file": "queue.h", "type_re": r"limited_queue<", "bases": ["queue"], "exempt": {"_limit"}},
    "thread_pool": {"file": "thread_pool.h", "type_re": r"thread_pool\b", "bases": [], "exempt": set()},
    "scheduler": {"file": "scheduler.h", "type_re": r"scheduler\b", "bases": [],
                  # _glob_state: set up by start_in() before the worker exists, read again only by the thread that stops/destroys
                  # the scheduler. (_elide_state used to be exempted here as "used by the single starting thread only": wrong,
                  # start() is documented for several threads - /repo fix 549691b made it an atomic; atomic members are not
                  # guarded fields, they are covered by the atomic-sites tables)
                  "exempt": {"_glob_state"}},
    "publisher::queue": {"file": "publisher.h", "type_re": r"publisher(<[^>]*>)?::queue\b", "bases": [],
                         "exempt": {"_max_queue_len", "_min_queue_len"}},
}
SYNC_TYPES = ("mutex", "condition_variable", "Lock", "atomic")

CORE_ALLOC_FILES = ["awaiter.h", "mutex.h", "generator.h", "suspend_point.h", "future.h", "coro_queue.h", "async.h"]

# designated plain fields / calls whose position matters (see Props/C03.lean, Props/C02.lean)
SHARED_FUNCS = {
    ("mutex", "subscribe"), ("mutex", "unlock"), ("mutex", "build_queue"), ("awaiter", "resume_chain_lk"),
    ("awaiter", "subscribe"), ("awaiter", "subscribe_check_ready"), ("promise", "set_value"),
    ("async_promise::final_awaiter", "await_suspend"), ("shared_future::resolve_cb", "charge"), ("resolve_cb", "charge"),
    ("future", "set"), ("future", "set_ref"), ("reusable_storage_mtsafe", "alloc"), ("reusable_storage_mtsafe", "dealloc"),
    ("scheduler", "start_in"),
}
SHARED_FIELDS = {"_next", "_queue", "_state", "_value", "_exception", "_ptr_value", "_ptr", "_capacity", "_handle_addr", "_resume_fn", "_pool"}
SHARED_CALLS = {"resume", "fn", "set", "resolve", "destroy", "subscribe", "build_queue", "set_ref"}
# signal<T> (signal.h; position facts SignalClock.lean assumes, obligations `c03_signal_*` of Props/C03b.lean).  Designated PER CLASS, so
# that the extra field / call names create no row in a function of any other class:
#   functions: the listed ones, plus EVERY member function of EVERY class local to `signal::connect` (the callback awaiter: its class
#              and member names are private names nobody promised to keep - the obligations speak of "the classes local to connect");
#   fields:    SHARED_FIELDS, the two value locations, and every member of the object itself (base = this), whatever its name
#              ("nothing of the awaiter is touched after subscribe" must not depend on how its members are called);
#   calls:     SHARED_CALLS and the ones below.
SIGNAL_FUNCS = {
    ("signal::collector", "operator()"), ("signal::state", "~state"), ("signal::state", "notify_awaiters"),
    ("signal::emitter", "await_suspend"), ("signal::emitter", "await_resume"),
}
SIGNAL_LOCAL_CLASSES_OF = ("signal::connect::",)
SIGNAL_FIELDS = {"_cur_val", "_value_storage"}
SIGNAL_CALLS = {"notify_awaiters", "set_handle", "set_resume_fn", "lock", "resume_chain"}


def signal_designated(f):
    return (f.cls, f.fn) in SIGNAL_FUNCS or any(f.cls.startswith(p) for p in SIGNAL_LOCAL_CLASSES_OF)


def lstr(s):
    return '"' + s.replace("\\", "\\\\").replace('"', '\\"') + '"'


def lbool(b):
    return "true" if b else "false"


def okind(k):
    return "OpKind." + k


def order(o):
    return "Order." + o


def guarded_fields(w, cls):
    cfg = GUARDED[cls]
    out = set()
    for c in [cls] + cfg["bases"]:
        for name, typ, _file in w.members.get(c, []):
            if any(t in typ for t in SYNC_TYPES) and not typ.startswith("std::vector") and "queue" not in typ.split("<")[0].lower():
                continue
            if typ.startswith("const ") or name in cfg["exempt"] or name in GUARDED[c]["exempt"]:
                continue
            out.add(name)
    return out


def alloc_owners(w, f):
    """the function an allocation-capable construct found in `f` is charged to.  A private / protected member function that is called
    from exactly ONE function (calls matched by NAME over all walked functions, whatever their class - an over-approximation of the
    callers; any number of call sites inside that one function) is a named block of that function: the program is the one with the
    helper's body written at its call sites, nobody else can execute it, and its caller executes the construct whenever the helper
    does.  So the construct is charged to that caller (transitively): moving a `new[]` into a private helper, or back, leaves the table
    unchanged.  Public functions, free functions, constructors / destructors, helpers with several callers or with none that the walk
    sees answer for themselves, and the whitelist of Props/C20.lean decides."""
    seen = {id(f)}
    while getattr(f, "access", "public") != "public" and f.cls and not f.ctor_dtor:
        callers = [g for g in w.fns if g is not f and any(cn == f.fn for cn, _lk, _s in g.calls)]
        if len(callers) != 1 or id(callers[0]) in seen:
            break
        f = callers[0]
        seen.add(id(f))
    return [f]


def is_exc_site(what):
    return what == "rethrow" or what.startswith("throw:") or what.startswith("catch")


def exc_owners(w, f):
    """the functions a `throw` / `rethrow_exception` / `catch` found in `f` is charged to: a private / protected member function is
    a named block of EVERY function that calls it (calls matched by name, transitively) - whoever calls the helper is a function that
    can throw what the helper throws; so extracting the `if (done) throw ...` of three entry points into one private helper, or
    inlining it back, leaves the table unchanged (benign/r2-e4).  Public functions, free functions, constructors / destructors and
    helpers nobody calls answer for themselves."""
    out, seen, todo = [], set(), [f]
    while todo:
        g = todo.pop()
        if id(g) in seen:
            continue
        seen.add(id(g))
        callers = []
        if getattr(g, "access", "public") != "public" and g.cls and not g.ctor_dtor:
            callers = [h for h in w.fns if h is not g and any(cn == g.fn for cn, _lk, _s in h.calls)]
        if callers:
            todo.extend(callers)
        else:
            out.append(g)
    return out


def regenerate():
    objs = astwalk.dump_ast(REPO, WORK)
    w = astwalk.Walker(names.canonicalise(objs)).run()     # private names -> the names of the validated tree (extract/names.py)
    summary = {"renamed": names.last_summary()}

    # ---- atomic sites ------------------------------------------------------------------------
    rows = []
    for f in w.fns:
        # operations on inert diagnostic atomics (astwalk.Walker.classify_inert) are left out: reported in the summary instead
        for i, s in enumerate([s for s in f.sites if not s.get("inert")]):
            rows.append("  { cls := %s, fn := %s, idx := %d, kind := %s, obj := %s, succ := %s, fail := %s, inAssert := %s }" % (
                lstr(f.cls), lstr(f.fn), i, okind(s["kind"]), lstr(s["obj"]), order(s["succ"]), order(s["fail"]), lbool(s["inAssert"])))
    text = ("import CoclsModel.Orders\n/-! GENERATED by extract/extract.py from /repo/src/cocls/*.h — do not edit. -/\n"
            "namespace Cocls.Generated\nopen Cocls\n\ndef atomicSites : List Site := [\n" + ",\n".join(rows) + "\n]\n\nend Cocls.Generated\n")
    write(os.path.join(GEN, "AtomicSites.lean"), text)
    summary["atomic_sites"] = len(rows)
    summary["inert_atomics"] = getattr(w, "inert_report", [])

    # ---- lock tables ---------------------------------------------------------------------------
    rows = []
    # helpers without a lock of their own whose every call site (inside the class) holds the lock
    by_cls = {}
    for f in w.fns:
        by_cls.setdefault(f.cls, []).append(f)
    helper_locked = set()
    changed = True
    while changed:
        changed = False
        for cls_name, fs in by_cls.items():
            for f in fs:
                key = (cls_name, f.fn)
                if key in helper_locked or f.locks or f.ctor_dtor:
                    continue
                if getattr(f, "access", "private") == "public":
                    continue        # anybody may call a public function: the call sites inside the class say nothing about its lock state
                sites = [(g, lk) for g in fs for (cn, lk, _s) in g.calls if cn == f.fn and g is not f]
                if sites and all(lk or getattr(g, "lk_helper", False) or (cls_name, g.fn) in helper_locked for g, lk in sites):
                    helper_locked.add(key)
                    changed = True
    for f in w.fns:
        if (f.cls, f.fn) in helper_locked:
            f.lk_helper = True
    for cls, cfg in GUARDED.items():
        fields = guarded_fields(w, cls)
        tre = re.compile(cfg["type_re"])
        for f in w.fns:
            if f.file != cfg["file"]:
                continue
            for a in f.plain:
                if a["field"] not in fields:
                    continue
                bt = a["btype"]
                # the access belongs to this class when the object expression has the class's type
                if not tre.search(bt):
                    continue
                # more specific class wins (limited_queue vs queue)
                if cls == "queue" and "limited_queue" in bt:
                    continue
                # a `*_lk` helper runs with the caller's lock held — unless it receives the lock object and unlocks it
                # itself (push_lk, kick_lk): then the tracked state of that parameter counts
                if getattr(f, "has_lock_param", False):
                    locked = a["locked"]
                else:
                    locked = a["locked"] or getattr(f, "lk_helper", False)
                rows.append((cls, f.cls + "::" + f.fn if f.cls != cls and not f.cls.endswith(cls) else f.fn, a["field"], locked, f.ctor_dtor))
            if f.cls == cls or f.cls.endswith("::" + cls) or (cls in ("queue", "limited_queue") and f.cls == cls):
                for (cn, locked, _seq) in f.calls:
                    if cn.endswith("_lk"):
                        held = locked if getattr(f, "has_lock_param", False) else (locked or getattr(f, "lk_helper", False))
                        rows.append((cls, f.fn, "call:" + cn, held, f.ctor_dtor))
    rows = sorted(set(rows))
    # pointers into lock-guarded data: (class, function, field) for every unary `&` over a guarded field, and every `*_lk` helper /
    # locking member function of a guarded class whose declared return type is a pointer or a reference
    esc = set()
    for cls, cfg in GUARDED.items():
        fields = guarded_fields(w, cls)
        tre = re.compile(cfg["type_re"])
        for f in w.fns:
            if f.file != cfg["file"]:
                continue
            own = f.cls == cls or f.cls.endswith("::" + cls)
            for name, bt, ina in f.addr_of:
                if name in fields and not ina and (tre.search(bt) or (own and bt == "")) and not (cls == "queue" and "limited_queue" in bt):
                    esc.add((cls, f.fn, "&" + name))
            if own and (f.fn.endswith("_lk") or f.locks) and (f.ret_type.endswith("*") or f.ret_type.endswith("&")):
                esc.add((cls, f.fn, "returns:" + f.ret_type))
    esc = sorted(esc)
    summary["guarded_escapes"] = [list(e) for e in esc]
    text = ("import CoclsModel.Orders\n/-! GENERATED by extract/extract.py — do not edit. -/\nnamespace Cocls.Generated\nopen Cocls\n\n"
            "/-- pointers into lock-guarded data that could outlive the lock region: address-of over a guarded field, pointer/reference returning\n"
            "lock-held helpers: (class, function, what) -/\n"
            "def guardedEscapes : List (String × String × String) := [\n" +
            ",\n".join("  (%s, %s, %s)" % (lstr(c), lstr(fn), lstr(wh)) for c, fn, wh in esc) + "\n]\n\n"
            "def guardedAccesses : List GuardedAccess := [\n" +
            ",\n".join("  { cls := %s, fn := %s, field := %s, locked := %s, ctorDtor := %s }" % (lstr(c), lstr(fn), lstr(fl), lbool(lk), lbool(cd))
                        for c, fn, fl, lk, cd in rows) + "\n]\n\nend Cocls.Generated\n")
    write(os.path.join(GEN, "LockTables.lean"), text)
    summary["guarded_accesses"] = len(rows)
    summary["guarded_unlocked"] = [list(r[:3]) for r in rows if not r[3] and not r[4]]

    # ---- allocation sites ------------------------------------------------------------------------
    rows = []
    for f in w.fns:
        if f.file in CORE_ALLOC_FILES:
            for a in f.allocs:
                if a == "placement-new":
                    continue
                for g in (exc_owners(w, f) if is_exc_site(a) else alloc_owners(w, f)):
                    rows.append((g.file, g.cls, g.fn, a))
    for cls, mem in w.members.items():
        for name, typ, file in mem:
            if file in CORE_ALLOC_FILES:
                for key in ("std::vector", "std::deque", "std::function", "std::string", "shared_ptr", "std::map", "std::set",
                            "std::queue", "std::list", "basic_string"):
                    if key in typ:
                        rows.append((file, cls, "", "member:%s:%s" % (name, key)))
                        break
    rows = sorted(set(rows))
    text = ("import CoclsModel.Orders\n/-! GENERATED by extract/extract.py — do not edit. -/\nnamespace Cocls.Generated\nopen Cocls\n\n"
            "def allocSites : List AllocSite := [\n" +
            ",\n".join("  { file := %s, cls := %s, fn := %s, what := %s }" % tuple(map(lstr, r)) for r in rows) + "\n]\n\n")
    # constants of suspend_point
    consts = suspend_point_consts()
    text += "def inlineCount : Nat := %d\ndef growthFactor : Nat := %d\n\nend Cocls.Generated\n" % (consts["inline_count"], consts["growth"])
    write(os.path.join(GEN, "AllocSites.lean"), text)
    summary["alloc_sites"] = len(rows)
    summary["consts"] = consts

    # ---- plain accesses / call order in designated functions ---------------------------------------
    rows = []
    for f in w.fns:
        sig = signal_designated(f)
        if (f.cls, f.fn) not in SHARED_FUNCS and not sig:
            continue
        fields = SHARED_FIELDS | SIGNAL_FIELDS if sig else SHARED_FIELDS
        calls = SHARED_CALLS | SIGNAL_CALLS if sig else SHARED_CALLS
        ev = []
        for a in f.plain:
            if a["field"] in fields or a["field"].startswith("*") or (sig and a["base"] in ("", "this")):
                ev.append((a["seq"], "" if a["base"] in ("", "this") else a["base"], a["field"], a["write"], max(a["afterOp"], 0), a["inAssert"]))
        for (cn, _lk, seq) in f.calls:
            if cn in calls:
                ev.append((seq, "", "call:" + cn, False, 0, False))
        ev.sort()
        for k, (seq, base, fld, wr, nops, ina) in enumerate(ev):
            rows.append((f.cls, f.fn, base, fld, wr, k, nops, ina))
    text = ("import CoclsModel.Orders\n/-! GENERATED by extract/extract.py — do not edit.\n"
            "Plain accesses to designated shared fields and designated calls of designated functions, in source order. -/\n"
            "namespace Cocls.Generated\nopen Cocls\n\n"
            "def plainAccesses : List PlainAccess := [\n" +
            ",\n".join("  { cls := %s, fn := %s, base := %s, field := %s, write := %s, pos := %d, nOps := %d, inAssert := %s }" % (
                lstr(c), lstr(fn), lstr(b), lstr(fl), lbool(wr), k, nops, lbool(ina)) for c, fn, b, fl, wr, k, nops, ina in rows) +
            "\n]\n\n")
    hint_rows = sorted({(f.cls, f.fn, c) for f in w.fns for c in f.hint_calls})
    text += ("/-- every call, outside assertions, of the relaxed hint loads `pending()` / `initialized()` of a future: (class, function, callee) -/\n"
             "def hintCalls : List (String × String × String) := [\n" +
             ",\n".join("  (%s, %s, %s)" % (lstr(c), lstr(fn), lstr(cal)) for c, fn, cal in hint_rows) + "\n]\n\nend Cocls.Generated\n")
    write(os.path.join(GEN, "SharedAccess.lean"), text)
    summary["plain_accesses"] = len(rows)
    summary["hint_calls"] = len(hint_rows)
    h = hashlib.sha256()
    for fn in ("AtomicSites.lean", "LockTables.lean", "AllocSites.lean", "SharedAccess.lean"):
        h.update(open(os.path.join(GEN, fn), "rb").read())
    # ---- structured lock programs (extract/lockprog.py: syntax only; the lock-state reasoning is LockProg.check, proved sound) ----
    from extract import lockprog
    lp = lockprog.regenerate()
    summary["lock_programs"] = {"functions": lp.get("functions"), "acts": lp.get("acts"), "entries": lp.get("entries"), "untranslatable": lp.get("bad")}
    h.update(open(os.path.join(GEN, "LockProgs.lean"), "rb").read())
    summary["tables_sha256"] = h.hexdigest()[:16]
    return summary


def suspend_point_consts():
    """inline capacity and growth factor of suspend_point<void> (the array-size expressions are evaluated, not matched by spelling)"""
    src = open(os.path.join(REPO, "src", "cocls", "suspend_point.h")).read()
    m = re.search(r"inline_count\s*=\s*(\d+)", src)
    fs = set()
    # (the element type `Ptr` and the size variable `count` are private names: any ONE identifier in their place is accepted)
    for e in re.findall(r"new\s+[A-Za-z_]\w*\s*\[([^\]]+)\]", src):
        ids = set(re.findall(r"[A-Za-z_]\w*", e))
        cnt = ids.pop() if len(ids) == 1 else "count"
        if re.fullmatch(r"[\s\d\(\)\*\+<]*(?:%s[\s\d\(\)\*\+<]*)+" % re.escape(cnt), e):
            try:
                v = eval(re.sub(r"\b%s\b" % re.escape(cnt), "1024", e), {"__builtins__": {}}, {})
            except Exception:
                continue
            if v % 1024 == 0:
                fs.add(v // 1024)
    return {"inline_count": int(m.group(1)) if m else 0, "growth": fs.pop() if len(fs) == 1 else 0}


def write(path, text):
    os.makedirs(os.path.dirname(path), exist_ok=True)
    try:
        if open(path).read() == text:
            return
    except FileNotFoundError:
        pass
    tmp = path + ".tmp%d" % os.getpid()
    with open(tmp, "w") as f:
        f.write(text)
    os.replace(tmp, path)


if __name__ == "__main__":
    import json
    print(json.dumps(regenerate(), indent=1))
