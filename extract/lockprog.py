"""Transcribe the member functions of the mutex-guarded classes into structured lock programs
(lean/CoclsModel/LockProg.lean: `Prog`) -> lean/CoclsModel/Generated/LockProgs.lean.

This translator is deliberately *dumb*: it transcribes syntax (clang-14 JSON AST) and does no lock-state reasoning.
    CompoundStmt -> seqs          IfStmt / ?: / && / || -> ite          While/For/Do/range-for -> loop (+ brk/cont)
    SwitchStmt -> catch brk (alts of the suffixes starting at each label)   ReturnStmt/co_return -> ret
    `std::lock_guard|scoped_lock g(_mx)` -> guard (rest of the enclosing block)
    `std::unique_lock lk(_mx)` -> ulock (rest of the enclosing block);  lk.lock() / lk.unlock() -> act
    cond.wait*(lk[, pred]) -> wait / waitPred (pred inlined)       co_await / co_yield -> await
    try/catch -> tryc             MemberExpr naming a guarded field of the class -> act (access i w)
    call of a member function of the same class (or a base) -> call "<name>" <definition of the callee>   (inlined)
    lambda: invoked in place (argument of wait*/std algorithms/visit, returned into a cocls::future, or called where it is written:
            `[&]{...}()`) -> catch ret (body)
            otherwise (stored / handed to another thread) -> a separate entry that is checked from the free state
    `_mx.lock(); S...; _mx.unlock();` in one statement list -> guard (S) when S can only be left normally (built-in operations on
            scalars, no call of any kind: Tr.nothrow), else the raw acts (the checker rejects a region an exception can leave locked)
    lk.owns_lock() -> skip (observer of the lock object)      a class with several mutex members -> bad (not modelled)
    anything it does not understand that involves the lock object or the mutex -> bad (the checker rejects it)
A function is listed (checked) when it lexically takes the lock / touches a guarded field / waits, or calls a helper that is not a
stand-alone entry (non-public, no lock of its own): a public function that only forwards to such a helper is checked from the free state.
Which lock state an access runs in, whether branches agree, what a loop preserves, what a destructor has to release: all of
that is decided by `LockProg.check` in Lean, whose soundness is proved (`check_sound`, `checkFn_sound`, `lockprogs_safe`).

Trusted (syntax-level) knowledge that remains here: the list of guarded classes and their exempt fields (extract.GUARDED),
the names of callees that invoke a lambda argument synchronously (SYNC_CALLEES), arity/type-spelling overload resolution inside
templates, and that `future<T>(lambda)` runs the lambda in the constructor (future.h).
"""
import os
import re

from . import astwalk
from . import extract as ex

SYNC_CALLEES = {"wait", "wait_until", "wait_for", "visit", "find_if", "find_if_not", "remove_if", "for_each", "sort",
                "min", "max", "any_of", "all_of", "none_of", "count_if", "copy_if", "transform", "lower_bound",
                "upper_bound", "push_heap", "pop_heap", "make_heap", "install_queue_and_call", "min_element", "max_element",
                "erase_if", "partition", "stable_sort", "accumulate"}
WRAPPERS = ("ImplicitCastExpr", "ParenExpr", "ExprWithCleanups", "MaterializeTemporaryExpr", "CXXBindTemporaryExpr",
            "CXXFunctionalCastExpr", "CXXStaticCastExpr", "CXXConstructExpr", "CXXTemporaryObjectExpr", "ConstantExpr")
UNEVALUATED = ("UnaryExprOrTypeTraitExpr", "CXXNoexceptExpr", "CXXTypeidExpr", "RequiresExpr", "TypeTraitExpr")
LOCK_TYPES = ("unique_lock", "lock_guard", "scoped_lock")

SKIP = ("skip",)


# ------------------------------------------------------------------------------------------ Prog construction (python side)
def seq(ps):
    out = []
    for p in ps:
        if p[0] == "seq":
            out.extend(p[1])
        elif p != SKIP:
            out.append(p)
    if not out:
        return SKIP
    if len(out) == 1:
        return out[0]
    return ("seq", out)


def ite(a, b):
    if a == SKIP and b == SKIP:
        return SKIP
    return ("ite", a, b)


def alts(ps):
    if all(p == SKIP for p in ps):
        return SKIP
    return ("alts", ps)


def loop(b):
    return SKIP if b == SKIP else ("loop", b)


def catch(k, b):
    return SKIP if b == SKIP else ("catch", k, b)


def tryc(a, b):
    if a == SKIP and b == SKIP:
        return SKIP
    return ("tryc", a, b)


def render(p, ind=2):
    k = p[0]
    sp = " " * ind
    if k == "skip":
        return "skip"
    if k == "lock":
        return "act Act.lock"
    if k == "unlock":
        return "act Act.unlock"
    if k == "acc":
        return "act (Act.access %d %s)" % (p[1], "true" if p[2] else "false")
    if k == "seq":
        return "seqs [\n" + ",\n".join(sp + "  " + render(x, ind + 2) for x in p[1]) + "]"
    if k == "alts":
        return "alts [\n" + ",\n".join(sp + "  " + render(x, ind + 2) for x in p[1]) + "]"
    if k == "ite":
        return "ite (%s)\n%s    (%s)" % (render(p[1], ind + 4), sp, render(p[2], ind + 4))
    if k == "loop":
        return "loop (%s)" % render(p[1], ind + 2)
    if k in ("brk", "cont", "ret", "await", "wait"):
        return {"wait": "Prog.wait"}.get(k, k)
    if k == "bad":
        return "bad /- %s -/" % p[1].replace("-/", "- /")
    if k in ("guard", "ulock"):
        return "%s (%s)" % (k, render(p[1], ind + 2))
    if k == "catch":
        return "Prog.catch Exit.%s (%s)" % (p[1], render(p[2], ind + 2))
    if k == "waitpred":
        return "waitPred (%s)" % render(p[1], ind + 2)
    if k == "tryc":
        return "tryc (%s)\n%s    (%s)" % (render(p[1], ind + 4), sp, render(p[2], ind + 4))
    if k == "callref":
        return "call %s %s" % (ex.lstr(p[1]), p[2])
    raise ValueError(k)


def count_nodes(p):
    """(#acts, #nodes) of a python-side Prog"""
    k = p[0]
    if k in ("lock", "unlock", "acc"):
        return (1, 1)
    if k == "wait":
        return (2, 3)
    a = n = 0
    for x in p[1:]:
        if isinstance(x, tuple):
            c = count_nodes(x)
            a, n = a + c[0], n + c[1]
        elif isinstance(x, list):
            for y in x:
                c = count_nodes(y)
                a, n = a + c[0], n + c[1]
    return (a, n + 1)


# ------------------------------------------------------------------------------------------ AST collection
class FnInfo:
    def __init__(self, cls, name, node, access, file, is_cd):
        self.cls, self.name, self.node, self.access, self.file, self.ctor_dtor = cls, name, node, access, file, is_cd
        self.params = [c for c in node.get("inner", []) if c.get("kind") == "ParmVarDecl"]
        self.body = None
        for c in node.get("inner", []):
            if c.get("kind") in ("CompoundStmt", "CoroutineBodyStmt", "CXXTryStmt"):
                self.body = c
        self.ret_type = astwalk.qt(node).split("(")[0]
        self.defname = None
        self.prog = None
        self.lexical = False    # lexically contains a lock declaration / lock operation / wait / guarded access


def collect_functions(objs):
    """every function definition with its class scope ("a::b"), access specifier and file"""
    out = []
    cur_file = [""]

    def lf(o):
        cur_file[0] = o.get("_file_begin") or o.get("_file") or cur_file[0]
        return cur_file[0]

    def function(f, scope, access):
        lf(f)
        fi = FnInfo("::".join(scope), f.get("name", "?"), f, access, os.path.basename(cur_file[0]),
                    f.get("kind") in ("CXXConstructorDecl", "CXXDestructorDecl"))
        if fi.body is not None:
            out.append(fi)

    def record(o, scope):
        if not o.get("inner") or not o.get("completeDefinition", True):
            return
        name = o.get("name", "?")
        access = "public" if o.get("tagUsed") in ("struct", "union") else "private"
        for c in o.get("inner", []):
            k = c.get("kind")
            lf(c)
            if k == "AccessSpecDecl":
                access = c.get("access", access)
            elif k in ("CXXMethodDecl", "CXXConstructorDecl", "CXXDestructorDecl", "FunctionDecl"):
                function(c, scope + [name], access)
            elif k == "FunctionTemplateDecl":
                for d in c.get("inner", []):
                    if d.get("kind") in ("CXXMethodDecl", "CXXConstructorDecl", "FunctionDecl"):
                        function(d, scope + [name], access)
                        break
            elif k in ("CXXRecordDecl", "ClassTemplateSpecializationDecl"):
                if not c.get("isImplicit"):
                    record(c, scope + [name])
            elif k == "ClassTemplateDecl":
                for d in c.get("inner", []):
                    if d.get("kind") == "CXXRecordDecl":
                        record(d, scope + [name])
            elif k == "FriendDecl":
                for d in c.get("inner", []):
                    if d.get("kind") == "FunctionDecl":
                        function(d, scope + [name], "public")

    def top(o, scope):
        k = o.get("kind")
        lf(o)
        if k == "NamespaceDecl":
            for c in o.get("inner", []):
                top(c, scope)
        elif k in ("CXXRecordDecl", "ClassTemplateSpecializationDecl", "ClassTemplatePartialSpecializationDecl"):
            record(o, scope)
        elif k == "ClassTemplateDecl":
            for c in o.get("inner", []):
                if c.get("kind") == "CXXRecordDecl":
                    record(c, scope)
    for o in objs:
        top(o, [])
    return out


def belongs(fi, kcls):
    cfg = ex.GUARDED[kcls]
    if fi.file != cfg["file"]:
        return False
    return fi.cls == kcls or fi.cls.endswith("::" + kcls) or fi.cls.startswith(kcls + "::") or ("::" + kcls + "::") in fi.cls


# ------------------------------------------------------------------------------------------ translation
class Tr:
    """translator for the functions of one guarded class"""

    def __init__(self, kcls, w, fns):
        self.kcls = kcls
        self.cfg = ex.GUARDED[kcls]
        self.tre = re.compile(self.cfg["type_re"])
        self.fields = sorted(ex.guarded_fields(w, kcls))
        self.fidx = {f: i for i, f in enumerate(self.fields)}
        self.mutexes = set()
        for c in [kcls] + self.cfg["bases"]:
            for name, typ, _file in w.members.get(c, []):
                if "mutex" in typ or typ == "Lock":
                    self.mutexes.add(name)
        self.fns = [f for f in fns if belongs(f, kcls)]
        self.callable = list(self.fns)
        for b in self.cfg["bases"]:
            self.callable += [f for f in fns if belongs(f, b)]
        self.deferred = []     # (enclosing FnInfo, ordinal, prog)

    # ---- helpers
    def is_class_type(self, t):
        t = t.replace("std::queue", "std::_q")      # `queue<` must not match the standard container
        if not self.tre.search(t):
            # base-class object used through the derived class's functions (this-> in limited_queue has the derived type)
            return False
        if self.kcls == "queue" and "limited_queue" in t:
            return False
        return True

    def is_class_or_base_type(self, t):
        if self.is_class_type(t):
            return True
        t = t.replace("std::queue", "std::_q")
        return any(re.search(ex.GUARDED[b]["type_re"], t) for b in self.cfg["bases"])

    def is_lock_ref(self, o, env):
        o = astwalk.strip(o)
        return (isinstance(o, dict) and o.get("kind") == "DeclRefExpr"
                and (o.get("referencedDecl") or {}).get("name", "") in env["locks"])

    def is_mutex_ref(self, o):
        o = astwalk.strip(o)
        if not isinstance(o, dict) or o.get("kind") not in ("MemberExpr", "CXXDependentScopeMemberExpr"):
            return False
        name = o.get("name") or o.get("member") or ""
        if name not in self.mutexes:
            return False
        b = astwalk.base_of(o)
        return b is None or self.is_class_or_base_type(astwalk.qt(astwalk.strip(b))) or astwalk.strip(b).get("kind") == "CXXThisExpr"

    # ---- statements
    def mutex_op(self, st):
        """the statement is exactly `_mx.lock();` / `_mx.unlock();` on the class's mutex -> "lock" / "unlock" """
        o = st
        while isinstance(o, dict) and o.get("kind") in ("ExprWithCleanups", "ParenExpr") and len(o.get("inner", [])) == 1:
            o = o["inner"][0]
        if not isinstance(o, dict) or o.get("kind") != "CXXMemberCallExpr":
            return None
        inner = [c for c in o.get("inner", []) if isinstance(c, dict) and c.get("kind")]
        if len(inner) != 1:
            return None
        callee = astwalk.strip(inner[0])
        if callee.get("kind") not in ("MemberExpr", "CXXDependentScopeMemberExpr"):
            return None
        name = callee.get("name") or callee.get("member") or ""
        base = astwalk.base_of(callee)
        return name if name in ("lock", "unlock") and base is not None and self.is_mutex_ref(base) and len(self.mutexes) == 1 else None

    SCALAR = re.compile(r"(?:(?:const|volatile|unsigned|signed|long|short|int|char|bool|float|double|wchar_t|char8_t|char16_t|char32_t)\s*)+"
                        r"|(?:const\s+)?(?:std::)?(?:size_t|ptrdiff_t|u?int(?:_fast|_least)?(?:8|16|32|64)_t|u?intptr_t)(?:\s+const)?")
    NOTHROW_EXPRS = ("IntegerLiteral", "CXXBoolLiteralExpr", "FloatingLiteral", "CharacterLiteral", "CXXNullPtrLiteralExpr", "ImplicitCastExpr",
                     "ParenExpr", "DeclRefExpr", "MemberExpr", "CXXThisExpr", "UnaryOperator", "BinaryOperator", "CompoundAssignOperator",
                     "ConditionalOperator", "CStyleCastExpr", "CXXStaticCastExpr", "ConstantExpr")

    def nothrow(self, o):
        """the statement cannot be left other than normally: only built-in operations on scalars (arithmetic types and pointers; every
        sub-expression has such a type, so no overloaded operator, conversion function, constructor or destructor is involved - those
        are other node kinds anyway), declarations of scalar locals, if / blocks of such.  No call of any kind, no `new`, no `throw`, no
        return / break / continue / goto, no loop, no co_await, nothing dependent on a template parameter."""
        if not isinstance(o, dict) or not o.get("kind"):
            return True
        k = o["kind"]
        inner = [c for c in o.get("inner", []) if isinstance(c, dict) and c.get("kind")]
        if k in ("CompoundStmt", "NullStmt"):
            return all(self.nothrow(c) for c in inner)
        if k == "IfStmt":
            return all(self.nothrow(c) for c in inner)
        if k == "DeclStmt":
            return all(c.get("kind") == "VarDecl" and self.scalar(c) and c.get("storageClass") != "static"
                       and all(self.nothrow(x) for x in c.get("inner", []) if isinstance(x, dict) and x.get("kind") and not x["kind"].endswith(("Attr", "Comment")))
                       for c in inner)
        if k in self.NOTHROW_EXPRS:
            if k != "CXXThisExpr" and not self.scalar(o):
                return False
            if k == "UnaryOperator" and o.get("opcode") == "*" and False:
                return False
            return all(self.nothrow(c) for c in inner)
        return False

    def scalar(self, o):
        t = o.get("type") or {}
        t = (t.get("desugaredQualType") or t.get("qualType") or "").strip()
        if not t or "dependent" in t or "type-parameter" in t:
            return False
        if t.endswith(("*", "* const", "*const")):
            return True
        return bool(self.SCALAR.fullmatch(t))

    def block(self, stmts, env):
        out = []
        skip_to = -1
        for i, st in enumerate(stmts):
            if i <= skip_to:
                continue
            if self.mutex_op(st) == "lock":
                # `_mx.lock(); S...; _mx.unlock();` in one statement list where S can only be left normally (self.nothrow): the lock
                # region `guard (S)` - lock; S; unlock.  (`guard` also unlocks on the exits S does not have: more paths, never fewer.)
                # With anything else in between the raw acts are transcribed and LockProg.check decides (it rejects a region that an
                # exception can leave with the mutex locked).
                j = i + 1
                while j < len(stmts) and self.mutex_op(stmts[j]) is None and self.nothrow(stmts[j]):
                    j += 1
                if j < len(stmts) and self.mutex_op(stmts[j]) == "unlock":
                    env["flags"]["lexical"] = True
                    env["flags"]["mxlock"] = True
                    out.append(("guard", self.block(stmts[i + 1:j], dict(env))))
                    skip_to = j
                    continue
            ld = self.lock_decl(st)
            if ld is not None:
                kind, var, ok, pre = ld
                env2 = dict(env, locks=env["locks"] | {var})
                body = self.block(stmts[i + 1:], env2)
                env["flags"]["lexical"] = True
                if not ok:
                    out.append(("bad", "lock declaration %s not of the form L(_mx)" % var))
                    out.append(body)
                else:
                    out.append(pre)
                    out.append((kind, body))
                return seq(out)
            out.append(self.stmt(st, env))
        return seq(out)

    def lock_decl(self, st):
        """DeclStmt declaring exactly one RAII lock object on the class's mutex -> (kind, varname, wellformed, pre)"""
        if not isinstance(st, dict) or st.get("kind") != "DeclStmt":
            return None
        vds = [d for d in st.get("inner", []) if d.get("kind") == "VarDecl"]
        locks = [d for d in vds if any(t in astwalk.qt(d) for t in LOCK_TYPES)]
        if not locks:
            return None
        d = locks[0]
        t = astwalk.qt(d)
        kind = "ulock" if "unique_lock" in t else "guard"
        ok = len(vds) == 1
        # constructor arguments: exactly the mutex member
        args = []

        def ctor_args(o):
            o2 = o
            while isinstance(o2, dict) and o2.get("kind") in ("ExprWithCleanups", "ImplicitCastExpr", "CXXBindTemporaryExpr", "MaterializeTemporaryExpr") and o2.get("inner"):
                o2 = o2["inner"][0]
            if isinstance(o2, dict) and o2.get("kind") in ("CXXConstructExpr", "CXXTemporaryObjectExpr", "ParenListExpr", "InitListExpr", "CXXUnresolvedConstructExpr"):
                return o2.get("inner", [])
            return [o2]
        for c in d.get("inner", []):
            if isinstance(c, dict) and c.get("kind"):
                args += ctor_args(c)
        if len(args) != 1 or not self.is_mutex_ref(args[0]) or len(self.mutexes) != 1:
            ok = False      # (a class with several mutex members: which of them guards which field is not modelled -> not understood)
        return (kind, d.get("name", ""), ok, SKIP)

    def stmt(self, o, env):
        if not isinstance(o, dict) or not o.get("kind"):
            return SKIP
        k = o["kind"]
        inner = o.get("inner", [])
        if k == "CompoundStmt":
            return self.block(inner, dict(env))
        if k == "CoroutineBodyStmt":
            return self.stmt(inner[0], env) if inner else SKIP
        if k in ("NullStmt",):
            return SKIP
        if k == "AttributedStmt":
            return seq([self.stmt(c, env) for c in inner if c.get("kind", "").endswith(("Stmt", "Expr", "Operator"))])
        if k == "DeclStmt":
            out = []
            for d in inner:
                if d.get("kind") == "VarDecl":
                    if any(t in astwalk.qt(d) for t in LOCK_TYPES):
                        # a lock declaration that `block` did not see (e.g. in a for-init / if-init): not understood
                        env["flags"]["lexical"] = True
                        out.append(("bad", "lock object declared outside a block statement list"))
                    for c in d.get("inner", []):
                        out.append(self.expr(c, env))
            return seq(out)
        if k == "IfStmt":
            has_else = o.get("hasElse", False)
            branches = inner[-2:] if has_else else inner[-1:]
            pre = [self.stmt(c, env) for c in inner[:len(inner) - len(branches)]]
            a = self.stmt(branches[0], env)
            b = self.stmt(branches[1], env) if has_else else SKIP
            return seq(pre + [ite(a, b)])
        if k == "WhileStmt":
            cond = seq([self.stmt(c, env) for c in inner[:-1]])
            body = self.stmt(inner[-1], env)
            return loop(seq([cond, ite(("brk",), body)]))
        if k == "DoStmt":
            body = self.stmt(inner[0], env)
            cond = seq([self.stmt(c, env) for c in inner[1:]])
            return loop(seq([catch("cont", body), cond, ite(("brk",), SKIP)]))
        if k == "ForStmt":
            init, condvar, cond, inc, body = (inner + [{}] * 5)[:5]
            has_cond = bool(cond.get("kind")) or bool(condvar.get("kind"))
            c = seq([self.stmt(condvar, env), self.stmt(cond, env)])
            b = seq([catch("cont", self.stmt(body, env)), self.stmt(inc, env)])
            it = seq([c, ite(("brk",), b)]) if has_cond else b
            return seq([self.stmt(init, env), loop(it) if it != SKIP else SKIP])
        if k == "CXXForRangeStmt":
            pre = seq([self.stmt(c, env) for c in inner[:-2]])
            body = seq([self.stmt(inner[-2], env), self.stmt(inner[-1], env)])
            return seq([pre, loop(ite(("brk",), body))])
        if k == "SwitchStmt":
            pre = [self.stmt(c, env) for c in inner[:-1]]
            body = inner[-1]
            if body.get("kind") != "CompoundStmt":
                return seq(pre + [("bad", "switch body is not a block")])
            flat, labels, has_default = [], [], False

            def unlabel(st):
                nonlocal has_default
                while isinstance(st, dict) and st.get("kind") in ("CaseStmt", "DefaultStmt"):
                    if st["kind"] == "DefaultStmt":
                        has_default = True
                    labels.append(len(flat))
                    st = st.get("inner", [{}])[-1]
                return st
            for st in body.get("inner", []):
                flat.append(unlabel(st))
            if any(self.has_kind(st, ("CaseStmt", "DefaultStmt")) for st in flat):
                return seq(pre + [("bad", "case label nested inside a statement")])
            env2 = dict(env)
            progs = [self.stmt(st, env2) for st in flat]
            choices = [seq(progs[i:]) for i in sorted(set(labels))]
            if not has_default:
                choices.append(SKIP)
            return seq(pre + [catch("brk", alts(choices) if choices else SKIP)])
        if k in ("ReturnStmt", "CoreturnStmt"):
            return seq([self.expr(c, env, returned=True) for c in inner[:1]] + [("ret",)])
        if k == "BreakStmt":
            return ("brk",)
        if k == "ContinueStmt":
            return ("cont",)
        if k == "CXXTryStmt":
            body = self.stmt(inner[0], env) if inner else SKIP
            hs = [self.stmt(c, env) for c in inner[1:]]
            return tryc(body, alts(hs) if hs else SKIP)
        if k == "CXXCatchStmt":
            return seq([self.stmt(c, env) for c in inner if c.get("kind") != "VarDecl"])
        if k.endswith("Stmt"):
            # goto, labels, SEH, ... : not understood
            return ("bad", "statement kind " + k) if self.relevant_syntax(o, env) else SKIP
        return self.expr(o, env)

    def has_kind(self, o, kinds):
        if isinstance(o, dict):
            if o.get("kind") in kinds:
                return True
            return any(self.has_kind(c, kinds) for c in o.get("inner", []))
        return False

    def relevant_syntax(self, o, env):
        """does the subtree mention a lock object, the mutex or a guarded field at all (pure syntax scan)"""
        if isinstance(o, dict):
            if self.is_lock_ref(o, env) or self.is_mutex_ref(o) or self.access_of(o) is not None:
                return True
            return any(self.relevant_syntax(c, env) for c in o.get("inner", []))
        return False

    # ---- expressions
    def access_of(self, o):
        if o.get("kind") not in ("MemberExpr", "CXXDependentScopeMemberExpr"):
            return None
        name = o.get("name") or o.get("member") or ""
        if name not in self.fidx:
            return None
        b = astwalk.base_of(o)
        bt = astwalk.qt(astwalk.strip(b)) if b else ""
        if not self.is_class_or_base_type(bt):
            return None
        return self.fidx[name]

    def expr(self, o, env, returned=False, write=False):
        if not isinstance(o, dict) or not o.get("kind"):
            return SKIP
        k = o["kind"]
        inner = o.get("inner", [])
        if k in UNEVALUATED:
            return SKIP
        if k.endswith("Stmt"):
            return self.stmt(o, env)
        if k == "LambdaExpr":
            return self.lambda_(o, env, sync=returned and "future<" in env["ret_type"])
        if k in WRAPPERS and len([c for c in inner if c.get("kind")]) == 1:
            return self.expr([c for c in inner if c.get("kind")][0], env, returned=returned, write=write)
        if self.is_lock_ref(o, env) or (k in ("DeclRefExpr", "MemberExpr") and any(t in astwalk.qt(o) for t in LOCK_TYPES)):
            # the recognised uses (lk.lock(), lk.unlock(), cond.wait(lk..), handing lk to an inlined helper) never get here;
            # this also catches a lock object captured by a lambda that runs later, aliased, moved or stored in a member
            env["flags"]["lexical"] = True
            return ("bad", "lock object used in a way the translator does not understand")
        if self.is_mutex_ref(o):
            env["flags"]["lexical"] = True
            return ("bad", "mutex used in a way the translator does not understand")
        if k in ("MemberExpr", "CXXDependentScopeMemberExpr"):
            i = self.access_of(o)
            sub = seq([self.expr(c, env) for c in inner])
            if i is not None:
                env["flags"]["lexical"] = True
                env["acc"].add(i)
                return seq([sub, ("acc", i, write)])
            return sub
        if k == "BinaryOperator" and o.get("opcode") in ("&&", "||") and len(inner) == 2:
            return seq([self.expr(inner[0], env), ite(self.expr(inner[1], env), SKIP)])
        if k in ("ConditionalOperator", "BinaryConditionalOperator") and len(inner) >= 3:
            return seq([self.expr(inner[0], env), ite(self.expr(inner[-2], env), self.expr(inner[-1], env))])
        if (k == "BinaryOperator" and o.get("opcode") in ("=", "+=", "-=", "|=", "&=", "*=", "/=", "^=", "%=", "<<=", ">>=")) or k == "CompoundAssignOperator":
            if len(inner) == 2:
                return seq([self.expr(inner[1], env), self.expr(inner[0], env, write=True)])
        if k == "UnaryOperator" and o.get("opcode") in ("++", "--") and inner:
            return self.expr(inner[0], env, write=True)
        if k in ("CoawaitExpr", "DependentCoawaitExpr", "CoyieldExpr"):
            return seq([self.expr(c, env) for c in inner[:1]] + [("await",)])
        if k in ("CXXOperatorCallExpr", "CallExpr") and inner:
            # `[&]{ ... }()`: the lambda is invoked in place, its body is part of this statement (runs in the current lock state)
            fn = inner[1] if k == "CXXOperatorCallExpr" and len(inner) >= 2 else inner[0]
            while isinstance(fn, dict) and fn.get("kind") in WRAPPERS and len([c for c in fn.get("inner", []) if c.get("kind")]) == 1:
                fn = [c for c in fn["inner"] if c.get("kind")][0]
            if isinstance(fn, dict) and fn.get("kind") == "LambdaExpr":
                rest = inner[2:] if k == "CXXOperatorCallExpr" else inner[1:]
                return seq([self.expr(a, env) for a in rest] + [self.lambda_(fn, env, sync=True)])
        if k in ("CXXMemberCallExpr", "CallExpr", "CXXOperatorCallExpr"):
            return self.call(o, env)
        return seq([self.expr(c, env) for c in inner])

    def lambda_body(self, o):
        for c in o.get("inner", []):
            if c.get("kind") == "CompoundStmt":
                return c
        return None

    def lambda_(self, o, env, sync):
        body = self.lambda_body(o)
        if body is None:
            return SKIP
        if sync:
            return catch("ret", self.stmt(body, dict(env, ret_type="")))
        # runs later / on another thread: its own program, entered with the mutex free; no lock object is in scope there
        flags = {"lexical": False}
        env2 = dict(env, locks=frozenset(), flags=flags, ret_type="")
        p = self.stmt(body, env2)
        if flags["lexical"]:
            env["flags"]["lexical"] = True
        self.deferred.append([env["fn"], p, flags["lexical"]])
        return SKIP

    def callee_name(self, callee):
        ck = callee.get("kind")
        if ck == "MemberExpr":
            return callee.get("name", "")
        if ck == "CXXDependentScopeMemberExpr":
            return callee.get("member", "")
        if ck == "UnresolvedMemberExpr":
            return callee.get("_vn_name") or astwalk.token_at(callee.get("_file", ""), (callee.get("range") or {}).get("end") or {})
        if ck == "DeclRefExpr":
            return (callee.get("referencedDecl") or {}).get("name", "")
        if ck == "UnresolvedLookupExpr":
            return callee.get("name", "")
        return ""

    def call(self, o, env):
        inner = [c for c in o.get("inner", []) if isinstance(c, dict) and c.get("kind")]
        if not inner:
            return SKIP
        callee = astwalk.strip(inner[0])
        args = inner[1:]
        ck = callee.get("kind")
        name = self.callee_name(callee)
        is_member = ck in ("MemberExpr", "CXXDependentScopeMemberExpr", "UnresolvedMemberExpr")
        base = astwalk.base_of(callee) if ck in ("MemberExpr", "CXXDependentScopeMemberExpr") else None
        # ---- operations on a lock object / the mutex
        if is_member and base is not None and (self.is_lock_ref(base, env) or self.is_mutex_ref(base)):
            env["flags"]["lexical"] = True
            if len(self.mutexes) != 1:
                return ("bad", "class has several mutex members: which one guards which field is not modelled")
            if name == "lock" and not args:
                if self.is_mutex_ref(base):
                    env["flags"]["mxlock"] = True       # takes the mutex itself, without a lock object
                return ("lock",)
            if name == "unlock" and not args:
                return ("unlock",)
            if name == "owns_lock" and not args and self.is_lock_ref(base, env):
                return SKIP       # pure observer of the lock OBJECT (`assert(lk.owns_lock())`): no operation on the mutex
            return ("bad", "lock/mutex operation ." + name)
        # ---- condition variable wait: first argument is the lock object
        if is_member and name in ("wait", "wait_until", "wait_for") and args and self.is_lock_ref(args[0], env):
            env["flags"]["lexical"] = True
            pre = [self.expr(base, env)] if base is not None else []
            rest = args[1:]
            pred = None
            if rest and astwalk.strip(rest[-1]).get("kind") == "LambdaExpr" and (name == "wait" or len(rest) == 2):
                pred = astwalk.strip(rest[-1])
                rest = rest[:-1]
            pre += [self.expr(a, env) for a in rest]
            if pred is not None:
                return seq(pre + [("waitpred", self.stmt(self.lambda_body(pred), dict(env, ret_type="")))])
            if name != "wait" and len(rest) == 2:     # predicate that is not a lambda: evaluated with the mutex held
                return seq(pre + [("waitpred", SKIP)])
            return seq(pre + [("wait",)])
        # ---- member function of the guarded class (or a base): inline
        cands = self.resolve(callee, name, base, args, env) if name else []
        if cands:
            pre = []
            if base is not None:
                pre.append(self.expr(base, env))
            for a in args:
                if self.is_lock_ref(a, env):
                    continue          # the lock object handed to a helper that takes it by reference
                pre.append(self.expr(a, env))
            env["calls"].append(name)
            return seq(pre + [("callalts", name, cands)])
        # ---- anything else: evaluate callee object and arguments; lambdas handed to known synchronous callees run in place
        out = []
        for c in inner[:1]:
            out.append(self.expr(c, env))
        for a in args:
            a2 = astwalk.strip(a)
            if isinstance(a2, dict) and a2.get("kind") == "LambdaExpr":
                out.append(self.lambda_(a2, env, sync=name in SYNC_CALLEES))
            else:
                out.append(self.expr(a, env))
        return seq(out)

    def resolve(self, callee, name, base, args, env):
        """candidate definitions of a call `name(args)` among the member functions of the class / its bases"""
        ck = callee.get("kind")
        if ck in ("MemberExpr", "CXXDependentScopeMemberExpr"):
            if base is None:
                return []
            b = astwalk.strip(base)
            if b.get("kind") != "CXXThisExpr" and not self.is_class_or_base_type(astwalk.qt(b)):
                return []
        elif ck == "UnresolvedMemberExpr":
            pass            # implicit-this call of an overloaded member inside a template
        elif ck == "DeclRefExpr":
            # resolved reference (operator call, static member): only an exact match with a definition of the class counts
            did = (callee.get("referencedDecl") or {}).get("id")
            return [f for f in self.callable if f.node.get("id") == did and not f.ctor_dtor]
        else:
            return []
        cands = [f for f in self.callable if f.name == name and not f.ctor_dtor]
        if not cands:
            return []
        rid = callee.get("referencedMemberDecl")
        if rid:
            exact = [f for f in cands if f.node.get("id") == rid]
            if exact:
                return exact
            # clang resolved the call to a declaration we have no body for under that id (template pattern vs.
            # instantiation, out-of-line definition): fall through to name/arity; a std:: member never gets here
            # because its object type is not the class
        n = len(args)

        def arity_ok(f):
            req = len([p for p in f.params if not any(c.get("kind") for c in p.get("inner", []) if isinstance(c, dict))])
            return req <= n <= len(f.params) or any("..." in astwalk.qt(p) for p in f.params)
        c2 = [f for f in cands if arity_ok(f)] or cands
        if len(c2) > 1:
            def norm(t):
                return re.sub(r"\b(const|volatile)\b|[&\s]", "", t)

            def types_ok(f):
                for a, p in zip(args, f.params):
                    a2 = astwalk.strip(a)
                    if a2.get("kind") == "DeclRefExpr" and (a2.get("referencedDecl") or {}).get("kind") in ("ParmVarDecl", "VarDecl"):
                        if norm(astwalk.qt(a2)) != norm(astwalk.qt(p)):
                            return False
                return True
            c3 = [f for f in c2 if types_ok(f)]
            if c3:
                c2 = c3
        return c2


# ------------------------------------------------------------------------------------------ driver
def ident(s):
    return re.sub(r"[^A-Za-z0-9_]", "_", s.replace("::", "_")).strip("_")


def table_fn_name(fi, kcls):
    return fi.name if (fi.cls == kcls or fi.cls.endswith(kcls)) else fi.cls + "::" + fi.name


def build(repo=None, workdir=None):
    repo = repo or os.environ.get("COCLS_REPO", "/repo")
    workdir = workdir or os.path.join(ex.VERIF, "build", "extract_lockprog")
    objs = astwalk.dump_ast(repo, workdir)
    w = astwalk.Walker(ex.names.canonicalise(objs)).run()     # private names -> the names of the validated tree (extract/names.py)
    fns = collect_functions(objs)
    classes = []
    for kcls in ex.GUARDED:
        tr = Tr(kcls, w, fns)
        # distinct definition names (overloads numbered in source order)
        seen = {}
        tr.defname = {}
        for f in tr.fns:
            base = ident(kcls) + "_" + ident(f.name if (f.cls == kcls or f.cls.endswith(kcls)) else f.cls.split(kcls + "::")[-1] + "_" + f.name)
            seen[base] = seen.get(base, 0) + 1
            tr.defname[id(f)] = base if seen[base] == 1 else "%s_%d" % (base, seen[base])
        results = {}
        for f in tr.fns:
            if f.ctor_dtor:
                continue
            flags = {"lexical": False}
            locks = frozenset(p.get("name", "") for p in f.params if any(t in astwalk.qt(p) for t in LOCK_TYPES))
            env = {"locks": locks, "flags": flags, "fn": f, "ret_type": f.ret_type, "acc": set(), "calls": []}
            ndef = len(tr.deferred)
            p = tr.stmt(f.body, env)
            results[id(f)] = dict(f=f, prog=p, lexical=flags["lexical"] or bool(locks), lockparam=bool(locks),
                                  declares=(tr.has_kind(f.body, ("DeclStmt",)) and any(
                                      any(t in astwalk.qt(d) for t in LOCK_TYPES) for d in iter_vardecls(f.body))) or bool(flags.get("mxlock")),
                                  deferred=tr.deferred[ndef:])
        # base-class functions can be call targets: translate them with this class's translator as well
        for f in tr.callable:
            if id(f) in results or f.ctor_dtor:
                continue
            flags = {"lexical": False}
            locks = frozenset(p.get("name", "") for p in f.params if any(t in astwalk.qt(p) for t in LOCK_TYPES))
            env = {"locks": locks, "flags": flags, "fn": f, "ret_type": f.ret_type, "acc": set(), "calls": []}
            seen_b = ident(kcls) + "_base_" + ident(f.name)
            seen[seen_b] = seen.get(seen_b, 0) + 1
            tr.defname[id(f)] = seen_b if seen[seen_b] == 1 else "%s_%d" % (seen_b, seen[seen_b])
            ndef = len(tr.deferred)
            p = tr.stmt(f.body, env)
            del tr.deferred[ndef:]
            results[id(f)] = dict(f=f, prog=p, lexical=False, lockparam=bool(locks), declares=False, deferred=[], base=True)
        classes.append((kcls, tr, results))
    return classes


def iter_vardecls(o):
    if isinstance(o, dict):
        if o.get("kind") == "VarDecl":
            yield o
        if o.get("kind") == "LambdaExpr":
            return
        for c in o.get("inner", []):
            yield from iter_vardecls(c)


def trivial(p):
    """no act, wait, await, bad, RAII scope or (non-trivial) call anywhere: only control flow — such a program has only
    empty traces and leaves the lock state alone"""
    k = p[0]
    if k in ("lock", "unlock", "acc", "wait", "await", "bad", "guard", "ulock", "waitpred", "callref", "callalts"):
        return False
    for x in p[1:]:
        if isinstance(x, tuple) and not trivial(x):
            return False
        if isinstance(x, list) and not all(trivial(y) for y in x):
            return False
    return True


def link(results, defname):
    """replace call nodes by references to callee definitions; drop calls whose callee does nothing lock-relevant;
    a (mutually) recursive call is not understood -> bad.  Returns {id: prog}, emission order."""
    done, order, state = {}, [], {}

    def sub(p, stack):
        k = p[0]
        if k == "callalts":
            name, cands = p[1], p[2]
            outs = []
            for c in cands:
                r = results.get(id(c))
                if r is None:
                    continue
                if id(c) in stack:
                    outs.append(("bad", "recursive call of " + name))
                    continue
                if c.body is not None and c.body.get("kind") == "CoroutineBodyStmt":
                    continue      # calling a coroutine function only creates the frame; its body is an entry of its own
                q = visit(c, stack)
                outs.append(SKIP if trivial(q) else ("callref", name, defname[id(c)]))
            return alts(outs) if len(outs) > 1 else (outs[0] if outs else SKIP)
        if k in ("seq", "alts"):
            xs = [sub(x, stack) for x in p[1]]
            return seq(xs) if k == "seq" else alts(xs)
        if k == "ite":
            return ite(sub(p[1], stack), sub(p[2], stack))
        if k == "loop":
            return loop(sub(p[1], stack))
        if k in ("guard", "ulock"):
            return (k, sub(p[1], stack))
        if k == "waitpred":
            return ("waitpred", sub(p[1], stack))
        if k == "catch":
            return catch(p[1], sub(p[2], stack))
        if k == "tryc":
            return tryc(sub(p[1], stack), sub(p[2], stack))
        return p

    def visit(f, stack):
        if id(f) in done:
            return done[id(f)]
        r = results[id(f)]
        q = sub(r["prog"], stack | {id(f)})
        done[id(f)] = q
        r["deferred_linked"] = [(sub(dp, stack | {id(f)}), lex) for (_fn, dp, lex) in r["deferred"]]
        order.append(f)
        return q
    for r in list(results.values()):
        visit(r["f"], frozenset())
    return done, order


def regenerate(out=None):
    """regenerate Generated/LockProgs.lean (or `out`) from $COCLS_REPO (default /repo)"""
    classes = build()
    lines = ["import CoclsModel.LockProg",
             "/-! GENERATED by extract/lockprog.py from /repo/src/cocls/*.h — do not edit.",
             "One structured lock program per member function of a mutex-guarded class that lexically takes the lock or touches a",
             "guarded field (constructors and destructors excluded, as in `LockTables.lean`: they run before/after the object is",
             "shared), plus the functions they call (inlined through `call`), plus one entry per lambda that runs later. -/",
             "namespace Cocls.Generated.LockProgs", "open Cocls Cocls.LockDisc Cocls.LockProg Cocls.LockProg.Prog", ""]
    entries = []
    fields_rows = []
    summary = {"classes": {}, "bad": [], "functions": 0, "acts": 0}
    for kcls, tr, results in classes:
        fields_rows.append("  (%s, [%s])" % (ex.lstr(kcls), ", ".join(ex.lstr(f) for f in tr.fields)))
        done, order = link(results, tr.defname)
        lines.append("/-! ### %s — guarded fields: %s -/" % (kcls, ", ".join("%d=%s" % (i, f) for i, f in enumerate(tr.fields))))
        lines.append("")
        byname = {tr.defname[id(f)]: f for f in order}
        def is_entry(g):
            r = results[id(g)]
            return (g.access == "public" or r["declares"]) and not r["lockparam"]

        def calls_helper(p):
            """the program calls (directly) a function that is NOT a stand-alone entry: a helper that expects its caller's lock"""
            if p[0] == "callref":
                return p[2] in byname and not is_entry(byname[p[2]])
            return any((isinstance(x, tuple) and calls_helper(x)) or (isinstance(x, list) and any(calls_helper(y) for y in x)) for x in p[1:])
        # listed: lexically takes the lock / touches a guarded field / waits - or, without doing any of that itself, calls a helper that
        # expects the lock to be held (then it is an entry point whose call of the helper must be checked from the free state)
        listed = [f for f in order if (results[id(f)]["lexical"] or calls_helper(done[id(f)])) and not results[id(f)].get("base")]
        needed = set()

        def need(p):
            if p[0] == "callref":
                if p[2] not in needed:
                    needed.add(p[2])
                    need(done[id(byname[p[2]])])
                return
            for x in p[1:]:
                if isinstance(x, tuple):
                    need(x)
                elif isinstance(x, list):
                    for y in x:
                        need(y)
        for f in listed:
            needed.add(tr.defname[id(f)])
            need(done[id(f)])
            for d, lex in results[id(f)].get("deferred_linked", []):
                if lex:
                    need(d)
        nfn = nacts = 0
        for f in order:
            r = results[id(f)]
            q = done[id(f)]
            dn0 = tr.defname[id(f)]
            is_listed = f in listed
            if dn0 in needed:
                # stand-alone entry (mutex free at the call): public, or declares a lock object of its own
                entry = (f.access == "public" or r["declares"]) and not r["lockparam"]
                lines.append("/-- %s::%s (%s:%s)%s -/" % (f.cls, f.name, f.file, (f.node.get("loc") or {}).get("line", "?"),
                                                          "" if is_listed else " — inlined into its callers only"))
                lines.append("def %s : Prog :=\n  %s\n" % (dn0, render(q)))
                if is_listed:
                    entries.append((kcls, table_fn_name(f, kcls), dn0, entry))
                    a, _n = count_nodes(q)
                    nfn += 1
                    nacts += a
                if has_bad(q):
                    summary["bad"].append("%s::%s" % (f.cls, f.name))
            if not is_listed:
                continue
            for j, (d, lex) in enumerate(r.get("deferred_linked", [])):
                if not lex:
                    continue
                dn = "%s_lambda%d" % (dn0, j + 1)
                lines.append("/-- lambda %d in %s::%s that runs later / elsewhere: entered with the mutex free -/" % (j + 1, f.cls, f.name))
                lines.append("def %s : Prog :=\n  %s\n" % (dn, render(d)))
                entries.append((kcls, table_fn_name(f, kcls), dn, True))
                a, _n = count_nodes(d)
                nfn += 1
                nacts += a
                if has_bad(d):
                    summary["bad"].append("%s::%s lambda %d" % (f.cls, f.name, j + 1))
        summary["classes"][kcls] = {"functions": nfn, "acts": nacts, "fields": len(tr.fields)}
        summary["functions"] += nfn
        summary["acts"] += nacts
    lines.append("def lockFields : List (String × List String) := [\n" + ",\n".join(fields_rows) + "\n]\n")
    lines.append("def allLockProgs : List LockFn := [\n" + ",\n".join(
        "  { cls := %s, fn := %s, defName := %s, entry := %s, prog := %s }" % (ex.lstr(c), ex.lstr(fn), ex.lstr(dn), ex.lbool(e), dn)
        for c, fn, dn, e in entries) + "\n]\n")
    lines.append("end Cocls.Generated.LockProgs\n")
    ex.write(out or os.path.join(ex.GEN, "LockProgs.lean"), "\n".join(lines))
    summary["entries"] = len(entries)
    return summary


def has_bad(p):
    if p[0] == "bad":
        return True
    for x in p[1:]:
        if isinstance(x, tuple) and has_bad(x):
            return True
        if isinstance(x, list) and any(has_bad(y) for y in x):
            return True
    return False


if __name__ == "__main__":
    import json
    print(json.dumps(regenerate(), indent=1))
