"""NAME LAYER: present the CURRENT tree to the obligations under an alpha-renaming of its private names.

A consistent, injective, capture-free renaming of identifiers never changes the meaning of a program.  The decidable obligations
(`Props/C03.lean`, `Props/C20.lean`), the translator's own tables (`extract.GUARDED`, `SHARED_*`) and the harnesses name classes, member
functions, fields, parameters and locals of the library as strings.  PUBLIC names are the library's interface; private / protected
members, private helpers, nested private types, parameters and locals are not: a maintainer may rename them at any time.

This module
  * describes the tree (`scan`): per class definition the ordered data members (name, normalised type, access), member functions
    (name, parameter types, return type, access, static/const, a body fingerprint that does not depend on private names, parameter
    and local names), nested types, enumerators;  `python3 -m extract.names --write-baseline` stores that description of the
    VALIDATED tree in `extract/names_baseline.json`;
  * on every run guesses, for every baseline name that is missing now, which current name took its place (`compute_mapping`) and
    checks that the guess is (i) a function of (declaring class, name) — function scope for parameters / locals —, (ii) injective
    per scope, (iii) capture-free; a guess that fails a check, is ambiguous or has no candidate is dropped: nothing is renamed and
    the obligation that names the old name fails exactly as it did without this layer (an alarm, never a silent pass);
  * applies the renaming at ONE place (`canonicalise`, called on the freshly dumped AST, before `astwalk.Walker` sees it): every declaration node and every
    reference to it (by clang's declaration id; dependent references by C++ scope lookup) of the JSON AST gets its canonical name,
    i.e. the translator literally sees the alpha-renamed program, and every table it generates carries canonical names;
  * generates `cocls_names.h` for the harnesses: `#define VN_<class>_<canonical> <actual>` for every non-public member of every
    described class (`harness_header`).

How the renaming is guessed only affects the false-alarm rate, never soundness: what is proved about the renamed program holds for
the current one.
"""
import hashlib
import json
import os
import re
import sys

VERIF = os.path.dirname(os.path.dirname(os.path.abspath(__file__)))
BASELINE = os.path.join(VERIF, "extract", "names_baseline.json")

REC_KINDS = ("CXXRecordDecl", "ClassTemplateSpecializationDecl", "ClassTemplatePartialSpecializationDecl")
FN_KINDS = ("FunctionDecl", "CXXMethodDecl", "CXXConstructorDecl", "CXXDestructorDecl", "CXXConversionDecl")
TPARAM_KINDS = ("TemplateTypeParmDecl", "NonTypeTemplateParmDecl", "TemplateTemplateParmDecl")
BODY_KINDS = ("CompoundStmt", "CoroutineBodyStmt", "CXXTryStmt")
LOCK_TYPES = ("unique_lock", "lock_guard", "scoped_lock")
STRUCT_TOKENS = {"IfStmt", "WhileStmt", "ForStmt", "DoStmt", "CXXForRangeStmt", "SwitchStmt", "CaseStmt", "DefaultStmt", "ReturnStmt",
                 "CoreturnStmt", "CoawaitExpr", "DependentCoawaitExpr", "CoyieldExpr", "CXXTryStmt", "CXXCatchStmt", "CXXThrowExpr",
                 "LambdaExpr", "BreakStmt", "ContinueStmt", "CXXNewExpr", "CXXDeleteExpr", "ConditionalOperator", "CXXThisExpr",
                 "ArraySubscriptExpr", "CXXStaticCastExpr", "CXXReinterpretCastExpr", "CXXConstCastExpr", "CXXDynamicCastExpr"}


def qt(o):
    t = o.get("type")
    return t.get("qualType", "") if isinstance(t, dict) else ""


def ident(s):
    return re.sub(r"[^A-Za-z0-9_]", "_", s.replace("::", "_")).strip("_")


# =========================================================================================== description of a tree
class Def:
    """one class definition (primary template pattern, explicit / partial specialisation, plain class) — or the pseudo class ""
    that holds the namespace-level functions"""

    def __init__(self, q, node, tenv, implicit=False):
        self.q, self.node, self.tenv, self.implicit = q, node, dict(tenv), implicit
        self.occ = 0
        self.fields = []       # dict(name, type, access, id)
        self.svars = []        # static data members: dict(name, type, access, id)
        self.methods = []      # dict(...)
        self.nested = []       # dict(name, kind, access, id, shape)
        self.enums = []        # dict(enum, name, access, id, idx)
        self.bases = [b.get("type", {}).get("qualType", "") for b in (node.get("bases") or [])] if node else []
        self.parent = None     # actual qualified name of the enclosing class
        self.tparams = []      # own template parameters: (placeholder, name, id)
        self.tnode = None      # the node whose subtree the template parameters scope over

    def member_names(self):
        out = set()
        for l in (self.fields, self.svars, self.methods, self.nested, self.enums):
            for x in l:
                if x["name"]:
                    out.add(x["name"])
        return out


class Tree:
    def __init__(self):
        self.defs = []          # definitions the translator walks (source order, enclosing class before nested ones)
        self.insts = []         # implicit instantiations (only their declaration ids matter)
        self.free = Def("", None, {})
        self.by_id = {}         # declaration id -> (q, name, access) for every member of every record (instantiations included)
        self.method_by_id = {}  # in-class declaration id -> method dict
        self.def_of_node = {}   # record node id -> Def


def tparams_of(node, tenv):
    env = dict(tenv)
    for c in node.get("inner", []):
        if c.get("kind") in TPARAM_KINDS and c.get("name"):
            env[c["name"]] = "$%s.%s" % (c.get("depth", 0), c.get("index", 0))
    return env


def own_tparams(node):
    """[(placeholder, name, id)] of the template parameters declared directly by a template / partial specialisation node"""
    return [("$%s.%s" % (c.get("depth", 0), c.get("index", 0)), c.get("name", ""), c.get("id"))
            for c in (node or {}).get("inner", []) if c.get("kind") in TPARAM_KINDS]


def norm_type(t, tenv, nested=None):
    """type spelling modulo namespace qualification, elaborated-type keywords, template parameter names and renamed nested types"""
    t = re.sub(r"\b(class|struct|typename|enum)\s+", "", t)
    t = t.replace("::cocls::", "").replace("cocls::", "")
    names = dict(tenv)
    if nested:
        names.update(nested)
    if names:
        t = re.sub(r"[A-Za-z_]\w*", lambda m: names.get(m.group(0), m.group(0)), t)
    return re.sub(r"\s+", " ", t).strip()


def fn_body(node):
    for c in node.get("inner", []):
        if c.get("kind") in BODY_KINDS:
            return c
    return None


def scan(objs):
    """walk the clang JSON AST the way astwalk.Walker does (namespaces are transparent, classes give the scope) and describe it"""
    tr = Tree()
    outofline = []

    def method(c, d, tenv, access, friend=False, tmpl=None):
        ty = qt(c)
        params = [p for p in c.get("inner", []) if p.get("kind") == "ParmVarDecl"]
        m = {"name": c.get("name", "?"), "id": c.get("id"), "node": c, "kind": c.get("kind"), "access": "public" if friend else access,
             "static": c.get("storageClass") == "static", "const": bool(re.search(r"\)\s*const\b", ty)), "virtual": bool(c.get("virtual")),
             "ret": ty.split("(")[0].strip(), "ptypes_raw": [qt(p) for p in params], "tenv": tenv, "friend": friend,
             "defnode": c if fn_body(c) is not None else None, "tmpl": tmpl, "deleted": bool(c.get("explicitlyDeleted")),
             "tparams": own_tparams(tmpl),
             "implicit": bool(c.get("isImplicit"))}
        d.methods.append(m)
        if c.get("id"):
            tr.method_by_id[c["id"]] = m
        return m

    def index_member(d, c, access, name=None):
        if c.get("id"):
            tr.by_id[c["id"]] = (d.q, name if name is not None else c.get("name", ""), access)

    def record(o, scope, tenv, implicit=False, tmpl=None):
        if not o.get("inner") or not o.get("completeDefinition", True):
            return
        name = o.get("name", "?")
        tenv = tparams_of(o, tenv)
        d = Def("::".join(scope + [name]), o, tenv, implicit)
        d.tparams = own_tparams(tmpl) + own_tparams(o)
        d.tnode = tmpl or o
        d.parent = "::".join(scope) if scope else None
        (tr.insts if implicit else tr.defs).append(d)
        if o.get("id"):
            tr.def_of_node[o["id"]] = d
        access = "public" if o.get("tagUsed") in ("struct", "union") else "private"
        for c in o.get("inner", []):
            k = c.get("kind")
            if k == "AccessSpecDecl":
                access = c.get("access", access)
            elif k == "FieldDecl":
                d.fields.append({"name": c.get("name", ""), "type_raw": qt(c), "access": access, "id": c.get("id")})
                index_member(d, c, access)
            elif k == "VarDecl":
                d.svars.append({"name": c.get("name", ""), "type_raw": qt(c), "access": access, "id": c.get("id")})
                index_member(d, c, access)
            elif k in FN_KINDS:
                if c.get("isImplicit"):
                    continue
                method(c, d, tenv, access)
                index_member(d, c, access)
            elif k == "FunctionTemplateDecl":
                tenv2 = tparams_of(c, tenv)
                first = True
                for f in c.get("inner", []):
                    if f.get("kind") in FN_KINDS:
                        if first:
                            method(f, d, tenv2, access, tmpl=c)
                            first = False
                        index_member(d, f, access)       # instantiations of a member template carry the same name
                index_member(d, c, access)
            elif k in REC_KINDS:
                if c.get("isImplicit"):
                    continue
                if c.get("name"):
                    complete = bool(c.get("inner")) and c.get("completeDefinition", True)
                    prev = [n for n in d.nested if n["name"] == c["name"] and n["kind"] == "record"]
                    if not prev:
                        d.nested.append({"name": c["name"], "kind": "record", "access": access, "id": c.get("id"),
                                         "shape": shape_of(c) if complete else None})
                    elif complete:
                        prev[0]["shape"] = shape_of(c)
                    index_member(d, c, access)
                record(c, scope + [name], tenv, implicit)
            elif k == "ClassTemplateDecl":
                tenv2 = tparams_of(c, tenv)
                for r in c.get("inner", []):
                    if r.get("kind") == "CXXRecordDecl":
                        d.nested.append({"name": c.get("name", ""), "kind": "template", "access": access, "id": c.get("id"),
                                         "shape": shape_of(r)})
                        index_member(d, c, access)
                        index_member(d, r, access)
                        record(r, scope + [name], tenv2, implicit, tmpl=c)
                    elif r.get("kind") in REC_KINDS:
                        index_member(d, r, access)
                        record(r, scope + [name], tenv2, True)
            elif k == "EnumDecl":
                if c.get("name"):
                    d.nested.append({"name": c["name"], "kind": "enum", "access": access, "id": c.get("id"),
                                     "shape": "e%d" % len([e for e in c.get("inner", []) if e.get("kind") == "EnumConstantDecl"])})
                    index_member(d, c, access)
                for i, e in enumerate([e for e in c.get("inner", []) if e.get("kind") == "EnumConstantDecl"]):
                    d.enums.append({"enum": c.get("name", ""), "name": e.get("name", ""), "access": access, "id": e.get("id"), "idx": i})
                    index_member(d, e, access)
            elif k in ("TypeAliasDecl", "TypedefDecl"):
                d.nested.append({"name": c.get("name", ""), "kind": "alias", "access": access, "id": c.get("id"), "shape_raw": qt(c)})
                index_member(d, c, access)
            elif k == "TypeAliasTemplateDecl":
                d.nested.append({"name": c.get("name", ""), "kind": "alias-template", "access": access, "id": c.get("id"), "shape": ""})
                index_member(d, c, access)
            elif k == "FriendDecl":
                for f in c.get("inner", []):
                    if f.get("kind") == "FunctionDecl":
                        method(f, d, tenv, access, friend=True)

    def shape_of(r):
        inner = r.get("inner", [])
        return "f%d m%d" % (len([c for c in inner if c.get("kind") == "FieldDecl"]),
                            len([c for c in inner if c.get("kind") in FN_KINDS + ("FunctionTemplateDecl",) and not c.get("isImplicit")]))

    def top(o, scope, tenv):
        k = o.get("kind")
        if k == "NamespaceDecl":
            for c in o.get("inner", []):
                top(c, scope, tenv)
        elif k in REC_KINDS:
            record(o, scope, tenv)
        elif k == "ClassTemplateDecl":
            tenv2 = tparams_of(o, tenv)
            for c in o.get("inner", []):
                if c.get("kind") == "CXXRecordDecl":
                    record(c, scope, tenv2, tmpl=o)
                elif c.get("kind") in REC_KINDS:
                    record(c, scope, tenv2, True)
        elif k in FN_KINDS:
            if o.get("parentDeclContextId") and o.get("previousDecl"):
                outofline.append((o, tenv))
            elif not o.get("isImplicit"):
                method(o, tr.free, tenv, "public")
        elif k == "FunctionTemplateDecl":
            tenv2 = tparams_of(o, tenv)
            for c in o.get("inner", []):
                if c.get("kind") in FN_KINDS:
                    if c.get("parentDeclContextId") and c.get("previousDecl"):
                        outofline.append((c, tenv2))
                    else:
                        method(c, tr.free, tenv2, "public", tmpl=o)
                    break

    for o in objs:
        top(o, [], {})
    # out-of-line definitions of member functions: the body (and the parameters it refers to) live in the definition node
    for o, tenv in outofline:
        m = tr.method_by_id.get(o.get("previousDecl"))
        if m is not None:
            if fn_body(o) is not None:
                m["defnode"] = o
            m.setdefault("extra_nodes", []).append(o)
            q = next((d.q for d in tr.defs if m in d.methods), "")
            if o.get("id"):
                tr.by_id[o["id"]] = (q, m["name"], m["access"])
    # occurrence numbers of definitions that share a qualified name (specialisations)
    seen = {}
    for d in tr.defs:
        d.occ = seen.get(d.q, 0)
        seen[d.q] = d.occ + 1
    tr.nonpublic = {name for (_q, name, acc) in tr.by_id.values() if acc != "public" and name}
    for d in tr.defs + [tr.free]:
        for m in d.methods:
            finish_method(tr, m)
        # where a data member is used inside its class: [(index of the member function, number of references)] — a renamed field is
        # used exactly where the baseline's field was
        for f in d.fields + d.svars:
            f["uses"] = [[mi, m["refs"].get(f["id"], 0) + (m["drefs"].get(f["name"], 0) if f["name"] else 0)] for mi, m in enumerate(d.methods)
                         if m["refs"].get(f["id"], 0) + (m["drefs"].get(f["name"], 0) if f["name"] else 0)]
    return tr


def token_at(node):
    from . import astwalk
    return astwalk.token_at(node.get("_file", ""), (node.get("range") or {}).get("end") or {})


def finish_method(tr, m):
    """fingerprint, parameter names and locals of a member function (needs the access index of the whole tree)"""
    dn = m["defnode"] or m["node"]
    params = [p for p in dn.get("inner", []) if p.get("kind") == "ParmVarDecl"]
    m["pnames"] = [p.get("name", "") for p in params]
    m["pids"] = [[p.get("id")] for p in params]
    # the same parameters in the other declarations of the function (in-class declaration of an out-of-line definition)
    for other in [m["node"]] + m.get("extra_nodes", []):
        if other is dn:
            continue
        for i, p in enumerate([p for p in other.get("inner", []) if p.get("kind") == "ParmVarDecl"]):
            if i < len(m["pids"]):
                m["pids"][i].append(p.get("id"))
                if not m["pnames"][i]:
                    m["pnames"][i] = p.get("name", "")
    toks, locs, seen, names = [], [], set(), set()
    refs, drefs = {}, {}       # references to members: by declaration id, and by name where clang could not resolve them
    pidset = {i for l in m["pids"] for i in l}

    def vis(name, rid=None):
        """token of a referenced member / function name: its spelling when public, a placeholder when private"""
        info = tr.by_id.get(rid) if rid else None
        if info is not None:
            return name if info[2] == "public" else "·"
        return "·" if name in tr.nonpublic else name

    def rec(o):
        if not isinstance(o, dict):
            return
        k = o.get("kind")
        if k in ("VarDecl", "ParmVarDecl", "BindingDecl") and o is not dn and o.get("id") not in seen and o.get("id") not in pidset:
            seen.add(o.get("id"))
            locs.append({"name": o.get("name", ""), "type_raw": qt(o), "id": o.get("id"), "kind": k})
            if any(t in qt(o) for t in LOCK_TYPES):
                toks.append("L")
        if o.get("name") and k and k.endswith("Decl"):
            names.add(o["name"])
        if k in STRUCT_TOKENS:
            toks.append(k)
        elif k in ("BinaryOperator", "UnaryOperator", "CompoundAssignOperator"):
            toks.append(o.get("opcode", "?"))
        elif k == "MemberExpr":
            names.add(o.get("name", ""))
            toks.append("." + vis(o.get("name", ""), o.get("referencedMemberDecl")))
            refs[o.get("referencedMemberDecl")] = refs.get(o.get("referencedMemberDecl"), 0) + 1
        elif k == "CXXDependentScopeMemberExpr":
            names.add(o.get("member", ""))
            toks.append("." + vis(o.get("member", "")))
            drefs[o.get("member", "")] = drefs.get(o.get("member", ""), 0) + 1
        elif k == "UnresolvedMemberExpr":
            t = token_at(o)
            names.add(t)
            toks.append("." + vis(t))
        elif k == "UnresolvedLookupExpr":
            names.add(o.get("name", ""))
            toks.append("@" + vis(o.get("name", "")))
        elif k == "DeclRefExpr":
            r = o.get("referencedDecl") or {}
            names.add(r.get("name", ""))
            if r.get("kind") in ("FunctionDecl", "CXXMethodDecl", "FunctionTemplateDecl"):
                toks.append("@" + vis(r.get("name", ""), r.get("id")))
            elif r.get("kind") == "EnumConstantDecl" and not r.get("name", "").startswith("memory_order"):
                toks.append("#" + vis(r.get("name", ""), r.get("id")))
            elif r.get("kind") == "VarDecl" and r.get("id") in tr.by_id:
                toks.append("$" + vis(r.get("name", ""), r.get("id")))
        elif k == "CXXCtorInitializer":
            a = o.get("anyInit") or {}
            if a:
                names.add(a.get("name", ""))
                toks.append("i" + vis(a.get("name", ""), a.get("id")))
                refs[a.get("id")] = refs.get(a.get("id"), 0) + 1
        for c in o.get("inner", []):
            rec(c)

    body = fn_body(dn)
    for c in dn.get("inner", []):
        if c.get("kind") == "CXXCtorInitializer" or c is body:
            rec(c)
    m["locals"] = locs
    m["refs"], m["drefs"] = refs, drefs
    m["names_in_body"] = names
    m["has_body"] = body is not None
    m["fp"] = hashlib.sha1("\n".join(toks).encode()).hexdigest()[:12] if body is not None else ""
    m["ntok"] = len(toks)


def describe(tr):
    """JSON-able description (what the baseline file holds)"""
    out = {}
    for d in tr.defs + [tr.free]:
        nested_types = {}
        key = "%s#%d" % (d.q, d.occ)
        out[key] = {
            "name": d.q, "bases": [norm_type(b, d.tenv) for b in d.bases], "tparams": [[ph, n] for ph, n, _i in d.tparams],
            "fields": [{"name": f["name"], "type": norm_type(f["type_raw"], d.tenv), "access": f["access"], "uses": f["uses"]} for f in d.fields],
            "static_vars": [{"name": f["name"], "type": norm_type(f["type_raw"], d.tenv), "access": f["access"], "uses": f["uses"]} for f in d.svars],
            "methods": [{"name": m["name"], "params": [norm_type(t, m["tenv"]) for t in m["ptypes_raw"]], "ret": norm_type(m["ret"], m["tenv"]),
                         "access": m["access"], "static": m["static"], "const": m["const"], "kind": m["kind"], "fp": m["fp"], "ntok": m["ntok"],
                         "tparams": [[ph, n] for ph, n, _i in m["tparams"]], "pnames": m["pnames"], "locals": [[l["name"], norm_type(l["type_raw"], m["tenv"])] for l in m["locals"]]}
                        for m in d.methods],
            "nested": [{"name": n["name"], "kind": n["kind"], "access": n["access"],
                        "shape": n["shape"] if "shape" in n else norm_type(n["shape_raw"], d.tenv)} for n in d.nested],
            "enumerators": [{"enum": e["enum"], "name": e["name"], "access": e["access"], "idx": e["idx"]} for e in d.enums],
        }
    return out


# =========================================================================================== guessing and checking the renaming
class Mapping:
    def __init__(self):
        self.members = {}      # (actual qualified class name, actual member name) -> canonical member name
        self.rid = {}          # declaration id -> canonical name
        self.report = []       # what was mapped (goes into the evidence)
        self.dropped = []      # guesses that failed a check
        self.canon_q = {}      # actual qualified class name -> canonical qualified class name
        self.tsubst = []       # (template node, {actual template parameter name: canonical}, report entry): type spellings in its subtree
        self.tree = None

    def summary(self):
        return {"mapped": self.report, "dropped": self.dropped}


def load_baseline():
    try:
        return json.load(open(BASELINE))["classes"]
    except (OSError, ValueError, KeyError):
        return {}


def _match_ordinal(missing, bl, cl, new, same):
    """baseline entries `missing` (subset of `bl`) -> the current entry with the same `same`-key and the same ordinal among the entries
    with that key; only entries of `new` (current entries whose name the baseline does not know) qualify"""
    out = []
    for b in missing:
        kb = same(b)
        bs = [x for x in bl if same(x) == kb]
        cs = [x for x in cl if same(x) == kb]
        if len(bs) == len(cs):
            c = cs[bs.index(b)]
            if any(c is n for n in new):
                out.append((b, c))
                continue
        # fall back: same declaration index
        if len(bl) == len(cl):
            c = cl[bl.index(b)]
            if any(c is n for n in new):
                out.append((b, c))
    return out


def compute_mapping(tr, baseline):
    mp = Mapping()
    mp.tree = tr
    nested_maps = {}       # actual qualified name of a class -> {actual nested type name: canonical}
    pairs = []             # (Def, baseline dict, {actual->canonical nested names visible})
    guesses = {}           # actual q -> list of (kind, canonical, actual, ids)
    for d in tr.defs + [tr.free]:
        if d.parent is not None and d.parent in mp.canon_q:
            simple = d.q.split("::")[-1]
            cq = mp.canon_q[d.parent] + "::" + nested_maps.get(d.parent, {}).get(simple, simple)
        else:
            cq = d.q
        mp.canon_q[d.q] = cq
        b = baseline.get("%s#%d" % (cq, d.occ))
        if b is None:
            continue
        # names of nested types of the enclosing classes that were renamed are visible in the type spellings of this class
        vis_nested = {}
        p = d.parent
        while p:
            vis_nested.update(nested_maps.get(p, {}))
            p = p.rsplit("::", 1)[0] if "::" in p else None
        bnames = set()
        for key in ("fields", "static_vars", "methods", "nested", "enumerators"):
            bnames |= {x["name"] for x in b[key] if x["name"]}
        cnames = d.member_names()
        g = guesses.setdefault(d.q, [])
        # ---- nested types first (their names occur in the types of the other members)
        bl, cl = b["nested"], d.nested
        for n in cl:
            if "shape" not in n:
                n["shape"] = None       # alias: compared after the nested map is known
        missing = [x for x in bl if x["name"] and x["name"] not in cnames]
        new = [x for x in cl if x["name"] and x["name"] not in bnames]
        same = lambda x: (x["kind"], x["access"])
        nm = {}
        for bn, cn in _match_ordinal(missing, bl, cl, new, same):
            if bn["kind"] in ("record", "template", "enum") and cn.get("shape") != bn["shape"]:
                continue
            nm[cn["name"]] = bn["name"]
            g.append(("type", bn["name"], cn["name"], [cn["id"]]))
        nested_maps[d.q] = nm
        vis_nested.update(nm)
        nt = lambda t, env: norm_type(t, env, vis_nested)
        # ---- data members
        for key, cur in (("fields", d.fields), ("static_vars", d.svars)):
            bl = b[key]
            for f in cur:
                f["type"] = nt(f["type_raw"], d.tenv)
            missing = [x for x in bl if x["name"] and x["name"] not in cnames]
            new = [x for x in cur if x["name"] and x["name"] not in bnames]
            for bf, cf in _match_ordinal(missing, bl, cur, new, lambda x: (x["type"], x["access"])):
                if bf.get("uses") != cf.get("uses"):
                    mp.dropped.append({"class": cq, "actual": cf["name"], "canonical": bf["name"], "why": "the field is not used where the baseline's field was"})
                    continue
                g.append(("field", bf["name"], cf["name"], [cf["id"]]))
        # ---- enumerators
        missing = [x for x in b["enumerators"] if x["name"] not in cnames]
        new = [x for x in d.enums if x["name"] not in bnames]
        for be in missing:
            cands = [e for e in new if e["idx"] == be["idx"] and vis_nested.get(e["enum"], e["enum"]) == be["enum"]]
            if len(cands) == 1:
                g.append(("enumerator", be["name"], cands[0]["name"], [cands[0]["id"]]))
        # ---- member functions: a name that is missing now <-> a new name with the same overload set (signatures + fingerprints)
        def bsig(m):
            return (tuple(m["params"]), m["ret"], m["access"], m["static"], m["const"], m["fp"])

        def csig(m):
            return (tuple(nt(t, m["tenv"]) for t in m["ptypes_raw"]), nt(m["ret"], m["tenv"]), m["access"], m["static"], m["const"], m["fp"])
        special = ("CXXConstructorDecl", "CXXDestructorDecl", "CXXConversionDecl")
        bsets, csets = {}, {}
        for m in b["methods"]:
            if m["kind"] not in special:
                bsets.setdefault(m["name"], []).append(bsig(m))
        for m in d.methods:
            if m["kind"] not in special:
                csets.setdefault(m["name"], []).append(csig(m))
        fn_map = {}
        for bname, bs in bsets.items():
            if bname in cnames:
                continue
            cands = [cname for cname, cs in csets.items() if cname not in bnames and sorted(map(repr, cs)) == sorted(map(repr, bs))]
            # several baseline names with the same overload set: ambiguous
            rivals = [n for n, s in bsets.items() if n not in cnames and sorted(map(repr, s)) == sorted(map(repr, bs))]
            if len(cands) == 1 and len(rivals) == 1:
                fn_map[cands[0]] = bname
                ids = []
                for m in d.methods:
                    if m["name"] == cands[0]:
                        ids += [m["id"]] + [n.get("id") for n in m.get("extra_nodes", [])] + ([m["tmpl"].get("id")] if m.get("tmpl") else [])
                g.append(("function", bname, cands[0], ids))
        pairs.append((d, b, vis_nested, fn_map))
        tparam_guess(mp, d.tnode, d.tparams, b.get("tparams", []), {"class": cq}, d.member_names())

    # ---- merge per qualified class name: the renaming is a function of (class, name)
    by_class = {}
    for q, g in guesses.items():
        for kind, canon, actual, ids in g:
            e = by_class.setdefault(q, {}).setdefault(actual, {"canon": set(), "kind": kind, "ids": []})
            e["canon"].add(canon)
            e["ids"] += ids
    scope_names = _scope_names(tr)
    accepted = {}
    for q, names in by_class.items():
        ok = {}
        for actual, e in names.items():
            if len(e["canon"]) != 1:
                mp.dropped.append({"class": mp.canon_q.get(q, q), "actual": actual, "why": "definitions of the class disagree: %s" % sorted(e["canon"])})
                continue
            ok[actual] = (next(iter(e["canon"])), e["kind"])
        # (ii) injective
        inv = {}
        for actual, (canon, _k) in ok.items():
            inv.setdefault(canon, []).append(actual)
        for canon, acts in inv.items():
            if len(acts) > 1:
                for a in acts:
                    del ok[a]
                    mp.dropped.append({"class": mp.canon_q.get(q, q), "actual": a, "canonical": canon, "why": "not injective"})
        # (iii) capture-free: the canonical name is not visible as something else in the scope of the class
        taken = scope_names(q)
        for actual, (canon, kind) in list(ok.items()):
            if canon in taken:
                del ok[actual]
                mp.dropped.append({"class": mp.canon_q.get(q, q), "actual": actual, "canonical": canon, "why": "capture: the canonical name is in use in the scope of the class"})
        accepted[q] = ok
    for q, ok in accepted.items():
        for actual, (canon, kind) in sorted(ok.items()):
            mp.members[(q, actual)] = canon
            mp.report.append({"class": mp.canon_q.get(q, q), "kind": kind, "canonical": canon, "actual": actual})
    # declaration ids of the renamed members: every record (instantiations included) with that qualified name
    for did, (q, name, _acc) in tr.by_id.items():
        c = mp.members.get((q, name))
        if c is not None:
            mp.rid[did] = c
    # constructors / destructors of a renamed nested type
    for d in tr.defs + tr.insts:
        if d.parent is None:
            continue
        simple = d.q.split("::")[-1]
        c = mp.members.get((d.parent, simple))
        if c is None:
            continue
        for x in d.node.get("inner", []):
            for f in ([x] if x.get("kind") in FN_KINDS else [y for y in x.get("inner", []) if y.get("kind") in FN_KINDS] if x.get("kind") == "FunctionTemplateDecl" else []):
                if f.get("kind") in ("CXXConstructorDecl", "CXXDestructorDecl") and f.get("id"):
                    mp.rid[f["id"]] = re.sub(r"\b%s\b" % re.escape(simple), c, f.get("name", ""))

    # ---- parameters and locals of the member functions (function scope)
    for d, b, vis_nested, fn_map in pairs:
        accepted_fn = {a: c for a, c in fn_map.items() if (d.q, a) in mp.members}
        used = {}
        for m in d.methods:
            cname = accepted_fn.get(m["name"], m["name"])
            if m["name"] in fn_map and m["name"] not in accepted_fn:
                continue
            sig = tuple(norm_type(t, m["tenv"], vis_nested) for t in m["ptypes_raw"])
            cands = [bm for bm in b["methods"] if bm["name"] == cname and tuple(bm["params"]) == sig and bm["kind"] == m["kind"]]
            k = used.get((cname, sig), 0)
            used[(cname, sig)] = k + 1
            if k >= len(cands):
                continue
            bm = cands[k]
            if m.get("tmpl") is not None:
                tparam_guess(mp, m["tmpl"], m["tparams"], bm.get("tparams", []), {"class": mp.canon_q.get(d.q, d.q), "fn": cname},
                             set(m["names_in_body"]) | set(m["pnames"]) | {l["name"] for l in m["locals"]})
            ren = []       # (canonical, actual, ids, what)
            if bm["fp"] != m["fp"]:
                continue       # the body changed in more than names: its parameters / locals keep the names they have in the source
            for i, (bn, cn) in enumerate(zip(bm["pnames"], m["pnames"])):
                if bn and cn and bn != cn:
                    ren.append((bn, cn, m["pids"][i], "parameter"))
            bl, cl = bm["locals"], m["locals"]
            if len(bl) == len(cl):
                for (bn, bt), l in zip(bl, cl):
                    if bn and l["name"] and bn != l["name"] and norm_type(l["type_raw"], m["tenv"], vis_nested) == bt:
                        ren.append((bn, l["name"], [l["id"]], "local"))
            if not ren:
                continue
            # function scope: a simultaneous substitution of the names of parameters / locals.  It must be a function of the name
            # (every declaration of that name in the function is renamed, to the same canonical name), injective, and no canonical
            # name may be mentioned in the function by anything that is not itself renamed away (capture), before or after the
            # member renaming
            a2c, bad = {}, set()
            for c, a, _ids, _w in ren:
                if a2c.setdefault(a, c) != c:
                    bad.add(a)
            c2a = {}
            for a, c in a2c.items():
                c2a.setdefault(c, set()).add(a)
            mentioned = set(m["names_in_body"]) | set(m["pnames"]) | {l["name"] for l in m["locals"]}
            mentioned_canon = {mp.members[k2] for k2 in mp.members if k2[1] in m["names_in_body"]}
            decl_ids = {}
            for l in m["locals"]:
                decl_ids.setdefault(l["name"], set()).add(l["id"])
            for i, pn in enumerate(m["pnames"]):
                decl_ids.setdefault(pn, set()).update(m["pids"][i])
            ren_ids = {}
            for c, a, ids, _w in ren:
                ren_ids.setdefault(a, set()).update(ids)
            for c, a, ids, what in ren:
                why = None
                if a in bad:
                    why = "one name, two canonical names"
                elif len(c2a[c]) > 1:
                    why = "not injective"
                elif c in mentioned and not (c in a2c and a2c[c] != c and c not in bad):
                    why = "capture: the canonical name is mentioned in the function"
                elif c in mentioned_canon:
                    why = "capture: a renamed member of that name is used in the function"
                elif decl_ids.get(a, set()) != ren_ids.get(a, set()):
                    why = "a declaration of that name in the function has no counterpart"
                if why:
                    mp.dropped.append({"class": mp.canon_q.get(d.q, d.q), "fn": cname, "actual": a, "canonical": c, "why": why})
                    continue
                for i in ids:
                    if i:
                        mp.rid[i] = c
                mp.report.append({"class": mp.canon_q.get(d.q, d.q), "fn": cname, "kind": what, "canonical": c, "actual": a})
    # one line per (class, fn, canonical, actual)
    seen, rep = set(), []
    for r in mp.report:
        k = json.dumps(r, sort_keys=True)
        if k not in seen:
            seen.add(k)
            rep.append(r)
    mp.report = rep
    return mp


def tparam_guess(mp, node, cur, base, where, taken):
    """template parameters are local names too (`Lock`, `Fn`): same position, other name -> spell the types of the template's subtree with
    the baseline's name.  Checked when applied: the canonical name must not occur in any type spelling or as a name in that subtree."""
    if node is None or len(cur) != len(base):
        return
    sub, ids = {}, {}
    for (ph, cn, cid), (bph, bn) in zip(cur, base):
        if ph == bph and cn and bn and cn != bn:
            sub[cn] = bn
            ids[cid] = bn
    if not sub:
        return
    names = {n for _ph, n, _i in cur}
    for a, c in list(sub.items()):
        if c in taken or (c in names and c not in sub) or list(sub.values()).count(c) > 1:
            mp.dropped.append(dict(where, actual=a, canonical=c, why="template parameter: not injective / capture"))
            del sub[a]
    if sub:
        mp.tsubst.append((node, sub, {i: c for i, c in ids.items() if c in sub.values()}, where))


def _type_dicts(o, acc):
    if isinstance(o, dict):
        if "qualType" in o:
            acc.append(o)
        for v in o.values():
            if isinstance(v, (dict, list)):
                _type_dicts(v, acc)
    elif isinstance(o, list):
        for v in o:
            _type_dicts(v, acc)
    return acc


def apply_tparams(mp):
    for node, sub, ids, where in mp.tsubst:
        tds = _type_dicts(node, [])
        words = set()
        for td in tds:
            words |= set(re.findall(r"[A-Za-z_]\w*", td.get("qualType", "")))
        ok = {a: c for a, c in sub.items() if c not in words}
        for a, c in sub.items():
            if a not in ok:
                mp.dropped.append(dict(where, actual=a, canonical=c, why="template parameter: the canonical name occurs in a type of the template"))
        if not ok:
            continue
        rx = re.compile(r"(?<![\w])(%s)(?![\w])" % "|".join(map(re.escape, ok)))
        for td in tds:
            for key in ("qualType", "desugaredQualType"):
                if key in td and isinstance(td[key], str):
                    td[key] = rx.sub(lambda m: ok[m.group(1)], td[key])
        for i, c in ids.items():
            if c in ok.values():
                mp.rid[i] = c
        for a, c in sorted(ok.items()):
            mp.report.append(dict(where, kind="template parameter", canonical=c, actual=a))


def _scope_names(tr):
    """q -> names that a new member name of class q could collide with or be captured by: everything declared or mentioned inside
    the class (members, nested classes, bodies of its functions incl. parameters and locals), the members of its bases, everything
    inside the classes derived from it, and the static members / nested types / enumerators of the enclosing classes"""
    defs_by_q = {}
    for d in tr.defs + [tr.free]:
        defs_by_q.setdefault(d.q, []).append(d)
    simple_index = {}
    for q in defs_by_q:
        simple_index.setdefault(q.split("::")[-1], []).append(q)

    def base_qs(d):
        # a word of a base specifier names a class of that simple name only if C++ lookup from `d` can find it there: a top-level
        # class, a class nested in a scope that encloses `d`, or a nested class whose enclosing class is spelled in the same base
        # specifier (`publisher<T>::queue`).  (Matching by simple name alone made `limited_queue : queue<...>` a class derived from
        # `publisher::queue`, so renaming `publisher::queue::_mx` was refused as a capture of `queue::_mx` - benign/r2-e2.)
        out = []
        for b in d.bases:
            words = re.findall(r"[A-Za-z_]\w*", b)
            for w in words:
                for cq in simple_index.get(w, []):
                    par = cq.rsplit("::", 1)[0] if "::" in cq else ""
                    if par == "" or d.q == par or d.q.startswith(par + "::") or par.split("::")[-1] in words:
                        out.append(cq)
        return out

    cache = {}

    def inside(d):
        """all names declared / mentioned in the definition, nested definitions included"""
        if id(d) in cache:
            return cache[id(d)]
        s = set(d.member_names())
        for m in d.methods:
            s |= m.get("names_in_body", set()) | set(m.get("pnames", [])) | {l["name"] for l in m.get("locals", [])}
        cache[id(d)] = s
        for d2 in tr.defs:
            if d2.parent == d.q:
                s |= inside(d2)
        return s

    def f(q):
        taken = set()
        seen_b = set()
        for d in defs_by_q.get(q, []):
            if d.q == "":
                taken |= d.member_names()
                continue
            taken |= inside(d)
            todo = base_qs(d)
            while todo:
                bq = todo.pop()
                if bq in seen_b:
                    continue
                seen_b.add(bq)
                for bd in defs_by_q.get(bq, []):
                    taken |= bd.member_names()
                    todo += base_qs(bd)
            p = d.parent
            while p:
                for pd in defs_by_q.get(p, []):
                    taken |= {x["name"] for x in pd.svars + pd.nested + pd.enums} | {m["name"] for m in pd.methods if m["static"]}
                p = p.rsplit("::", 1)[0] if "::" in p else None
        # derived classes (transitively)
        changed = True
        derived = set()
        fam = {q}
        while changed:
            changed = False
            for d in tr.defs:
                if d.q not in fam and any(b in fam for b in base_qs(d)):
                    fam.add(d.q)
                    derived.add(d.q)
                    changed = True
        for dq in derived:
            for d in defs_by_q.get(dq, []):
                taken |= inside(d)
        return taken
    return f


# =========================================================================================== applying it to the AST
def apply_to_ast(objs, mp):
    """rewrite the name of every renamed declaration and of every reference to it (in place)"""
    tr = mp.tree
    apply_tparams(mp)
    if not mp.rid:
        return objs
    rid = mp.rid
    defs_by_q = {}
    for d in tr.defs:
        defs_by_q.setdefault(d.q, []).append(d)
    simple_index = {}
    for q in defs_by_q:
        simple_index.setdefault(q.split("::")[-1], []).append(q)
    new_names = {}
    for (q, a), c in mp.members.items():
        new_names.setdefault(a, set()).add(c)
    all_members = {}
    for d in tr.defs:
        for n in d.member_names():
            all_members.setdefault(n, set()).add(d.q)

    def lookup_chain(q, enclosing=True):
        """classes searched for an unqualified / this-> member name used inside class q: q, its bases, the enclosing classes"""
        out, todo, seen = [], [q], set()
        while todo:
            x = todo.pop(0)
            if x in seen or x not in defs_by_q:
                continue
            seen.add(x)
            out.append(x)
            for d in defs_by_q[x]:
                for b in d.bases:
                    for w in re.findall(r"[A-Za-z_]\w*", b):
                        todo += simple_index.get(w, [])
        p = q
        while "::" in p and enclosing:
            p = p.rsplit("::", 1)[0]
            if p in defs_by_q and p not in seen:
                out.append(p)
                seen.add(p)
        return out

    def dependent(name, q, base):
        """canonical name of a member name whose declaration clang could not resolve (dependent context)"""
        if name not in new_names:
            return None
        chain = []
        if base is not None:
            bt = qt(base) if isinstance(base, dict) else ""
            b2 = base
            while isinstance(b2, dict) and b2.get("kind") in ("ImplicitCastExpr", "ParenExpr") and b2.get("inner"):
                b2 = b2["inner"][0]
            for w in re.findall(r"[A-Za-z_]\w*", bt):
                for cq in simple_index.get(w, []):
                    chain += lookup_chain(cq, enclosing=False)
            if isinstance(b2, dict) and b2.get("kind") == "CXXThisExpr":
                chain += lookup_chain(q)
        else:
            chain = lookup_chain(q)
        for cq in chain:
            if name in {n for d in defs_by_q[cq] for n in d.member_names()}:
                return mp.members.get((cq, name))
        # declaring class unknown: rename only when every class that has a member of that name maps it to the same canonical name
        if len(new_names[name]) == 1 and all((cq, name) in mp.members for cq in all_members.get(name, ())):
            return next(iter(new_names[name]))
        return None

    def rec(o, q):
        if not isinstance(o, dict):
            return
        i = o.get("id")
        k = o.get("kind")
        if i in tr.def_of_node:
            q = tr.def_of_node[i].q
        elif k in FN_KINDS and o.get("previousDecl") in tr.method_by_id and i in tr.by_id:
            q = tr.by_id[i][0]
        if i in rid and "name" in o and k and k.endswith("Decl"):
            o["name"] = rid[i]
        rm = o.get("referencedMemberDecl")
        if rm in rid and "name" in o:
            o["name"] = rid[rm]
        for key in ("referencedDecl", "foundReferencedDecl", "anyInit"):
            r = o.get(key)
            if isinstance(r, dict) and r.get("id") in rid:
                r["name"] = rid[r["id"]]
        if k == "CXXDependentScopeMemberExpr":
            inner = o.get("inner", [])
            c = dependent(o.get("member", ""), q, inner[0] if inner else None)
            if c:
                o["member"] = c
        elif k == "UnresolvedMemberExpr":
            inner = o.get("inner", [])
            c = dependent(token_at(o), q, inner[0] if inner else None)
            if c:
                o["_vn_name"] = c
        elif k == "UnresolvedLookupExpr":
            ls = [l for l in o.get("lookups", []) if isinstance(l, dict) and l.get("id") in rid]
            if ls:
                o["name"] = rid[ls[0]["id"]]
                for l in ls:
                    l["name"] = rid[l["id"]]
        for c in o.get("inner", []):
            rec(c, q)

    for o in objs:
        rec(o, "")
    return objs


# =========================================================================================== entry points
LAST = {"summary": None}


def canonicalise(objs, log=None):
    """called by extract.regenerate / lockprog.build on the freshly dumped AST: guess, check, apply; remembers what was applied for the evidence"""
    baseline = load_baseline()
    if not baseline:
        LAST["summary"] = {"mapped": [], "dropped": [], "note": "no baseline (extract/names_baseline.json)"}
        return objs
    try:
        tr = scan(objs)
        mp = compute_mapping(tr, baseline)
    except Exception as e:      # nothing has been touched yet: no renaming, the tables carry the names of the source
        import traceback
        (log or _log)("names: description of this tree failed (%r) - no renaming applied\n%s" % (e, traceback.format_exc()[-1500:]))
        LAST["summary"] = {"mapped": [], "dropped": [], "note": "description failed: %r" % (e,)}
        return objs
    apply_to_ast(objs, mp)
    LAST["summary"] = mp.summary()
    LAST["mapping"] = mp
    for r in mp.report:
        line = "names: %s%s %s `%s` is `%s` in this tree" % (r["class"] or "(namespace)", "::" + r["fn"] if r.get("fn") else "", r["kind"], r["canonical"], r["actual"])
        (log or _log)(line)
    return objs


_logged = set()


def _log(line):
    if line in _logged:
        return
    _logged.add(line)
    try:
        from vlib import core
        core.log(line)
    except Exception:
        print(line, file=sys.stderr)


def last_summary():
    return LAST.get("summary") or {"mapped": [], "dropped": []}


def current_mapping(repo=None):
    """(Mapping, Tree) of the tree under $COCLS_REPO — for the harness header"""
    from . import astwalk
    repo = repo or os.environ.get("COCLS_REPO", "/repo")
    work = os.path.join(VERIF, "build", "extract_names_%d" % os.getpid())
    try:
        objs = astwalk.dump_ast(repo, work)
    finally:
        pass
    tr = scan(objs)
    mp = compute_mapping(tr, load_baseline())
    try:
        import shutil
        shutil.rmtree(work, ignore_errors=True)
    except Exception:
        pass
    return mp


def harness_header_text(mp, baseline=None):
    """`#define VN_<class>_<canonical> <actual>` for every non-public member (data member, member function, nested type, enumerator)
    of every class of the baseline; without a mapping the macro expands to the canonical name"""
    baseline = baseline if baseline is not None else load_baseline()
    inv = {}
    for (q, actual), canon in mp.members.items():
        inv[(mp.canon_q.get(q, q), canon)] = actual
    macros = {}
    byname = {}
    for b in baseline.values():
        byname.setdefault(b["name"], []).append(b)

    def hidden(q):
        """the class is (nested in) a non-public nested type: its public members are not interface either"""
        while "::" in q:
            p, s = q.rsplit("::", 1)
            if any(n["name"] == s and n["access"] != "public" for pc in byname.get(p, []) for n in pc["nested"]):
                return True
            q = p
        return False
    for key in sorted(baseline):
        b = baseline[key]
        q = b["name"]
        if not q:
            continue
        hid = hidden(q)
        for kind in ("fields", "static_vars", "methods", "nested", "enumerators"):
            for x in b[kind]:
                n = x["name"]
                if not n or (x["access"] == "public" and not hid) or not re.fullmatch(r"[A-Za-z_]\w*", n):
                    continue
                if kind == "methods" and x["kind"] in ("CXXConstructorDecl", "CXXDestructorDecl", "CXXConversionDecl"):
                    continue
                macro = "VN_%s_%s" % (ident(q), n)
                macros.setdefault(macro, set()).add(inv.get((q, n), n))
    lines = ["// GENERATED by extract/names.py on every harness build - do not edit.",
             "// VN_<class>_<canonical name> expands to the name that private / protected member has in the tree under test.",
             "#pragma once"]
    for macro in sorted(macros):
        v = sorted(macros[macro])
        if len(v) == 1:
            lines.append("#define %s %s" % (macro, v[0]))
        else:
            lines.append("// %s: ambiguous (%s) - not defined" % (macro, ", ".join(v)))
    return "\n".join(lines) + "\n"


def harness_header(build_dir, headers_hash=None, identity=False):
    """write cocls_names.h for the tree under $COCLS_REPO into <build_dir>/vn-<content hash>/ and return that directory.
    The macro table of a tree is cached by the hash of its headers (one clang run per tree, not per harness)."""
    cache_dir = os.path.join(build_dir, "names")
    os.makedirs(cache_dir, exist_ok=True)
    bl_hash = hashlib.sha256(open(BASELINE, "rb").read()).hexdigest()[:12] if os.path.exists(BASELINE) else "none"
    self_hash = hashlib.sha256(open(os.path.abspath(__file__), "rb").read()).hexdigest()[:12]
    text = None
    cache = os.path.join(cache_dir, "%s-%s-%s.h" % ((headers_hash or "x")[:16], bl_hash, self_hash)) if headers_hash else None
    if cache and os.path.exists(cache):
        text = open(cache).read()
    if identity:
        text = harness_header_text(Mapping())
        cache = None
    if text is None:
        mp = current_mapping()
        text = harness_header_text(mp)
        for r in mp.report:
            if not r.get("fn"):
                _log("names: %s %s `%s` is `%s` in this tree (harness macro VN_%s_%s)" % (r["class"], r["kind"], r["canonical"], r["actual"], ident(r["class"]), r["canonical"]))
        if cache:
            tmp = cache + ".tmp%d" % os.getpid()
            with open(tmp, "w") as f:
                f.write(text)
            os.replace(tmp, cache)
    d = os.path.join(build_dir, "vn-" + hashlib.sha256(text.encode()).hexdigest()[:16])
    os.makedirs(d, exist_ok=True)
    p = os.path.join(d, "cocls_names.h")
    if not os.path.exists(p) or open(p).read() != text:
        tmp = p + ".tmp%d" % os.getpid()
        with open(tmp, "w") as f:
            f.write(text)
        os.replace(tmp, p)
    return d


def machinery_classes():
    """the classes the machinery names: string literals of Props/C03*.lean, Props/C20.lean, extract.py tables, lockprog.py, checks/c03.py,
    checks/c20.py that are qualified names of classes of the baseline (for the report; the baseline itself covers EVERY class)"""
    baseline = load_baseline()
    qs = {b["name"] for b in baseline.values() if b["name"]}
    found = set()
    files = [os.path.join(VERIF, "lean", "CoclsModel", "Props", f) for f in ("C03.lean", "C03b.lean", "C20.lean")]
    files += [os.path.join(VERIF, "extract", f) for f in ("extract.py", "lockprog.py", "astwalk.py")]
    files += [os.path.join(VERIF, "checks", f) for f in ("c03.py", "c20.py")]
    for fn in files:
        try:
            src = open(fn).read()
        except OSError:
            continue
        for s in re.findall(r'"([^"\n]*)"', src):
            if s in qs:
                found.add(s)
    return sorted(found)


def main(argv):
    from . import astwalk
    if "--write-baseline" in argv:
        if os.environ.get("COCLS_REPO"):
            print("refusing to write the baseline with COCLS_REPO set: the baseline describes the validated tree (/repo)", file=sys.stderr)
            return 2
        objs = astwalk.dump_ast("/repo", os.path.join(VERIF, "build", "extract_names"))
        tr = scan(objs)
        classes = describe(tr)
        import subprocess
        head = subprocess.run(["git", "-C", "/repo", "rev-parse", "HEAD"], stdout=subprocess.PIPE, text=True).stdout.strip()
        tmp = BASELINE + ".tmp%d" % os.getpid()
        with open(tmp, "w") as f:
            json.dump({"repo_head": head, "classes": classes}, f, indent=0, sort_keys=True)
            f.write("\n")
        os.replace(tmp, BASELINE)
        print("wrote %s: %d class definitions, %d member functions" % (BASELINE, len(classes), sum(len(c["methods"]) for c in classes.values())))
        return 0
    if "--header" in argv:
        sys.stdout.write(harness_header_text(current_mapping()))
        return 0
    if "--classes" in argv:
        print("\n".join(machinery_classes()))
        return 0
    mp = current_mapping()
    print(json.dumps(mp.summary(), indent=1))
    return 0


if __name__ == "__main__":
    sys.exit(main(sys.argv[1:]))
