"""Walk clang's JSON AST of the cocls headers and collect facts (atomic sites, lock regions, guarded-field
accesses, allocation sites, plain accesses to designated shared fields)."""
import json
import os
import re
import subprocess

ATOMIC_METHODS = {"load": "load", "store": "store", "exchange": "xchg", "compare_exchange_weak": "cas",
                  "compare_exchange_strong": "cas", "wait": "wait", "notify_all": "notify", "notify_one": "notify",
                  "fetch_add": "rmw", "fetch_sub": "rmw", "fetch_or": "rmw", "fetch_and": "rmw"}
ORDERS = {"memory_order_relaxed": "relaxed", "memory_order_consume": "consume", "memory_order_acquire": "acquire",
          "memory_order_release": "release", "memory_order_acq_rel": "acq_rel", "memory_order_seq_cst": "seq_cst",
          "relaxed": "relaxed", "consume": "consume", "acquire": "acquire", "release": "release",
          "acq_rel": "acq_rel", "seq_cst": "seq_cst"}
# names of atomic objects in cocls (used only where the type is dependent and clang cannot tell)
KNOWN_ATOMIC_NAMES = {"_owner", "_awaiter", "_requests", "chain", "flag", "_busy", "_block", "_chain"}

TU = """#include <atomic>
#include <cstdint>
#include <cocls/future.h>
#include <cocls/async.h>
#include <cocls/mutex.h>
#include <cocls/queue.h>
#include <cocls/thread_pool.h>
#include <cocls/scheduler.h>
#include <cocls/publisher.h>
#include <cocls/coro_storage.h>
#include <cocls/generator.h>
#include <cocls/generator_aggregator.h>
#include <cocls/signal.h>
#include <cocls/shared_future.h>
#include <cocls/callback_awaiter.h>
#include <cocls/future_conv.h>
#include <cocls/alloca_storage.h>
#include <cocls/suspend_point.h>
#include <cocls/function.h>
#include <cocls/resume.h>
"""


def dump_ast(repo, workdir):
    os.makedirs(workdir, exist_ok=True)
    tu = os.path.join(workdir, "tu.cpp")
    with open(tu, "w") as f:
        f.write(TU)
    cmd = ["clang++-14", "-std=c++20", "-fsyntax-only", "-I" + os.path.join(repo, "src"),
           "-Xclang", "-ast-dump=json", "-Xclang", "-ast-dump-filter=cocls::", tu]
    p = subprocess.run(cmd, stdout=subprocess.PIPE, stderr=subprocess.PIPE, text=True, errors="replace")
    if p.returncode != 0 and not p.stdout:
        raise RuntimeError("clang failed: " + p.stderr[-2000:])
    s = p.stdout
    dec = json.JSONDecoder()
    i, n, objs = 0, len(s), []
    while i < n:
        while i < n and s[i] in " \n\r\t":
            i += 1
        if i >= n:
            break
        if s[i] != "{":
            j = s.find("\n", i)
            i = n if j < 0 else j + 1
            continue
        o, j = dec.raw_decode(s, i)
        objs.append(o)
        i = j
    annotate_files(objs)
    return objs


def annotate_files(objs):
    """clang omits `file` when it equals the previous printed location: resolve it for every node (dump order)"""
    cur = [""]

    def upd(loc):
        if not isinstance(loc, dict):
            return
        for k in ("spellingLoc", "expansionLoc"):
            if k in loc:
                upd(loc[k])
        if "file" in loc:
            cur[0] = loc["file"]

    def rec(o):
        if not isinstance(o, dict):
            return
        upd(o.get("loc"))
        r = o.get("range") or {}
        upd(r.get("begin"))
        o["_file_begin"] = cur[0]
        upd(r.get("end"))
        o["_file"] = cur[0]
        for c in o.get("inner", []):
            rec(c)

    for o in objs:
        rec(o)


_SRC = {}


def token_at(file, loc):
    """source text of the token at a location dict (uses expansionLoc/spellingLoc when present)"""
    if "offset" not in loc:
        loc = loc.get("expansionLoc") or loc.get("spellingLoc") or {}
    if "offset" not in loc or not file:
        return ""
    if file not in _SRC:
        try:
            _SRC[file] = open(file, "rb").read()
        except OSError:
            _SRC[file] = b""
    off, n = loc["offset"], loc.get("tokLen", 0)
    return _SRC[file][off:off + n].decode(errors="replace")


def qt(o):
    t = o.get("type")
    return t.get("qualType", "") if isinstance(t, dict) else ""


def strip(o):
    while isinstance(o, dict) and o.get("kind") in ("ImplicitCastExpr", "ParenExpr", "ExprWithCleanups",
                                                      "MaterializeTemporaryExpr", "CXXBindTemporaryExpr",
                                                      "CXXFunctionalCastExpr", "CXXStaticCastExpr") and o.get("inner"):
        o = o["inner"][0]
    return o


def expr_name(o):
    """short textual name of an lvalue expression: member / variable name (last component)"""
    o = strip(o)
    if not isinstance(o, dict):
        return ""
    k = o.get("kind")
    if k == "MemberExpr":
        return o.get("name", "")
    if k == "CXXDependentScopeMemberExpr":
        return o.get("member", "")
    if k == "DeclRefExpr":
        return (o.get("referencedDecl") or {}).get("name", "")
    if k in ("UnaryOperator", "ArraySubscriptExpr") and o.get("inner"):
        return expr_name(o["inner"][0])
    if k == "CXXThisExpr":
        return "this"
    if k in ("CXXMemberCallExpr", "CallExpr", "CXXOperatorCallExpr") and o.get("inner"):
        return expr_name(o["inner"][0])
    return ""


def base_of(o):
    """object expression of a member access"""
    o = strip(o)
    if o.get("kind") in ("MemberExpr", "CXXDependentScopeMemberExpr", "UnresolvedMemberExpr") and o.get("inner"):
        return o["inner"][0]
    return None


def terminates(o):
    """the statement never falls through (ends in return / break / continue / throw)"""
    if not isinstance(o, dict):
        return False
    k = o.get("kind")
    if k in ("ReturnStmt", "BreakStmt", "ContinueStmt", "CXXThrowExpr", "CoreturnStmt"):
        return True
    if k in ("ExprWithCleanups",) and o.get("inner"):
        return terminates(o["inner"][0])
    if k == "CompoundStmt" and o.get("inner"):
        return terminates(o["inner"][-1])
    if k == "IfStmt" and o.get("hasElse"):
        inner = o.get("inner", [])
        return terminates(inner[-1]) and terminates(inner[-2])
    return False


def negated_cas(cond):
    """cond is `!<call to compare_exchange_*>`"""
    c = strip(cond)
    if isinstance(c, dict) and c.get("kind") == "UnaryOperator" and c.get("opcode") == "!":
        def has_cas(o):
            if isinstance(o, dict):
                if o.get("kind") in ("MemberExpr", "CXXDependentScopeMemberExpr") and (o.get("name") or o.get("member") or "").startswith("compare_exchange"):
                    return True
                return any(has_cas(x) for x in o.get("inner", []))
            return False
        return has_cas(c)
    return False


def contains_assert_fail(o):
    if isinstance(o, dict):
        if o.get("kind") == "DeclRefExpr" and (o.get("referencedDecl") or {}).get("name") == "__assert_fail":
            return True
        if o.get("kind") == "UnresolvedLookupExpr" and o.get("name") == "__assert_fail":
            return True
        return any(contains_assert_fail(c) for c in o.get("inner", []))
    return False


def order_of(arg):
    a = strip(arg)
    if not isinstance(a, dict):
        return None
    if a.get("kind") == "DeclRefExpr":
        return ORDERS.get((a.get("referencedDecl") or {}).get("name", ""))
    if a.get("kind") == "DependentScopeDeclRefExpr":
        return None
    for c in a.get("inner", []):
        r = order_of(c)
        if r:
            return r
    return None


def order_arg(arg, order_params=(), std_default=False):
    """the memory order an argument denotes, STRICTLY: a literal enumerator -> its name; a parameter of the enclosing function whose
    type is std::memory_order -> "?<param>" (resolved over all call sites afterwards, see Walker.resolve_orders); anything else (a
    variable, a conditional expression, a call) -> "?" = not known statically, treated as the weakest order"""
    a = strip(arg)
    if isinstance(a, dict) and a.get("kind") == "CXXDefaultArgExpr" and std_default:
        return "seq_cst"       # the defaulted order of a std::atomic member function
    if isinstance(a, dict) and a.get("kind") == "DeclRefExpr":
        name = (a.get("referencedDecl") or {}).get("name", "")
        if name in ORDERS:
            return ORDERS[name]
        if name in order_params:
            return "?" + name
    return "?"


# member functions of future_common that load the slot RELAXED: their answer must never gate an access to the result
HINT_LOADS = ("pending", "initialized")

# position of the (first) memory-order argument of the atomic member functions
ORDER_POS = {"load": 0, "store": 1, "xchg": 1, "rmw": 1, "wait": 1, "cas": 2}


def order_meet(orders):
    """weakest order implied by a set of possible orders (greatest lower bound in relaxed < acquire,release < acq_rel < seq_cst)"""
    orders = list(orders)
    if not orders or any(o.startswith("?") or o == "consume" for o in orders):
        return "relaxed"
    if all(o == orders[0] for o in orders):
        return orders[0]
    acq = all(o in ("acquire", "acq_rel", "seq_cst") for o in orders)
    rel = all(o in ("release", "acq_rel", "seq_cst") for o in orders)
    return "acq_rel" if acq and rel else "acquire" if acq else "release" if rel else "relaxed"


def cas_failure(order):
    return {"acq_rel": "acquire", "release": "relaxed"}.get(order, order)


class FnFacts:
    def __init__(self, cls, fn, file, is_ctor_dtor):
        self.cls, self.fn, self.file, self.ctor_dtor = cls, fn, file, is_ctor_dtor
        self.sites = []        # dicts
        self.plain = []        # plain member accesses: dict(field, write, afterOp, inAssert, base)
        self.locks = []        # lock VarDecls (name, mutex expr name)
        self.guarded = []      # (field, locked)
        self.allocs = []       # what
        self.calls = []        # (callee name, locked, seq)
        self.seq = 0
        self.order_params = []     # names of the parameters of type std::memory_order, with their position: (index, name)
        self.call_orders = []      # (callee name, [order_arg of every argument]) for every call made by this function
        self.addr_of = []          # (member name, type of its object expression, in assert) for every member mentioned under a unary `&`
        self.ret_type = ""         # declared return type
        self.hint_calls = []       # calls (outside assertions) of the relaxed "hint" loads of a future: pending() / initialized()


class Walker:
    def __init__(self, objs):
        self.objs = objs
        self.fns = []
        self.members = {}      # cls -> list of (name, type)
        self.fn_aliases = set()   # alias names whose underlying type is a type-erased callable
        self.cur_file = ""

    def run(self):
        self.record_names = {}

        def rec(o):
            if isinstance(o, dict):
                if o.get("kind") in ("TypeAliasDecl", "TypedefDecl") and "function<" in qt(o) and "std::" not in o.get("name", ""):
                    self.fn_aliases.add(o.get("name", ""))
                if o.get("kind") in ("CXXRecordDecl", "ClassTemplateSpecializationDecl") and o.get("id") and o.get("name"):
                    self.record_names.setdefault(o["id"], o["name"])
                for c in o.get("inner", []):
                    rec(c)
        for o in self.objs:
            rec(o)
        for o in self.objs:
            self.top(o, [])
        self.resolve_orders()
        return self

    def resolve_orders(self):
        """an order that travels through a std::memory_order parameter is the weakest of what the call sites of that function (matched
        by name, over all walked functions) pass for it; no call site, or a call site that does not pass a literal -> relaxed"""
        def resolve(fn_name, pname, params, depth=0):
            idx = next((i for i, n in params if n == pname), None)
            got = []
            for g in self.fns:
                for callee, aorders in g.call_orders:
                    if callee != fn_name:
                        continue
                    if idx is None or idx >= len(aorders):
                        got.append("?")          # defaulted or not passed positionally: unknown
                        continue
                    o = aorders[idx]
                    if o.startswith("?") and len(o) > 1 and depth < 4:
                        o = resolve(g.fn, o[1:], g.order_params, depth + 1)
                    got.append(o)
            return order_meet(got)

        for f in self.fns:
            for s in f.sites:
                for key in ("succ", "fail"):
                    o = s.get(key)
                    if isinstance(o, str) and o.startswith("?"):
                        s[key] = resolve(f.fn, o[1:], f.order_params) if len(o) > 1 else "relaxed"
                        s["orderResolved"] = True
                if s.get("failDerived"):
                    s["fail"] = cas_failure(s["succ"])

    def loc_file(self, o):
        self.cur_file = o.get("_file_begin") or o.get("_file") or self.cur_file
        return self.cur_file

    def top(self, o, scope):
        k = o.get("kind")
        self.loc_file(o)
        if k == "NamespaceDecl":
            for c in o.get("inner", []):
                self.top(c, scope)
        elif k in ("CXXRecordDecl", "ClassTemplateSpecializationDecl", "ClassTemplatePartialSpecializationDecl"):
            if not o.get("inner") or not o.get("completeDefinition", True):
                return
            name = o.get("name", "?")
            for c in o.get("inner", []):
                self.member(c, scope + [name])
        elif k == "ClassTemplateDecl":
            for c in o.get("inner", []):
                if c.get("kind") == "CXXRecordDecl":
                    self.top(c, scope)
        elif k in ("FunctionDecl", "CXXMethodDecl", "CXXConstructorDecl", "CXXDestructorDecl"):
            self.function(o, scope)
        elif k == "FunctionTemplateDecl":
            for c in o.get("inner", []):
                if c.get("kind") in ("FunctionDecl", "CXXMethodDecl", "CXXConstructorDecl"):
                    self.function(c, scope)
                    break

    def member(self, c, scope):
        k = c.get("kind")
        self.loc_file(c)
        if k in ("CXXMethodDecl", "CXXConstructorDecl", "CXXDestructorDecl", "FunctionDecl"):
            self.function(c, scope)
        elif k == "FunctionTemplateDecl":
            for d in c.get("inner", []):
                if d.get("kind") in ("CXXMethodDecl", "CXXConstructorDecl", "FunctionDecl"):
                    self.function(d, scope)
                    break
        elif k in ("CXXRecordDecl", "ClassTemplateDecl", "ClassTemplateSpecializationDecl"):
            if c.get("isImplicit"):
                return
            self.top(c, scope)
        elif k == "FieldDecl":
            self.members.setdefault("::".join(scope), []).append((c.get("name", ""), qt(c), os.path.basename(self.cur_file)))
        elif k == "FriendDecl":
            for d in c.get("inner", []):
                if d.get("kind") == "FunctionDecl":
                    self.function(d, scope)

    def function(self, f, scope):
        body = None
        for c in f.get("inner", []):
            if c.get("kind") in ("CompoundStmt", "CoroutineBodyStmt", "CXXTryStmt"):
                body = c
        # out-of-line definitions (parentDeclContextId set) carry the class in the qualified name only via previousDecl;
        # use the scope we are in, or the "cocls::X::f" filter header is not available -> fall back to name
        cls = "::".join(scope)
        if not scope and f.get("kind") == "CXXMethodDecl":
            cls = self.record_names.get(f.get("parentDeclContextId", ""), "")
        name = f.get("name", "?")
        file = os.path.basename(self.loc_file(f))
        ff = FnFacts(cls, name, file, f.get("kind") in ("CXXConstructorDecl", "CXXDestructorDecl"))
        # a function that hands out a type-erased callable (std::function / cocls::function) may allocate for large closures
        fty = qt(f)
        ret = fty.split("(")[0]
        ff.ret_type = ret.strip()
        if "function<" in ret or any(a and re.search(r"\b" + re.escape(a) + r"\b", ret) for a in self.fn_aliases):
            ff.allocs.append("returns:" + ("std::function" if "std::function" in ret else "cocls::function"))
        # constructor member initialisers count as ctor accesses; skip
        if body is None:
            return
        self.fns.append(ff)
        locks = {}
        for c in f.get("inner", []):
            if c.get("kind") == "ParmVarDecl" and ("unique_lock" in qt(c) or "lock_guard" in qt(c)):
                locks[c.get("name", "")] = {"held": True, "mutex": "param"}
        pidx = 0
        for c in f.get("inner", []):
            if c.get("kind") == "ParmVarDecl":
                if "memory_order" in qt(c):
                    ff.order_params.append((pidx, c.get("name", "")))
                pidx += 1
        ff.lk_helper = name.endswith("_lk")
        ff.has_lock_param = bool(locks)
        self.stmt(body, ff, dict(in_assert=False, locks=locks, lambda_depth=0))


    # ------------------------------------------------------------------ statement / expression walk
    def stmt(self, o, ff, ctx):
        if not isinstance(o, dict):
            return
        k = o.get("kind")
        if k == "ConditionalOperator" and contains_assert_fail(o):
            ctx2 = dict(ctx, in_assert=True)
            for c in o.get("inner", []):
                self.stmt(c, ff, ctx2)
            return
        if k == "CompoundStmt":
            # lock regions are tracked sequentially inside one compound statement (shared with the enclosing one)
            for c in o.get("inner", []):
                self.stmt(c, ff, ctx)
            return
        if k == "WhileStmt":
            inner = o.get("inner", [])
            if len(inner) >= 2:
                n_before = len([x for x in ff.sites if not x["inAssert"]])
                cond, body = inner[-2], inner[-1]
                for c in inner[:-2]:
                    self.stmt(c, ff, ctx)
                self.stmt(cond, ff, ctx)
                new_sites = ff.sites[len(ff.sites) - (len([x for x in ff.sites if not x["inAssert"]]) - n_before):] if True else []
                cas_in_cond = any(x["kind"] == "cas" for x in ff.sites[-max(1, len(new_sites)):]) and len([x for x in ff.sites if not x["inAssert"]]) > n_before
                # `while (!x.compare_exchange(...)) body`: the body runs only after a FAILED exchange, i.e. before publication
                self.stmt(body, ff, dict(ctx, nops_override=n_before) if cas_in_cond and negated_cas(cond) else ctx)
                return
        if k == "IfStmt":
            inner = o.get("inner", [])
            has_else = o.get("hasElse", False)
            # children: [init?] [condvar?] cond then [else]
            branches = inner[-2:] if has_else else inner[-1:]
            for c in inner[:len(inner) - len(branches)]:
                self.stmt(c, ff, ctx)
            entry = {n: dict(v) for n, v in ctx["locks"].items()}
            outs = []
            for b in branches:
                st = {n: dict(v) for n, v in entry.items()}
                self.stmt(b, ff, dict(ctx, locks=st))
                if not terminates(b):
                    outs.append(st)
            if not has_else:
                outs.append(entry)
            for n in list(ctx["locks"].keys()):
                if outs:
                    ctx["locks"][n]["held"] = all(st.get(n, {"held": False})["held"] for st in outs)
            return
        if k == "DeclStmt":
            for d in o.get("inner", []):
                if d.get("kind") == "VarDecl":
                    t = qt(d)
                    if "lock_guard" in t or "unique_lock" in t or "scoped_lock" in t:
                        mx = ""
                        for c in d.get("inner", []):
                            mx = mx or self.find_name(c, ("_mx", "mx"))
                        ctx["locks"][d.get("name", "")] = {"held": True, "mutex": mx or "?"}
                        ff.locks.append((d.get("name", ""), mx))
                    self.note_alloc_type(t, "local", ff)
                    for c in d.get("inner", []):
                        self.stmt(c, ff, ctx)
            return
        if k == "LambdaExpr":
            # the body runs later / elsewhere, but lexically nested code still counts for site extraction;
            # lock state is inherited when the lambda is invoked synchronously (future construction callbacks are)
            for c in o.get("inner", []):
                if c.get("kind") == "CompoundStmt":
                    self.stmt(c, ff, dict(ctx, lambda_depth=ctx["lambda_depth"] + 1))
                elif c.get("kind") == "CXXRecordDecl":
                    continue
            return
        if k in ("CXXMemberCallExpr", "CallExpr"):
            self.call(o, ff, ctx)
            return
        if k in ("CXXNewExpr",):
            ff.allocs.append("new[]" if o.get("isArray") else ("placement-new" if o.get("isPlacement") else "new"))
        if k in ("MemberExpr", "CXXDependentScopeMemberExpr"):
            self.access(o, ff, ctx, write=False)
        if k == "BinaryOperator" and o.get("opcode") in ("=", "+=", "-=", "|=", "&=") or k == "CompoundAssignOperator":
            inner = o.get("inner", [])
            if inner:
                lhs = strip(inner[0])
                if lhs.get("kind") in ("MemberExpr", "CXXDependentScopeMemberExpr"):
                    self.access(lhs, ff, ctx, write=True)
                    b = base_of(lhs)
                    if b:
                        self.stmt(b, ff, ctx)
                elif (lhs.get("kind") == "UnaryOperator" and lhs.get("opcode") == "*") or lhs.get("kind") == "ArraySubscriptExpr":
                    # a plain store through a pointer (`*s = x`, `p[i] = x`): recorded as a write to the pseudo field "*<pointer name>"
                    # (seen with the seeded change r5-c19-dealloc-clears-trailer-after-release: a store into the released block)
                    ff.seq += 1
                    ff.plain.append({"field": "*" + (expr_name(lhs) or "?"), "write": True,
                                     "afterOp": ctx.get("nops_override", len([x for x in ff.sites if not x["inAssert"]])),
                                     "inAssert": ctx["in_assert"], "base": "", "locked": self.any_lock_held(ctx),
                                     "btype": "", "seq": ff.seq, "lambda": ctx["lambda_depth"]})
                    self.stmt(inner[0], ff, ctx)
                else:
                    self.stmt(inner[0], ff, ctx)
                for c in inner[1:]:
                    self.stmt(c, ff, ctx)
            return
        if k == "UnaryOperator" and o.get("opcode") == "&":
            # address-of: remember which members the operand mentions (`&_q[relpos]`, `&_regs[h]._pos`): a pointer into lock-guarded
            # data can leave the lock region (seeded change r5-c16-copy-value-outside-lock)
            def members(x, acc):
                if isinstance(x, dict):
                    if x.get("kind") in ("MemberExpr", "CXXDependentScopeMemberExpr"):
                        acc.append((x.get("name") or x.get("member") or "", qt(strip(base_of(x))) if base_of(x) else ""))
                    for c in x.get("inner", []):
                        members(c, acc)
                return acc
            for name, bt in members(o, []):
                ff.addr_of.append((name, bt, ctx["in_assert"]))
        if k == "UnaryOperator" and o.get("opcode") in ("++", "--"):
            inner = o.get("inner", [])
            if inner and strip(inner[0]).get("kind") in ("MemberExpr", "CXXDependentScopeMemberExpr"):
                self.access(strip(inner[0]), ff, ctx, write=True)
                return
        for c in o.get("inner", []):
            self.stmt(c, ff, ctx)

    def find_name(self, o, names):
        if isinstance(o, dict):
            n = expr_name(o) if o.get("kind") in ("MemberExpr", "DeclRefExpr", "CXXDependentScopeMemberExpr") else ""
            if n in names:
                return n
            for c in o.get("inner", []):
                r = self.find_name(c, names)
                if r:
                    return r
        return ""

    def any_lock_held(self, ctx):
        return any(v["held"] for v in ctx["locks"].values())

    def access(self, o, ff, ctx, write):
        name = o.get("name") or o.get("member") or ""
        b = base_of(o)
        bname = expr_name(b) if b else ""
        ff.seq += 1
        ff.plain.append({"field": name, "write": write,
                         "afterOp": ctx.get("nops_override", len([s for s in ff.sites if not s["inAssert"]])),
                         "inAssert": ctx["in_assert"], "base": bname, "locked": self.any_lock_held(ctx),
                         "btype": qt(strip(b)) if b else "", "seq": ff.seq, "lambda": ctx["lambda_depth"]})

    def note_alloc_type(self, t, where, ff):
        for key, lab in (("std::vector", "std::vector"), ("std::deque", "std::deque"), ("std::function", "std::function"),
                         ("std::string", "std::string"), ("shared_ptr", "std::shared_ptr"), ("std::map", "std::map"),
                         ("std::set", "std::set"), ("std::queue", "std::queue"), ("std::list", "std::list"),
                         ("basic_string", "std::string"), ("cocls::function<", "cocls::function"),
                         ("unique_ptr", None)):
            if key in t and lab:
                ff.allocs.append("%s:%s" % (where, lab))
                break

    def call(self, o, ff, ctx):
        inner = o.get("inner", [])
        if not inner:
            return
        callee = strip(inner[0])
        args = inner[1:]
        ck = callee.get("kind")
        mname = callee.get("name") if ck == "MemberExpr" else (callee.get("member") if ck == "CXXDependentScopeMemberExpr" else None)
        if ck == "UnresolvedMemberExpr":
            mname = token_at(callee.get("_file", ""), (callee.get("range") or {}).get("end") or {})
        if ck == "DeclRefExpr":
            fname = (callee.get("referencedDecl") or {}).get("name", "")
            if fname == "atomic_thread_fence":
                ordr = order_arg(args[0], [n for _, n in ff.order_params], std_default=True) if args else None
                ff.sites.append({"kind": "fence", "obj": "", "succ": ordr or "seq_cst", "fail": ordr or "seq_cst",
                                 "inAssert": ctx["in_assert"]})
                return
            if fname in ("make_shared", "make_unique", "allocate_shared"):
                ff.allocs.append(fname)
            ff.seq += 1
            ff.calls.append((fname, self.any_lock_held(ctx), ff.seq))
            ff.call_orders.append((fname, [order_arg(a, [n for _, n in ff.order_params]) for a in args]))
        if ck == "UnresolvedLookupExpr":
            fname = callee.get("name", "")
            if fname in ("make_shared", "make_unique"):
                ff.allocs.append(fname)
            ff.seq += 1
            ff.calls.append((fname, self.any_lock_held(ctx), ff.seq))
        if mname is not None:
            base = base_of(callee)
            bname = expr_name(base) if base else ""
            btype = qt(strip(base)) if base else ""
            # lock object operations
            if bname in ctx["locks"] and mname in ("unlock", "lock"):
                ctx["locks"][bname]["held"] = (mname == "lock")
                return
            is_atomic = ("atomic" in btype) or ("awaiter_collector" in btype) or (
                ("dependent" in btype or btype == "") and bname in KNOWN_ATOMIC_NAMES)
            if mname in ATOMIC_METHODS and is_atomic:
                kind = ATOMIC_METHODS[mname]
                # the order arguments by POSITION; an argument that is not a literal enumerator is never silently dropped
                # (seen with the seeded change r5-c08-unlock-relaxed-build-queue: the order travelled through a parameter)
                pos = ORDER_POS.get(kind)
                orders = [order_arg(a, [n for _, n in ff.order_params], std_default=True) for a in args[pos:pos + 2]] if pos is not None else []
                if kind == "cas":
                    if len(orders) >= 2:
                        succ, fail = orders[0], orders[1]
                    elif len(orders) == 1:
                        succ, fail = orders[0], cas_failure(orders[0])
                    else:
                        succ = fail = "seq_cst"
                else:
                    succ = fail = orders[0] if orders else "seq_cst"
                ff.sites.append({"kind": kind, "obj": bname, "succ": succ, "fail": fail, "inAssert": ctx["in_assert"]})
                if kind == "cas" and len(orders) == 1 and succ.startswith("?"):
                    ff.sites[-1]["failDerived"] = True     # single-order CAS: the failure order is derived once the order is known
                # arguments may contain plain accesses (e.g. `_next` passed by reference as `expected`)
                for a in args:
                    a2 = strip(a)
                    if kind == "cas" and a is args[0] and a2.get("kind") in ("MemberExpr", "CXXDependentScopeMemberExpr"):
                        # the expected-reference is read before and written (on failure) by the operation itself
                        self.access(a2, ff, dict(ctx), write=True)
                        ff.plain[-1]["afterOp"] -= 1 if not ctx["in_assert"] else 0
                        ff.plain[-1]["byCas"] = True
                    else:
                        self.stmt(a, ff, ctx)
                return
            if base is not None:
                self.stmt(base, ff, ctx)
            for a in args:
                self.stmt(a, ff, ctx)
            ff.seq += 1
            ff.calls.append((mname, self.any_lock_held(ctx), ff.seq))
            ff.call_orders.append((mname, [order_arg(a, [n for _, n in ff.order_params]) for a in args]))
            if mname in HINT_LOADS and not ctx["in_assert"]:
                ff.hint_calls.append(mname)
            return
        for c in inner:
            self.stmt(c, ff, ctx)
