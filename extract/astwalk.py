"""Walk clang's JSON AST of the cocls headers and collect facts (atomic sites, lock regions, guarded-field
accesses, allocation sites, plain accesses to designated shared fields)."""
import json
import os
import re
import subprocess

ATOMIC_METHODS = {"load": "load", "store": "store", "exchange": "xchg", "compare_exchange_weak": "cas",
                  "compare_exchange_strong": "cas", "wait": "wait", "notify_all": "notify", "notify_one": "notify",
                  "fetch_add": "rmw", "fetch_sub": "rmw", "fetch_or": "rmw", "fetch_and": "rmw", "fetch_xor": "rmw"}
# the free-function spellings of <atomic>: name -> (kind, name of the equivalent member function, index of the first memory-order
# argument or None when the function takes none = seq_cst).  `std::atomic_xxx(&a, args...)` is DEFINED as `a.xxx(args...)`
# ([atomics.nonmembers]), so it produces the same site row as the member spelling.
FREE_ATOMIC = {}
for _n, _k in (("load", "load"), ("store", "store"), ("exchange", "xchg"), ("compare_exchange_weak", "cas"), ("compare_exchange_strong", "cas"),
               ("fetch_add", "rmw"), ("fetch_sub", "rmw"), ("fetch_and", "rmw"), ("fetch_or", "rmw"), ("fetch_xor", "rmw"), ("wait", "wait")):
    _nargs = {"load": 1, "cas": 3}.get(_k, 2)          # arguments in front of the order(s), the object pointer included
    FREE_ATOMIC["atomic_" + _n] = (_k, _n, None)
    FREE_ATOMIC["atomic_" + _n + "_explicit"] = (_k, _n, _nargs)
FREE_ATOMIC["atomic_notify_one"] = ("notify", "notify_one", None)
FREE_ATOMIC["atomic_notify_all"] = ("notify", "notify_all", None)
# operators of std::atomic<T>: all of them are seq_cst operations ([atomics.types.operations]): `a = v` is a.store(v), `a++`/`++a`/`a += n`
# ... are a.fetch_xxx(n), the conversion `T(a)` is a.load()
ATOMIC_OPERATORS = {"operator=": ("store", "store"), "operator++": ("rmw", "fetch_add"), "operator--": ("rmw", "fetch_sub"),
                    "operator+=": ("rmw", "fetch_add"), "operator-=": ("rmw", "fetch_sub"), "operator&=": ("rmw", "fetch_and"),
                    "operator|=": ("rmw", "fetch_or"), "operator^=": ("rmw", "fetch_xor")}
# implicit conversions of atomics inside templates (see Walker.mark_implicit_loads)
IMPLICIT_DEPENDENT_LOADS = True
ATOMIC_ASSIGN_OPCODES = {"=": "operator=", "+=": "operator+=", "-=": "operator-=", "&=": "operator&=", "|=": "operator|=", "^=": "operator^=",
                         "++": "operator++", "--": "operator--"}
ORDERS = {"memory_order_relaxed": "relaxed", "memory_order_consume": "consume", "memory_order_acquire": "acquire",
          "memory_order_release": "release", "memory_order_acq_rel": "acq_rel", "memory_order_seq_cst": "seq_cst",
          "relaxed": "relaxed", "consume": "consume", "acquire": "acquire", "release": "release",
          "acq_rel": "acq_rel", "seq_cst": "seq_cst"}
# names of atomic objects in cocls (used only where the type is dependent and clang cannot tell)
KNOWN_ATOMIC_NAMES = {"_owner", "_awaiter", "_requests", "chain", "flag", "_busy", "_block", "_chain"}

TU = """#include <atomic>
#include <cstdint>
#include <cocls/future.h>
#include <cocls/async.h>
#include <cocls/mutex.h>
#include <cocls/queue.h>
#include <cocls/thread_pool.h>
#include <cocls/scheduler.h>
#include <cocls/publisher.h>
#include <cocls/coro_storage.h>
#include <cocls/generator.h>
#include <cocls/generator_aggregator.h>
#include <cocls/signal.h>
#include <cocls/shared_future.h>
#include <cocls/callback_awaiter.h>
#include <cocls/future_conv.h>
#include <cocls/alloca_storage.h>
#include <cocls/suspend_point.h>
#include <cocls/function.h>
#include <cocls/resume.h>
"""


def dump_ast(repo, workdir):
    os.makedirs(workdir, exist_ok=True)
    tu = os.path.join(workdir, "tu.cpp")
    with open(tu, "w") as f:
        f.write(TU)
    cmd = ["clang++-14", "-std=c++20", "-fsyntax-only", "-I" + os.path.join(repo, "src"),
           "-Xclang", "-ast-dump=json", "-Xclang", "-ast-dump-filter=cocls::", tu]
    p = subprocess.run(cmd, stdout=subprocess.PIPE, stderr=subprocess.PIPE, text=True, errors="replace")
    if p.returncode != 0 and not p.stdout:
        raise RuntimeError("clang failed: " + p.stderr[-2000:])
    s = p.stdout
    dec = json.JSONDecoder()
    i, n, objs = 0, len(s), []
    while i < n:
        while i < n and s[i] in " \n\r\t":
            i += 1
        if i >= n:
            break
        if s[i] != "{":
            j = s.find("\n", i)
            i = n if j < 0 else j + 1
            continue
        o, j = dec.raw_decode(s, i)
        objs.append(o)
        i = j
    annotate_files(objs)
    return objs


def annotate_files(objs):
    """clang omits `file` when it equals the previous printed location: resolve it for every node (dump order)"""
    cur = [""]

    def upd(loc):
        if not isinstance(loc, dict):
            return
        for k in ("spellingLoc", "expansionLoc"):
            if k in loc:
                upd(loc[k])
        if "file" in loc:
            cur[0] = loc["file"]

    def rec(o):
        if not isinstance(o, dict):
            return
        upd(o.get("loc"))
        r = o.get("range") or {}
        upd(r.get("begin"))
        o["_file_begin"] = cur[0]
        upd(r.get("end"))
        o["_file"] = cur[0]
        for c in o.get("inner", []):
            rec(c)

    for o in objs:
        rec(o)


_SRC = {}


def token_at(file, loc):
    """source text of the token at a location dict (uses expansionLoc/spellingLoc when present)"""
    if "offset" not in loc:
        loc = loc.get("expansionLoc") or loc.get("spellingLoc") or {}
    if "offset" not in loc or not file:
        return ""
    if file not in _SRC:
        try:
            _SRC[file] = open(file, "rb").read()
        except OSError:
            _SRC[file] = b""
    off, n = loc["offset"], loc.get("tokLen", 0)
    return _SRC[file][off:off + n].decode(errors="replace")


def qt(o):
    t = o.get("type")
    return t.get("qualType", "") if isinstance(t, dict) else ""


def strip(o):
    while isinstance(o, dict) and o.get("kind") in ("ImplicitCastExpr", "ParenExpr", "ExprWithCleanups",
                                                      "MaterializeTemporaryExpr", "CXXBindTemporaryExpr",
                                                      "CXXFunctionalCastExpr", "CXXStaticCastExpr") and o.get("inner"):
        o = o["inner"][0]
    return o


def expr_name(o):
    """short textual name of an lvalue expression: member / variable name (last component)"""
    o = strip(o)
    if not isinstance(o, dict):
        return ""
    k = o.get("kind")
    if k == "MemberExpr":
        return o.get("name", "")
    if k == "CXXDependentScopeMemberExpr":
        return o.get("member", "")
    if k == "DeclRefExpr":
        return (o.get("referencedDecl") or {}).get("name", "")
    if k in ("UnaryOperator", "ArraySubscriptExpr") and o.get("inner"):
        return expr_name(o["inner"][0])
    if k == "CXXThisExpr":
        return "this"
    if k in ("CXXMemberCallExpr", "CallExpr", "CXXOperatorCallExpr") and o.get("inner"):
        return expr_name(o["inner"][0])
    return ""


def base_of(o):
    """object expression of a member access"""
    o = strip(o)
    if o.get("kind") in ("MemberExpr", "CXXDependentScopeMemberExpr", "UnresolvedMemberExpr") and o.get("inner"):
        return o["inner"][0]
    return None


def direct_atomic_type(t):
    """the type IS an atomic object (not a container of atomics, not a pointer to one)"""
    t = re.sub(r"^(const\s+|volatile\s+)+", "", (t or "").strip())
    return bool(re.fullmatch(r"(std::)?(atomic<.*>|atomic_(?!thread_fence|signal_fence)\w+|__atomic_base<.*>)|(cocls::)?awaiter_collector", t))


def independent_value(e):
    """the operand is a constant or a parameter of the function: evaluating it reads no shared state and has no effect"""
    if not isinstance(e, dict):
        return False
    k = e.get("kind")
    if k in ("IntegerLiteral", "FloatingLiteral", "CXXBoolLiteralExpr", "CharacterLiteral", "UnaryExprOrTypeTraitExpr", "CXXNullPtrLiteralExpr"):
        return True
    if k in ("ImplicitCastExpr", "ParenExpr", "CStyleCastExpr", "CXXStaticCastExpr", "CXXFunctionalCastExpr", "ConstantExpr") and len(e.get("inner", [])) == 1:
        return independent_value(e["inner"][0])
    if k == "UnaryOperator" and e.get("opcode") in ("-", "+", "~") and len(e.get("inner", [])) == 1:
        return independent_value(e["inner"][0])
    if k == "BinaryOperator" and e.get("opcode") in ("+", "-", "*", "/", "%", "<<", ">>", "&", "|", "^") and len(e.get("inner", [])) == 2:
        return all(independent_value(x) for x in e["inner"])
    if k == "DeclRefExpr":
        return (e.get("referencedDecl") or {}).get("kind") in ("ParmVarDecl", "EnumConstantDecl", "NonTypeTemplateParmDecl")
    return False


def terminates(o):
    """the statement never falls through (ends in return / break / continue / throw)"""
    if not isinstance(o, dict):
        return False
    k = o.get("kind")
    if k in ("ReturnStmt", "BreakStmt", "ContinueStmt", "CXXThrowExpr", "CoreturnStmt"):
        return True
    if k in ("ExprWithCleanups",) and o.get("inner"):
        return terminates(o["inner"][0])
    if k == "CompoundStmt" and o.get("inner"):
        return terminates(o["inner"][-1])
    if k == "IfStmt" and o.get("hasElse"):
        inner = o.get("inner", [])
        return terminates(inner[-1]) and terminates(inner[-2])
    return False


def negated_cas(cond):
    """cond is `!<call to compare_exchange_*>`"""
    c = strip(cond)
    if isinstance(c, dict) and c.get("kind") == "UnaryOperator" and c.get("opcode") == "!":
        def has_cas(o):
            if isinstance(o, dict):
                if o.get("kind") in ("MemberExpr", "CXXDependentScopeMemberExpr") and (o.get("name") or o.get("member") or "").startswith("compare_exchange"):
                    return True
                return any(has_cas(x) for x in o.get("inner", []))
            return False
        return has_cas(c)
    return False


def contains_assert_fail(o):
    if isinstance(o, dict):
        if o.get("kind") == "DeclRefExpr" and (o.get("referencedDecl") or {}).get("name") == "__assert_fail":
            return True
        if o.get("kind") == "UnresolvedLookupExpr" and o.get("name") == "__assert_fail":
            return True
        return any(contains_assert_fail(c) for c in o.get("inner", []))
    return False


def order_of(arg):
    a = strip(arg)
    if not isinstance(a, dict):
        return None
    if a.get("kind") == "DeclRefExpr":
        return ORDERS.get((a.get("referencedDecl") or {}).get("name", ""))
    if a.get("kind") == "DependentScopeDeclRefExpr":
        return None
    for c in a.get("inner", []):
        r = order_of(c)
        if r:
            return r
    return None


def order_arg(arg, order_params=(), std_default=False, consts=None):
    """the memory order an argument denotes, STRICTLY: a literal enumerator -> its name (`std::memory_order_acquire`, the scoped spelling
    `std::memory_order::acquire`); a parameter of the enclosing function whose type is std::memory_order -> "?<param>" (resolved over
    all call sites afterwards, see Walker.resolve_orders); a `constexpr` / `const` variable or static data member of type
    std::memory_order whose initialiser is (transitively) one of these -> that order (`consts`: OrderConsts; the object is immutable and
    its initialiser is the only value it ever has, so the operation is performed with exactly that order); a conditional expression ->
    the weakest order implied by both arms (whichever arm is taken, the operation is at least that strong); anything else (a mutable
    variable, a call, a cast from an integer) -> "?" = not known statically, treated as the weakest order"""
    a = strip(arg)
    if not isinstance(a, dict):
        return "?"
    k = a.get("kind")
    if k == "CXXDefaultArgExpr" and std_default:
        return "seq_cst"       # the defaulted order of a std::atomic member function
    if k == "DeclRefExpr":
        rd = a.get("referencedDecl") or {}
        name, rk = rd.get("name", ""), rd.get("kind", "")
        if consts is not None and rk == "VarDecl" and consts.known(rd.get("id")):
            return consts.value(rd.get("id")) or "?"      # a variable declared in cocls (whatever its name): judged by its initialiser
        if name in ORDERS and rk in ("EnumConstantDecl", "VarDecl", ""):
            return ORDERS[name]     # std's enumerator / std's `inline constexpr memory_order memory_order_xxx`
        if name in order_params:
            return "?" + name
        return "?"
    if k == "MemberExpr" and consts is not None and consts.known(a.get("referencedMemberDecl")):
        return consts.value(a.get("referencedMemberDecl")) or "?"      # `this->order_x` / `obj.order_x` naming a static data member
    if k in ("ConditionalOperator", "BinaryConditionalOperator") and len(a.get("inner", [])) >= 3:
        return order_meet([order_arg(x, order_params, std_default, consts) for x in a["inner"][-2:]])
    return "?"


class OrderConsts:
    """the `constexpr` / `const` variables and static data members of type std::memory_order declared in the dumped namespace, by
    declaration id, with the order their initialiser denotes.  Only objects that can never change count: the declared type must be
    `const std::memory_order` itself (no reference, no pointer; `constexpr` implies const).  No initialiser in this declaration (an
    out-of-line definition), an initialiser that is not an enumerator / another such constant / a conditional expression over them:
    unknown = weakest."""

    def __init__(self):
        self.decls = {}
        self.memo = {}

    def note(self, o):
        if o.get("kind") == "VarDecl" and o.get("id") and "memory_order" in qt(o):
            self.decls[o["id"]] = o

    def known(self, did):
        return bool(did) and did in self.decls

    def value(self, did, depth=0):
        if did in self.memo:
            return self.memo[did]
        d = self.decls.get(did)
        r = None
        if d is not None and depth < 8:
            t = re.sub(r"\b(static|inline|constexpr)\b", "", qt(d)).strip()
            immutable = bool(re.fullmatch(r"const\s+(std::)?memory_order|(std::)?memory_order\s+const", t))
            init = [c for c in d.get("inner", []) if isinstance(c, dict) and not c.get("kind", "").endswith(("Comment", "Attr"))]
            if immutable and "init" in d and len(init) == 1:
                self.memo[did] = None       # a cycle is unknown
                v = self._eval(init[0], depth + 1)
                r = v if v and not v.startswith("?") else None
        self.memo[did] = r
        return r

    def _eval(self, e, depth):
        a = strip(e)
        if not isinstance(a, dict):
            return None
        k = a.get("kind")
        if k == "ConstantExpr" and a.get("inner"):
            return self._eval(a["inner"][0], depth)
        if k == "DeclRefExpr":
            rd = a.get("referencedDecl") or {}
            if rd.get("kind") == "VarDecl" and self.known(rd.get("id")):
                return self.value(rd.get("id"), depth)
            if rd.get("name", "") in ORDERS and rd.get("kind") in ("EnumConstantDecl", "VarDecl"):
                return ORDERS[rd["name"]]
            return None
        if k == "MemberExpr" and self.known(a.get("referencedMemberDecl")):
            return self.value(a.get("referencedMemberDecl"), depth)
        if k in ("ConditionalOperator", "BinaryConditionalOperator") and len(a.get("inner", [])) >= 3:
            arms = [self._eval(x, depth) for x in a["inner"][-2:]]
            return order_meet([x or "?" for x in arms])
        return None


# member functions of future_common that load the slot RELAXED: their answer must never gate an access to the result
HINT_LOADS = ("pending", "initialized")

# position of the (first) memory-order argument of the atomic member functions
ORDER_POS = {"load": 0, "store": 1, "xchg": 1, "rmw": 1, "wait": 1, "cas": 2}


def order_meet(orders):
    """weakest order implied by a set of possible orders (greatest lower bound in relaxed < acquire,release < acq_rel < seq_cst)"""
    orders = list(orders)
    if not orders or any(o.startswith("?") or o == "consume" for o in orders):
        return "relaxed"
    if all(o == orders[0] for o in orders):
        return orders[0]
    acq = all(o in ("acquire", "acq_rel", "seq_cst") for o in orders)
    rel = all(o in ("release", "acq_rel", "seq_cst") for o in orders)
    return "acq_rel" if acq and rel else "acquire" if acq else "release" if rel else "relaxed"


def cas_failure(order):
    return {"acq_rel": "acquire", "release": "relaxed"}.get(order, order)


class FnFacts:
    def __init__(self, cls, fn, file, is_ctor_dtor):
        self.cls, self.fn, self.file, self.ctor_dtor = cls, fn, file, is_ctor_dtor
        self.sites = []        # dicts
        self.plain = []        # plain member accesses: dict(field, write, afterOp, inAssert, base)
        self.locks = []        # lock VarDecls (name, mutex expr name)
        self.guarded = []      # (field, locked)
        self.allocs = []       # what
        self.calls = []        # (callee name, locked, seq)
        self.seq = 0
        self.order_params = []     # names of the parameters of type std::memory_order, with their position: (index, name)
        self.call_orders = []      # (callee name, [order_arg of every argument]) for every call made by this function
        self.addr_of = []          # (member name, type of its object expression, in assert) for every member mentioned under a unary `&`
        self.ret_type = ""         # declared return type
        self.hint_calls = []       # calls (outside assertions) of the relaxed "hint" loads of a future: pending() / initialized()


def exc_type_name(o):
    """the class named by a `throw T(...)` / `catch (const T &)` node, read from the AST (first type found below the node),
    without namespace, cv-qualifiers and reference; `...` for a catch-all / an operand whose type is not known yet"""
    def first_type(x):
        if isinstance(x, dict):
            t = (x.get("type") or {}).get("qualType")
            if t and x.get("kind") not in ("CXXThrowExpr", "CXXCatchStmt", "CompoundStmt"):
                return t
            if x.get("kind") == "CompoundStmt":
                return None
            for c in x.get("inner", []):
                r = first_type(c)
                if r:
                    return r
        return None
    t = None
    for c in o.get("inner", []):
        if isinstance(c, dict) and c.get("kind") == "CompoundStmt":
            break
        t = first_type(c)
        if t:
            break
    if not t or "dependent type" in t:
        return "..."
    t = t.replace("const ", "").replace("&", "").replace("struct ", "").replace("class ", "").strip()
    return t.split("::")[-1].strip()


class Walker:
    def __init__(self, objs):
        self.objs = objs
        self.fns = []
        self.members = {}      # cls -> list of (name, type)
        self.fn_aliases = set()   # alias names whose underlying type is a type-erased callable
        self.cur_file = ""
        self.consts = OrderConsts()     # constexpr / const variables of type std::memory_order
        self.cocls_functions = set()    # names of the functions the library itself declares (a free function called `atomic_load` of its own is not std's)
        self.atomic_uses = {}           # field id -> number of recognised atomic operations whose object is that member
        self.member_mentions = {}       # field id -> number of MemberExprs naming that member the walk has visited in any other role
        self.field_ids = {}             # field id -> (class, name, type, desugared type)

    def run(self):
        self.record_names = {}

        def rec(o):
            if isinstance(o, dict):
                self.consts.note(o)
                if o.get("kind") in ("FunctionDecl", "CXXMethodDecl", "FunctionTemplateDecl") and o.get("name", "").startswith("atomic_"):
                    self.cocls_functions.add(o["name"])
                if o.get("kind") in ("TypeAliasDecl", "TypedefDecl") and "function<" in qt(o) and "std::" not in o.get("name", ""):
                    self.fn_aliases.add(o.get("name", ""))
                if o.get("kind") in ("CXXRecordDecl", "ClassTemplateSpecializationDecl") and o.get("id") and o.get("name"):
                    self.record_names.setdefault(o["id"], o["name"])
                for c in o.get("inner", []):
                    rec(c)
        for o in self.objs:
            rec(o)
        for o in self.objs:
            self.top(o, [])
        self.resolve_orders()
        self.classify_inert()
        return self

    def resolve_orders(self):
        """an order that travels through a std::memory_order parameter is the weakest of what the call sites of that function (matched
        by name, over all walked functions) pass for it; no call site, or a call site that does not pass a literal -> relaxed"""
        def resolve(fn_name, pname, params, depth=0):
            idx = next((i for i, n in params if n == pname), None)
            got = []
            for g in self.fns:
                for callee, aorders in g.call_orders:
                    if callee != fn_name:
                        continue
                    if idx is None or idx >= len(aorders):
                        got.append("?")          # defaulted or not passed positionally: unknown
                        continue
                    o = aorders[idx]
                    if o.startswith("?") and len(o) > 1 and depth < 4:
                        o = resolve(g.fn, o[1:], g.order_params, depth + 1)
                    got.append(o)
            return order_meet(got)

        for f in self.fns:
            for s in f.sites:
                for key in ("succ", "fail"):
                    o = s.get(key)
                    if isinstance(o, str) and o.startswith("?"):
                        s[key] = resolve(f.fn, o[1:], f.order_params) if len(o) > 1 else "relaxed"
                        s["orderResolved"] = True
                if s.get("failDerived"):
                    s["fail"] = cas_failure(s["succ"])

    # ------------------------------------------------------------------ inert diagnostic atomics
    ARITH = (r"(?:(?:unsigned|signed|long|short|int|char|bool|float|double|wchar_t|char8_t|char16_t|char32_t|__int128)\s*)+"
             r"|(?:std::)?(?:size_t|ptrdiff_t|u?int(?:_fast|_least)?(?:8|16|32|64)_t|u?intptr_t|u?intmax_t)")
    INERT_OPS = ("load", "store", "fetch_add", "fetch_sub")

    def classify_inert(self):
        """Mark the sites of *inert* atomic members (`site["inert"] = True`) and count the positions of the plain accesses without them.

        An atomic data member M of a class is inert when ALL of the following hold (anything not established = not inert, the sites
        stay in the table and `c03_sites_accounted` decides):
          (a) its type is std::atomic<T> with T an arithmetic type (integer, bool, character, floating point) - no pointer, no class;
          (b) every mention of M anywhere in the dumped declarations (function bodies, constructor initialisers, default member
              initialisers, lambda captures, pointers to member; template patterns, not their instantiations) is the object of a
              recognised atomic operation, and each of these is a `load`, or a `store` / `fetch_add` / `fetch_sub` (`=`, `++`, `--`,
              `+=`, `-=`, `std::atomic_*` included) whose operand is built from literals and parameters of the function only - of ANY
              memory order.  So M's address is never taken, no reference to it is bound, nothing waits on it, nothing is exchanged
              or compared with it;
          (c) every `load` is the whole operand of the only statement `return <load>;` of its function (a *getter*), and every mention
              of a getter's name anywhere in the library is again the operand (or an arm of a conditional expression whose condition
              does not mention it) of the only `return` of a function - transitively (forwarding getters such as
              `generator::yield_count()`).  The value never reaches a condition, an index, an argument, a store: it leaves the
              library through return values only.

        Why such a member cannot break C03 (data-race freedom and safe publication), whatever orders its operations have:
          * no data race on M itself: by (b) every access to M is an atomic operation, and atomic operations do not race;
          * no effect on the protocol objects: happens-before is the transitive closure of sequenced-before and synchronises-with.
            An operation on M is sequenced like any other evaluation and can at most ADD synchronises-with edges (when it is a release
            store read by an acquire load of M); it removes none.  A release sequence is a sequence of modifications of ONE atomic
            object, so an operation on a different object neither continues nor breaks the release sequences the obligations rely on.
            Every happens-before edge the protocol theorems derive for the program without M is therefore still there;
          * no new behaviour of the rest: by (c) and (b) no value read from M influences control flow, an address, or a value written
            to any other object, and the operations allowed in (b) never block; so every execution of the library with M, restricted
            to the other objects, is an execution of the library without M (seq_cst operations on M only constrain the total order S
            further, and the machine of Clock.lean reads seq_cst as acq_rel anyway).  Race freedom and publication facts about the
            other objects carry over unchanged.
        Why it cannot break C20: std::atomic<arithmetic> holds its value inline, its constructor, the operations of (b) and its
        destructor are noexcept and never call an allocation function; the allocation-site table does not depend on this
        classification at all (a member is an allocation site by its TYPE: container / function / string / shared_ptr).

        The plain-access positions (`afterOp` = number of synchronising operations in front of the access) are counted without the
        inert operations: they synchronise nothing the position obligations are about (same argument), and only so an added counter
        leaves the positions of the existing accesses where they were."""
        self.inert_report = []
        by_field = {}
        for f in self.fns:
            for st in f.sites:
                if st.get("fid"):
                    by_field.setdefault(st["fid"], []).append((f, st))
        cands = {}
        for fid, uses in by_field.items():
            info = self.field_ids.get(fid)
            if info is None:
                continue
            cls, name, typ, desug = info
            t = re.sub(r"^(const|volatile|mutable)\s+", "", (desug or typ).strip())
            m = re.fullmatch(r"(?:std::)?atomic<\s*(.*?)\s*>", t)
            if not m or not re.fullmatch(self.ARITH, m.group(1).strip()):
                continue                                                                            # (a)
            if any(st.get("op") not in self.INERT_OPS or st["inAssert"] or st.get("lambda") for _f, st in uses):
                continue                                                                            # (b) kinds (not inside assertions / lambdas)
            if any(st["op"] != "load" and not st.get("valuesOk") for _f, st in uses):
                continue                                                                            # (b) operands
            getters = []
            ok = True
            for f, st in uses:
                if st["op"] != "load":
                    continue
                stmts = [c for c in (f.body or {}).get("inner", []) if isinstance(c, dict) and c.get("kind") != "NullStmt"]
                if (f.body or {}).get("kind") == "CompoundStmt" and len(stmts) == 1 and stmts[0].get("kind") == "ReturnStmt" \
                        and len(stmts[0].get("inner", [])) == 1 and strip(stmts[0]["inner"][0]) is st["node"]:
                    getters.append(f.fn)
                else:
                    ok = False                                                                      # (c) shape of the loading function
            if ok:
                cands[fid] = {"info": info, "uses": uses, "getters": set(getters)}
        if not cands:
            return
        # (b) every mention is a recognised operation; (c) the getters' results only travel through returns  -- one scan of the dump
        mentions, dep_names, fn_mentions = self.scan_mentions(set(cands))
        for fid, c in list(cands.items()):
            cls, name, typ, _d = c["info"]
            if mentions.get(fid, 0) != len(c["uses"]) or name in dep_names:
                del cands[fid]
                continue
            names = set(c["getters"])
            changed, ok = True, True
            while changed and ok:
                changed = False
                for fnode, fname, used in fn_mentions:
                    hit = used & names
                    if not hit:
                        continue
                    if fnode is None or fname in ("operator()", "") or not self.forwards(fnode, names):
                        ok = False          # used outside a function body, inside a lambda, or not in value position of a single return
                        break
                    if fname not in names:
                        names.add(fname)
                        changed = True
            if not ok:
                del cands[fid]
                continue
            c["names"] = names
        for fid, c in cands.items():
            cls, name, typ, _d = c["info"]
            rows = []
            for f, st in c["uses"]:
                st["inert"] = True
                rows.append({"cls": f.cls, "fn": f.fn, "op": st["op"], "kind": st["kind"], "order": st["succ"]})
            self.inert_report.append({"cls": cls, "member": name, "type": typ, "getters": sorted(c["names"]), "sites": rows})
        # positions of the plain accesses, counted without the inert operations
        for f in self.fns:
            flags = [bool(st.get("inert")) for st in f.sites if not st["inAssert"]]
            if not any(flags):
                continue
            prefix = [0]
            for fl in flags:
                prefix.append(prefix[-1] + (1 if fl else 0))
            for a in f.plain:
                k = a["afterOp"]
                if k > 0:
                    a["afterOp"] = k - prefix[min(k, len(flags))]

    @staticmethod
    def pattern_children(o):
        """children of a declaration / statement, template patterns only (as `top` / `member` walk them): no implicit instantiations"""
        k = o.get("kind")
        inner = o.get("inner", [])
        if k == "FunctionTemplateDecl":
            out, seen = [], False
            for c in inner:
                if isinstance(c, dict) and c.get("kind") in ("FunctionDecl", "CXXMethodDecl", "CXXConstructorDecl", "CXXConversionDecl", "CXXDeductionGuideDecl"):
                    if seen:
                        continue
                    seen = True
                out.append(c)
            return out
        if k == "ClassTemplateDecl":
            return [c for c in inner if not (isinstance(c, dict) and c.get("kind") == "ClassTemplateSpecializationDecl")]
        return inner

    def scan_mentions(self, fids):
        """(field id -> number of expressions naming that member, names used as members of dependent objects,
        [(function declaration or None, its name, names of everything it mentions)])"""
        mentions, dep_names, per_fn = {}, set(), []

        def rec(o, cur):
            if not isinstance(o, dict):
                return
            k = o.get("kind", "")
            if k in ("FunctionDecl", "CXXMethodDecl", "CXXConstructorDecl", "CXXDestructorDecl", "CXXConversionDecl") and any(
                    isinstance(c, dict) and c.get("kind") in ("CompoundStmt", "CoroutineBodyStmt", "CXXTryStmt") for c in o.get("inner", [])):
                cur = [o, o.get("name", ""), set()]
                per_fn.append(cur)
            if not k.endswith("Decl"):
                rid = o.get("referencedMemberDecl") if k == "MemberExpr" else (o.get("referencedDecl") or {}).get("id") if k == "DeclRefExpr" else None
                if rid in fids:
                    mentions[rid] = mentions.get(rid, 0) + 1
                if k == "CXXDependentScopeMemberExpr":
                    dep_names.add(o.get("member", ""))
                nm = set()
                if k in ("MemberExpr", "UnresolvedLookupExpr"):
                    nm.add(o.get("name", ""))
                if k == "CXXDependentScopeMemberExpr":
                    nm.add(o.get("member", ""))
                if k == "DeclRefExpr":
                    nm.add((o.get("referencedDecl") or {}).get("name", ""))
                if k == "UnresolvedMemberExpr":
                    nm.add(o.get("_vn_name") or token_at(o.get("_file", ""), (o.get("range") or {}).get("end") or {}))
                nm.discard("")
                if nm:
                    if cur is None:
                        per_fn.append([None, "", nm])
                    else:
                        cur[2] |= nm
            for c in self.pattern_children(o):
                rec(c, cur)
        for o in self.objs:
            rec(o, None)
        return mentions, dep_names, [tuple(x) for x in per_fn]

    def mentions_in(self, o, names):
        if isinstance(o, dict):
            k = o.get("kind", "")
            if not k.endswith("Decl") or k in ("VarDecl",):
                n = {o.get("name") if k in ("MemberExpr", "UnresolvedLookupExpr") else None, o.get("member") if k == "CXXDependentScopeMemberExpr" else None,
                     (o.get("referencedDecl") or {}).get("name") if k == "DeclRefExpr" else None,
                     (o.get("_vn_name") or token_at(o.get("_file", ""), (o.get("range") or {}).get("end") or {})) if k == "UnresolvedMemberExpr" else None}
                if n & names:
                    return True
            return any(self.mentions_in(c, names) for c in o.get("inner", []))
        return False

    def forwards(self, fnode, names):
        """the function's body is the single statement `return E;` where the calls of `names` stand in value position of E only:
        E is such a call (whose object expression and arguments do not mention the names), or `c ? E1 : E2` with c not mentioning them
        and each arm such an E or free of them"""
        body = next((c for c in fnode.get("inner", []) if isinstance(c, dict) and c.get("kind") == "CompoundStmt"), None)
        if body is None:
            return False
        # nothing but the body may mention the names (constructor initialisers, default arguments)
        if any(self.mentions_in(c, names) for c in fnode.get("inner", []) if c is not body):
            return False
        stmts = [c for c in body.get("inner", []) if isinstance(c, dict) and c.get("kind") != "NullStmt"]
        if len(stmts) != 1 or stmts[0].get("kind") != "ReturnStmt" or len(stmts[0].get("inner", [])) != 1:
            return False

        def value_pos(e):
            e = strip(e)
            if not isinstance(e, dict):
                return False
            if not self.mentions_in(e, names):
                return True
            k = e.get("kind")
            if k in ("ConditionalOperator",) and len(e.get("inner", [])) == 3:
                c, x, y = e["inner"]
                return not self.mentions_in(c, names) and value_pos(x) and value_pos(y)
            if k in ("CXXMemberCallExpr", "CallExpr") and e.get("inner"):
                callee = strip(e["inner"][0])
                cn = callee.get("name") or callee.get("member") or (callee.get("referencedDecl") or {}).get("name") or ""
                if callee.get("kind") == "UnresolvedMemberExpr":
                    cn = callee.get("_vn_name") or token_at(callee.get("_file", ""), (callee.get("range") or {}).get("end") or {})
                rest = list(callee.get("inner", [])) + e["inner"][1:]
                return cn in names and not any(self.mentions_in(r, names) for r in rest)
            return False
        return value_pos(stmts[0]["inner"][0])

    def loc_file(self, o):
        self.cur_file = o.get("_file_begin") or o.get("_file") or self.cur_file
        return self.cur_file

    def top(self, o, scope):
        k = o.get("kind")
        self.loc_file(o)
        if k == "NamespaceDecl":
            for c in o.get("inner", []):
                self.cur_access = "public"
                self.top(c, scope)
        elif k in ("CXXRecordDecl", "ClassTemplateSpecializationDecl", "ClassTemplatePartialSpecializationDecl"):
            if not o.get("inner") or not o.get("completeDefinition", True):
                return
            name = o.get("name", "?")
            access = "public" if o.get("tagUsed") in ("struct", "union") else "private"
            for c in o.get("inner", []):
                if c.get("kind") == "AccessSpecDecl":
                    access = c.get("access", access)
                    continue
                self.cur_access = access        # access specifier the member is declared under (FnFacts.access)
                self.member(c, scope + [name])
        elif k == "ClassTemplateDecl":
            for c in o.get("inner", []):
                if c.get("kind") == "CXXRecordDecl":
                    self.top(c, scope)
        elif k in ("FunctionDecl", "CXXMethodDecl", "CXXConstructorDecl", "CXXDestructorDecl", "CXXConversionDecl"):
            self.function(o, scope)
        elif k == "FunctionTemplateDecl":
            for c in o.get("inner", []):
                if c.get("kind") in ("FunctionDecl", "CXXMethodDecl", "CXXConstructorDecl", "CXXConversionDecl"):
                    self.function(c, scope)
                    break

    def member(self, c, scope):
        k = c.get("kind")
        self.loc_file(c)
        if k in ("CXXMethodDecl", "CXXConstructorDecl", "CXXDestructorDecl", "FunctionDecl", "CXXConversionDecl"):
            self.function(c, scope)
        elif k == "FunctionTemplateDecl":
            for d in c.get("inner", []):
                if d.get("kind") in ("CXXMethodDecl", "CXXConstructorDecl", "FunctionDecl", "CXXConversionDecl"):
                    self.function(d, scope)
                    break
        elif k in ("CXXRecordDecl", "ClassTemplateDecl", "ClassTemplateSpecializationDecl"):
            if c.get("isImplicit"):
                return
            self.top(c, scope)
        elif k == "FieldDecl":
            self.members.setdefault("::".join(scope), []).append((c.get("name", ""), qt(c), os.path.basename(self.cur_file)))
            if c.get("id"):
                self.field_ids[c["id"]] = ("::".join(scope), c.get("name", ""), qt(c), (c.get("type") or {}).get("desugaredQualType", ""))
        elif k == "FriendDecl":
            for d in c.get("inner", []):
                if d.get("kind") == "FunctionDecl":
                    self.function(d, scope)

    def function(self, f, scope):
        body = None
        for c in f.get("inner", []):
            if c.get("kind") in ("CompoundStmt", "CoroutineBodyStmt", "CXXTryStmt"):
                body = c
        # out-of-line definitions (parentDeclContextId set) carry the class in the qualified name only via previousDecl;
        # use the scope we are in, or the "cocls::X::f" filter header is not available -> fall back to name
        cls = "::".join(scope)
        if not scope and f.get("kind") == "CXXMethodDecl":
            cls = self.record_names.get(f.get("parentDeclContextId", ""), "")
        name = f.get("name", "?")
        file = os.path.basename(self.loc_file(f))
        ff = FnFacts(cls, name, file, f.get("kind") in ("CXXConstructorDecl", "CXXDestructorDecl"))
        # a function that hands out a type-erased callable (std::function / cocls::function) may allocate for large closures
        fty = qt(f)
        ret = fty.split("(")[0]
        ff.ret_type = ret.strip()
        if "function<" in ret or any(a and re.search(r"\b" + re.escape(a) + r"\b", ret) for a in self.fn_aliases):
            ff.allocs.append("returns:" + ("std::function" if "std::function" in ret else "cocls::function"))
        # constructor member initialisers count as ctor accesses; skip
        if body is None:
            return
        self.fns.append(ff)
        locks = {}
        for c in f.get("inner", []):
            if c.get("kind") == "ParmVarDecl" and ("unique_lock" in qt(c) or "lock_guard" in qt(c)):
                locks[c.get("name", "")] = {"held": True, "mutex": "param"}
        pidx = 0
        for c in f.get("inner", []):
            if c.get("kind") == "ParmVarDecl":
                if "memory_order" in qt(c):
                    ff.order_params.append((pidx, c.get("name", "")))
                pidx += 1
        ff.lk_helper = name.endswith("_lk")
        ff.node, ff.body = f, body
        ff.access = getattr(self, "cur_access", "public") if scope else "public"
        ff.has_lock_param = bool(locks)
        self.stmt(body, ff, dict(in_assert=False, locks=locks, lambda_depth=0))


    # ------------------------------------------------------------------ statement / expression walk
    def stmt(self, o, ff, ctx):
        if not isinstance(o, dict):
            return
        k = o.get("kind")
        if k == "ConditionalOperator" and contains_assert_fail(o):
            ctx2 = dict(ctx, in_assert=True)
            for c in o.get("inner", []):
                self.stmt(c, ff, ctx2)
            return
        if k == "CompoundStmt":
            # lock regions are tracked sequentially inside one compound statement (shared with the enclosing one); a lock object
            # declared in this block is destroyed at its end: it does not hold anything for the statements after the block
            before = set(ctx["locks"])
            for c in o.get("inner", []):
                self.stmt(c, ff, ctx)
            for n in [n for n in ctx["locks"] if n not in before and not n.startswith("<mutex>")]:
                del ctx["locks"][n]
            return
        if k == "WhileStmt":
            inner = o.get("inner", [])
            if len(inner) >= 2:
                n_before = len([x for x in ff.sites if not x["inAssert"]])
                cond, body = inner[-2], inner[-1]
                for c in inner[:-2]:
                    self.stmt(c, ff, ctx)
                self.stmt(cond, ff, ctx)
                new_sites = ff.sites[len(ff.sites) - (len([x for x in ff.sites if not x["inAssert"]]) - n_before):] if True else []
                cas_in_cond = any(x["kind"] == "cas" for x in ff.sites[-max(1, len(new_sites)):]) and len([x for x in ff.sites if not x["inAssert"]]) > n_before
                # `while (!x.compare_exchange(...)) body`: the body runs only after a FAILED exchange, i.e. before publication
                self.stmt(body, ff, dict(ctx, nops_override=n_before) if cas_in_cond and negated_cas(cond) else ctx)
                return
        if k == "ForStmt":
            # `for (init; cond; inc) body` is `{ init; while (cond) { body; inc; } }` ([stmt.for]): with `!cas` as its condition, body and
            # increment run only after a FAILED exchange, like the body of the while loop above
            inner = (o.get("inner", []) + [{}] * 5)[:5]
            init, condvar, cond, inc, body = inner
            if isinstance(cond, dict) and cond.get("kind") and negated_cas(cond) and not (isinstance(condvar, dict) and condvar.get("kind")):
                self.stmt(init, ff, ctx)
                n_before = len([x for x in ff.sites if not x["inAssert"]])
                self.stmt(cond, ff, ctx)
                grew = len([x for x in ff.sites if not x["inAssert"]]) > n_before
                ctx2 = dict(ctx, nops_override=n_before) if grew else ctx
                self.stmt(body, ff, ctx2)
                self.stmt(inc, ff, ctx2)
                return
        if k == "IfStmt":
            inner = o.get("inner", [])
            has_else = o.get("hasElse", False)
            # children: [init?] [condvar?] cond then [else]
            branches = inner[-2:] if has_else else inner[-1:]
            for c in inner[:len(inner) - len(branches)]:
                self.stmt(c, ff, ctx)
            entry = {n: dict(v) for n, v in ctx["locks"].items()}
            outs = []
            for b in branches:
                st = {n: dict(v) for n, v in entry.items()}
                self.stmt(b, ff, dict(ctx, locks=st))
                if not terminates(b):
                    outs.append(st)
            if not has_else:
                outs.append(entry)
            for n in list(ctx["locks"].keys()):
                if outs:
                    ctx["locks"][n]["held"] = all(st.get(n, {"held": False})["held"] for st in outs)
            return
        if k == "DeclStmt":
            for d in o.get("inner", []):
                if d.get("kind") == "VarDecl":
                    t = qt(d)
                    if "lock_guard" in t or "unique_lock" in t or "scoped_lock" in t:
                        mx = ""
                        for c in d.get("inner", []):
                            mx = mx or self.find_name(c, ("_mx", "mx"))
                        ctx["locks"][d.get("name", "")] = {"held": True, "mutex": mx or "?"}
                        ff.locks.append((d.get("name", ""), mx))
                    self.note_alloc_type(t, "local", ff)
                    self.mark_implicit_loads(d, ff)
                    for c in d.get("inner", []):
                        self.stmt(c, ff, ctx)
                elif d.get("kind") == "CXXRecordDecl" and not d.get("isImplicit"):
                    # a class LOCAL to a function body (`signal::connect`'s and `discard`'s `Awt`): its member functions are functions
                    # like any other, of class "<class of the function>::<function>::<local class>"; nothing of them is charged to the
                    # enclosing function
                    saved = (getattr(self, "cur_access", "public"), self.cur_file)
                    self.top(d, [s for s in ff.cls.split("::") if s] + [ff.fn])
                    self.cur_access, self.cur_file = saved
            return
        if k == "LambdaExpr":
            # the body runs later / elsewhere, but lexically nested code still counts for site extraction;
            # lock state is inherited when the lambda is invoked synchronously (future construction callbacks are)
            for c in o.get("inner", []):
                if c.get("kind") == "CompoundStmt":
                    self.stmt(c, ff, dict(ctx, lambda_depth=ctx["lambda_depth"] + 1))
                elif c.get("kind") == "CXXRecordDecl":
                    continue
            return
        self.mark_implicit_loads(o, ff)
        if o.get("_implicit_load"):
            self.atomic_op(ff, ctx, "load", "load", o, [], [], o)
            return
        if k == "CXXOperatorCallExpr":
            inner = o.get("inner", [])
            callee = strip(inner[0]) if inner else {}
            opname = (callee.get("referencedDecl") or {}).get("name", "") if isinstance(callee, dict) and callee.get("kind") == "DeclRefExpr" else ""
            if opname in ATOMIC_OPERATORS and len(inner) >= 2 and direct_atomic_type(qt(strip(inner[1]))):
                # `a = v`, `a++`, `a += n` ... on an atomic object: the seq_cst store / read-modify-write it is defined as
                kind, op = ATOMIC_OPERATORS[opname]
                self.atomic_op(ff, ctx, kind, op, inner[1], [], [(a, False) for a in inner[2:]], o,
                               values=[] if opname in ("operator++", "operator--") else inner[2:3])
                return
        if k in ("CXXMemberCallExpr", "CallExpr"):
            self.call(o, ff, ctx)
            return
        if k in ("CXXNewExpr",):
            ff.allocs.append("new[]" if o.get("isArray") else ("placement-new" if o.get("isPlacement") else "new"))
        if k == "CXXThrowExpr" and [c for c in o.get("inner", []) if isinstance(c, dict) and c.get("kind")]:
            # `throw expr` allocates the exception object (__cxa_allocate_exception -> malloc, not operator new); a bare `throw;`
            # re-raises the exception in flight and allocates nothing.  Seen with r6-c20-exhausted-generator-throws-internally.
            ff.allocs.append("throw:" + exc_type_name(o))
        if k == "CXXCatchStmt":
            # a handler: the place where an exception thrown below it can be swallowed inside the library
            # (`catch+rethrow`: its body contains a bare `throw;`, the exception goes on to the caller)
            def rethrows(x):
                if isinstance(x, dict):
                    if x.get("kind") == "CXXThrowExpr" and not [c for c in x.get("inner", []) if isinstance(c, dict) and c.get("kind")]:
                        return True
                    if x.get("kind") == "LambdaExpr":
                        return False
                    return any(rethrows(c) for c in x.get("inner", []))
                return False
            ff.allocs.append(("catch+rethrow:" if rethrows(o) else "catch:") + exc_type_name(o))
        if k in ("MemberExpr", "CXXDependentScopeMemberExpr"):
            self.access(o, ff, ctx, write=False)
        if k == "BinaryOperator" and o.get("opcode") in ("=", "+=", "-=", "|=", "&=") or k == "CompoundAssignOperator":
            inner = o.get("inner", [])
            if inner:
                lhs = strip(inner[0])
                if o.get("opcode") in ATOMIC_ASSIGN_OPCODES and direct_atomic_type(qt(lhs)):
                    # the same inside a template, where the operator is not resolved yet
                    kind, op = ATOMIC_OPERATORS[ATOMIC_ASSIGN_OPCODES[o["opcode"]]]
                    self.atomic_op(ff, ctx, kind, op, inner[0], [], [(a, False) for a in inner[1:]], o, values=inner[1:2])
                    return
                if lhs.get("kind") in ("MemberExpr", "CXXDependentScopeMemberExpr"):
                    self.access(lhs, ff, ctx, write=True)
                    b = base_of(lhs)
                    if b:
                        self.stmt(b, ff, ctx)
                elif (lhs.get("kind") == "UnaryOperator" and lhs.get("opcode") == "*") or lhs.get("kind") == "ArraySubscriptExpr":
                    # a plain store through a pointer (`*s = x`, `p[i] = x`): recorded as a write to the pseudo field "*<pointer name>"
                    # (seen with the seeded change r5-c19-dealloc-clears-trailer-after-release: a store into the released block)
                    ff.seq += 1
                    ff.plain.append({"field": "*" + (expr_name(lhs) or "?"), "write": True,
                                     "afterOp": ctx.get("nops_override", len([x for x in ff.sites if not x["inAssert"]])),
                                     "inAssert": ctx["in_assert"], "base": "", "locked": self.any_lock_held(ctx),
                                     "btype": "", "seq": ff.seq, "lambda": ctx["lambda_depth"]})
                    self.stmt(inner[0], ff, ctx)
                else:
                    self.stmt(inner[0], ff, ctx)
                for c in inner[1:]:
                    self.stmt(c, ff, ctx)
            return
        if k == "UnaryOperator" and o.get("opcode") == "&":
            # address-of: remember which members the operand mentions (`&_q[relpos]`, `&_regs[h]._pos`): a pointer into lock-guarded
            # data can leave the lock region (seeded change r5-c16-copy-value-outside-lock)
            def members(x, acc):
                if isinstance(x, dict):
                    if x.get("kind") in ("MemberExpr", "CXXDependentScopeMemberExpr"):
                        acc.append((x.get("name") or x.get("member") or "", qt(strip(base_of(x))) if base_of(x) else ""))
                    for c in x.get("inner", []):
                        members(c, acc)
                return acc
            for name, bt in members(o, []):
                ff.addr_of.append((name, bt, ctx["in_assert"]))
        if k == "UnaryOperator" and o.get("opcode") in ("++", "--"):
            inner = o.get("inner", [])
            if inner and direct_atomic_type(qt(strip(inner[0]))):
                kind, op = ATOMIC_OPERATORS[ATOMIC_ASSIGN_OPCODES[o["opcode"]]]
                self.atomic_op(ff, ctx, kind, op, inner[0], [], [], o)
                return
            if inner and strip(inner[0]).get("kind") in ("MemberExpr", "CXXDependentScopeMemberExpr"):
                self.access(strip(inner[0]), ff, ctx, write=True)
                return
        for c in o.get("inner", []):
            self.stmt(c, ff, ctx)

    def mark_implicit_loads(self, o, ff):
        """inside a template the conversion function of an atomic is not resolved yet: `T x = a;`, `return a;`, `if (a)`, `!a`, `a == b`
        show the atomic object itself where a VALUE is needed.  An atomic cannot be copied, so this can only be the seq_cst load
        (in non-dependent code the conversion is a call node and is read in `call`)"""
        if not IMPLICIT_DEPENDENT_LOADS:
            return
        k = o.get("kind")
        if k not in ("ReturnStmt", "IfStmt", "WhileStmt", "DoStmt", "UnaryOperator", "BinaryOperator", "VarDecl", "ConditionalOperator"):
            return
        vals = []
        inner = [c for c in o.get("inner", []) if isinstance(c, dict) and c.get("kind")]
        if k == "ReturnStmt" and not ff.ret_type.endswith("&"):
            vals = inner[:1]
        elif k in ("IfStmt", "WhileStmt"):
            vals = inner[-3:-2] if k == "IfStmt" and o.get("hasElse") else inner[-2:-1]
        elif k == "DoStmt":
            vals = inner[-1:]
        elif k == "UnaryOperator" and o.get("opcode") == "!":
            vals = inner[:1]
        elif k == "BinaryOperator" and o.get("opcode") in ("==", "!=", "<", ">", "<=", ">=", "&&", "||", "+", "-", "&", "|"):
            vals = inner
        elif k == "ConditionalOperator":
            vals = inner[:1]
        elif k == "VarDecl" and "&" not in qt(o) and not direct_atomic_type(qt(o)):
            vals = [c for c in inner if not c["kind"].endswith(("Attr", "Comment"))][-1:]
        for v in vals:
            v2 = strip(v)
            if isinstance(v2, dict) and v2.get("kind") in ("MemberExpr", "DeclRefExpr", "CXXDependentScopeMemberExpr") and direct_atomic_type(qt(v2)):
                v2["_implicit_load"] = True

    def find_name(self, o, names):
        if isinstance(o, dict):
            n = expr_name(o) if o.get("kind") in ("MemberExpr", "DeclRefExpr", "CXXDependentScopeMemberExpr") else ""
            if n in names:
                return n
            for c in o.get("inner", []):
                r = self.find_name(c, names)
                if r:
                    return r
        return ""

    def any_lock_held(self, ctx):
        return any(v["held"] for v in ctx["locks"].values())

    def access(self, o, ff, ctx, write):
        name = o.get("name") or o.get("member") or ""
        b = base_of(o)
        bname = expr_name(b) if b else ""
        ff.seq += 1
        ff.plain.append({"field": name, "write": write,
                         "afterOp": ctx.get("nops_override", len([s for s in ff.sites if not s["inAssert"]])),
                         "inAssert": ctx["in_assert"], "base": bname, "locked": self.any_lock_held(ctx),
                         "btype": qt(strip(b)) if b else "", "seq": ff.seq, "lambda": ctx["lambda_depth"]})

    def note_alloc_type(self, t, where, ff):
        for key, lab in (("std::vector", "std::vector"), ("std::deque", "std::deque"), ("std::function", "std::function"),
                         ("std::string", "std::string"), ("shared_ptr", "std::shared_ptr"), ("std::map", "std::map"),
                         ("std::set", "std::set"), ("std::queue", "std::queue"), ("std::list", "std::list"),
                         ("basic_string", "std::string"), ("cocls::function<", "cocls::function"),
                         ("unique_ptr", None)):
            if key in t and lab:
                ff.allocs.append("%s:%s" % (where, lab))
                break

    def atomic_op(self, ff, ctx, kind, op, objexpr, orders, args, node, values=()):
        """one synchronising operation: `kind` of the site row, `op` = name of the std::atomic member function it is (whatever the
        spelling), `objexpr` the atomic object, `orders` the order arguments already read by order_arg (none = seq_cst; one for a CAS =
        the failure order is derived), `args` = [(argument expression, is-the-expected-reference-of-a-CAS)] walked AFTER the site is
        recorded (as ever: they may contain plain accesses), `values` the operands that are stored / added (inertness, see classify_inert)"""
        bname = expr_name(objexpr) if objexpr is not None else ""
        if kind == "cas":
            if len(orders) >= 2:
                succ, fail = orders[0], orders[1]
            elif len(orders) == 1:
                succ, fail = orders[0], cas_failure(orders[0])
            else:
                succ = fail = "seq_cst"
        else:
            succ = fail = orders[0] if orders else "seq_cst"
        ob = strip(objexpr) if objexpr is not None else {}
        fid = ob.get("referencedMemberDecl") if isinstance(ob, dict) and ob.get("kind") == "MemberExpr" else None
        ff.sites.append({"kind": kind, "obj": bname, "succ": succ, "fail": fail, "inAssert": ctx["in_assert"],
                         "op": op, "fid": fid, "node": node, "valuesOk": all(independent_value(v) for v in values),
                         "lambda": ctx["lambda_depth"]})
        if fid:
            self.atomic_uses[fid] = self.atomic_uses.get(fid, 0) + 1
        if kind == "cas" and len(orders) == 1 and succ.startswith("?"):
            ff.sites[-1]["failDerived"] = True     # single-order CAS: the failure order is derived once the order is known
        # arguments may contain plain accesses (e.g. `_next` passed by reference as `expected`)
        for a, is_expected in args:
            a2 = strip(a)
            if is_expected and isinstance(a2, dict) and a2.get("kind") in ("MemberExpr", "CXXDependentScopeMemberExpr"):
                # the expected-reference is read before and written (on failure) by the operation itself
                self.access(a2, ff, dict(ctx), write=True)
                ff.plain[-1]["afterOp"] -= 1 if not ctx["in_assert"] else 0
                ff.plain[-1]["byCas"] = True
            else:
                self.stmt(a, ff, ctx)

    def free_atomic(self, o, fname, args, ff, ctx):
        """`std::atomic_xxx[_explicit](&a, ...)`: the same site as `a.xxx(...)`.  False when this is not such a call."""
        spec = FREE_ATOMIC.get(fname)
        if spec is None or fname in self.cocls_functions or not args:
            return False        # a function of that name declared by the library itself is an ordinary call (weakest reading: no site)
        kind, op, opos = spec
        obj = strip(args[0])
        if isinstance(obj, dict) and obj.get("kind") == "UnaryOperator" and obj.get("opcode") == "&" and obj.get("inner"):
            obj = obj["inner"][0]
        orders = [] if opos is None else [order_arg(a, [n for _, n in ff.order_params], consts=self.consts) for a in args[opos:opos + 2]]
        rest = []
        for i, a in enumerate(args[1:]):
            if kind == "cas" and i == 0:
                e = strip(a)        # `expected` is passed by pointer here
                if isinstance(e, dict) and e.get("kind") == "UnaryOperator" and e.get("opcode") == "&" and e.get("inner"):
                    rest.append((e["inner"][0], True))
                    continue
            rest.append((a, False))
        self.atomic_op(ff, ctx, kind, op, obj, orders, rest, o, values=args[1:2] if kind in ("store", "rmw") else [])
        return True

    def call(self, o, ff, ctx):
        inner = o.get("inner", [])
        if not inner:
            return
        callee = strip(inner[0])
        args = inner[1:]
        ck = callee.get("kind")
        mname = callee.get("name") if ck == "MemberExpr" else (callee.get("member") if ck == "CXXDependentScopeMemberExpr" else None)
        if ck == "UnresolvedMemberExpr":
            mname = callee.get("_vn_name") or token_at(callee.get("_file", ""), (callee.get("range") or {}).get("end") or {})
        if ck == "DeclRefExpr":
            fname = (callee.get("referencedDecl") or {}).get("name", "")
            if fname == "atomic_thread_fence":
                ordr = order_arg(args[0], [n for _, n in ff.order_params], std_default=True, consts=self.consts) if args else None
                ff.sites.append({"kind": "fence", "obj": "", "succ": ordr or "seq_cst", "fail": ordr or "seq_cst",
                                 "inAssert": ctx["in_assert"]})
                return
            if self.free_atomic(o, fname, args, ff, ctx):
                return
            if fname in ("make_shared", "make_unique", "allocate_shared"):
                ff.allocs.append(fname)
            if fname == "rethrow_exception":
                ff.allocs.append("rethrow")     # allocates a dependent exception (__cxa_allocate_dependent_exception -> malloc)
            ff.seq += 1
            ff.calls.append((fname, self.any_lock_held(ctx), ff.seq))
            ff.call_orders.append((fname, [order_arg(a, [n for _, n in ff.order_params], consts=self.consts) for a in args]))
        if ck == "UnresolvedLookupExpr":
            fname = callee.get("name", "")
            if self.free_atomic(o, fname, args, ff, ctx):
                return
            if fname in ("make_shared", "make_unique"):
                ff.allocs.append(fname)
            if fname == "rethrow_exception":
                ff.allocs.append("rethrow")
            ff.seq += 1
            ff.calls.append((fname, self.any_lock_held(ctx), ff.seq))
        if mname is not None:
            base = base_of(callee)
            bname = expr_name(base) if base else ""
            btype = qt(strip(base)) if base else ""
            # lock object operations
            if bname in ctx["locks"] and mname in ("unlock", "lock"):
                ctx["locks"][bname]["held"] = (mname == "lock")
                return
            # `_mx.lock()` / `_mx.unlock()` on the object's own mutex member: a lock region without a lock object.  The state lives in
            # ctx["locks"] like a lock object's, so the branch merge of IfStmt applies (a lock taken inside a branch does not count after it)
            if mname in ("lock", "unlock") and not args and base is not None:
                b2 = strip(base)
                own = b2.get("kind") in ("MemberExpr", "CXXDependentScopeMemberExpr") and (
                    not b2.get("inner") or strip(b2["inner"][0]).get("kind") == "CXXThisExpr")
                if own and ("mutex" in btype or btype == "Lock" or bname in ("_mx", "mx")):
                    ctx["locks"].setdefault("<mutex>" + bname, {"held": False, "mutex": bname})["held"] = (mname == "lock")
                    return
            is_atomic = ("atomic" in btype) or ("awaiter_collector" in btype) or (
                ("dependent" in btype or btype == "") and bname in KNOWN_ATOMIC_NAMES)
            if mname in ATOMIC_METHODS and is_atomic:
                kind = ATOMIC_METHODS[mname]
                # the order arguments by POSITION; an argument that is not a literal enumerator is never silently dropped
                # (seen with the seeded change r5-c08-unlock-relaxed-build-queue: the order travelled through a parameter)
                pos = ORDER_POS.get(kind)
                orders = [order_arg(a, [n for _, n in ff.order_params], std_default=True, consts=self.consts) for a in args[pos:pos + 2]] if pos is not None else []
                self.atomic_op(ff, ctx, kind, mname, base, orders, [(a, kind == "cas" and a is args[0]) for a in args], o,
                               values=args[:1] if kind in ("store", "rmw") else [])
                return
            if base is not None and mname.startswith("operator ") and not args and direct_atomic_type(btype):
                # the conversion function of an atomic (`T x = a;`, `if (a)`, `return a;`): a seq_cst load
                self.atomic_op(ff, ctx, "load", "load", base, [], [], o)
                return
            if base is not None:
                self.stmt(base, ff, ctx)
            for a in args:
                self.stmt(a, ff, ctx)
            ff.seq += 1
            ff.calls.append((mname, self.any_lock_held(ctx), ff.seq))
            ff.call_orders.append((mname, [order_arg(a, [n for _, n in ff.order_params], consts=self.consts) for a in args]))
            if mname in HINT_LOADS and not ctx["in_assert"]:
                ff.hint_calls.append(mname)
            return
        for c in inner:
            self.stmt(c, ff, ctx)
