#include <cocls/future.h>
#include <cstdio>
#include <string>
using namespace cocls;
int main(){
    // b owns F with default 22; a is an empty promise object with default 11
    future<int> F;
    promise_with_default<int> b(F.get_promise(), 22);
    {
        promise_with_default<int> a(promise<int>(), 11);
        a = std::move(b);           // a now owns F
    }                               // ~a resolves F with a default value: which one?
    printf("ready=%d value=%d (b's default 22 expected)\n", F.ready(), F.ready()? F.value() : -1);
    future<std::string> G;
    promise_with_default<std::string> d(G.get_promise(), "from-d-a-long-string-beyond-sso-................");
    {
        promise_with_default<std::string> c(promise<std::string>(), "from-c-a-long-string-beyond-sso-................");
        c = std::move(d);
    }
    printf("string: '%s'\n", G.value().c_str());
    return F.value()==22 ? 0 : 1;
}
