#include <cocls/future.h>
#include <cocls/queue.h>
#include <cstdio>
struct Job { int id; Job(int i):id(i){ if (i<0) throw std::runtime_error("neg"); } };
int main(){
    cocls::queue<Job> q;
    cocls::future<Job> f([&]{return q.pop();});
    bool threw=false;
    try { q.push(-1); } catch (const std::runtime_error &) { threw=true; }
    printf("threw=%d ready=%d pending=%d\n", threw, f.ready(), f.pending());
    if (!f.ready()) { puts("FAIL: waiting pop left pending for ever"); _Exit(1); }
    try { f.value(); puts("FAIL value"); return 1; } catch (const cocls::await_canceled_exception &) { puts("PASS: canceled"); }
    return 0;
}
