// S/T-harness for cocls::generator<int> and cocls::generator<int,int> (C13).
//
// A case is a *body script* interpreted inside a real generator coroutine and a sequence of consumer
// operations in every access style of generator.h / iterator.h.  One canonical line is printed per input line
// (see lean/Drivers/C13.lean for the model side); things that happen during an operation (the body receiving an
// argument, a parked consumer coroutine being resumed, RAII guards of the body being destroyed, the helper thread
// completing an awaited operation) are appended as ` ; ev1 ev2 ...` in order of occurrence.
//
//   case <id> <v|a|rv|ra|sv|sa> <helper-delay 0..2>  v: generator<int>  a: generator<int,int>  rv: generator<int&>  ra: generator<int&,int>
//                        sv: generator<mval>  sa: generator<mval,int>   (mval: a string-like value type whose move EMPTIES the source;
//                        an emptied object prints as `moved`)
//   script <act>...      y<v> co_yield v (odd statements: a fresh local, an lvalue; even statements: a temporary) |
//                        a<c> acc.append(c); co_yield acc;  the body extends ONE variable of its own and yields that variable (an
//                        lvalue it keeps using); when it is resumed it reports what the variable holds then: event acc=<content> |
//                        n co_yield nullptr | r co_await <ready cocls::future> |
//                        p<k> co_await <harness event k> | f<k> co_await <cocls::future k> | g construct a RAII guard local |
//                        q co_await cocls::pause() (needs the coroutine queue of the body's thread: every access of the library
//                        provides one; the harness event k resumes the body as a foreign awaitable would - by a bare resume() -
//                        so generated scripts never combine q with p<k>) |
//                        t throw | x co_return          (falling off the end = co_return)
//   next [a]             bool(gen.next(a))                         -> next true|false|nomore
//   nnext [a]            !gen.next(a) (next_awt::operator!)          -> nnext true|false|nomore   (the negation is undone: same answers as next)
//   active               bool(gen) (generator::operator bool)      -> active 1|0
//   while [a]            while (gen) { if (!gen.next(a++)) break; gen.value(); }   -> while v:1 v:2 end | ... exc | nomore
//   getid                gen.get_id() is non-null and never changes -> getid ok
//   value                gen.value()                               -> value v:<n>|exc|notready
//   anext [a]            consumer coroutine: co_await gen.next(a)  -> anext ; anext=true|false|nomore (event, maybe on a later line)
//   sub [a]              gen.next(a).subscribe(&cb): a callback awaiter (like generator_aggregator's GenCallback) is notified; the callback
//                        looks at done()/value()                   -> sub ; sub=v:<n>|exc|false|nomore (event, maybe on a later line)
//   subr <n> [a]         the same, and the callback re-arms itself from INSIDE the notification (re-entrantly: next(a+1).subscribe(this), ...)
//                        up to n times, as long as it was given a value
//   keep [a]             auto n = gen.next(a), kept (only stores the argument)
//   ktest | knot         bool(n) | !n on the kept object            -> ktest true|false|nomore   (only the first true answer asks the generator)
//   kawait               consumer coroutine: co_await n on the kept object -> kawait ; kawait=true|false|nomore
//   call [a]             f = gen(a)                                -> call pending|ready|nomore
//   fwait | fget         f.wait() (blocking) | non-blocking peek   -> fwait v:<n>|exc|novalue|pending
//   fbool | fnot         if (f) | if (!f)  (future::operator bool / operator!, blocking)   -> fbool true|false  (has a value or exception)
//   fawait | fhas        consumer coroutine: co_await f | co_await f.has_value()   -> events fawait=... / fhas=true|false
//   begin | inc | deref | isend | pinc       it = gen.begin(); ++it; *it; it == gen.end(); it++
//   beginc | arrow       it = generator_iterator(gen) (the advancing constructor); *it.operator->()
//   for                  for (int &v : gen) ...                    -> for v:1 v:2 end | ... exc | nomore
//   complete <k> | tcomplete <k>             awaited operation k finishes, on the consumer thread | on a second thread (joined)
//   destroy              destroy the generator object              -> destroy
//   co <op> ...          the same operation issued from INSIDE A RUNNING COROUTINE (a consumer coroutine that was resumed through
//                        the coroutine queue of its thread: coroutine mode, coro_queue::is_active()) -> co <the line of the operation>
//                        (fwait / fbool / fnot on a pending future would trip the library's "Blocking wait in a coroutine" assert:
//                        not made, `would-block`)
//   end                  completes whatever is still awaited, destroys everything
//                                     -> end made=<guards> once=<destroyed exactly once> multi=<more than once> fut=<content of the last future>
//
// Blocking accesses (next, iterators, range-for, fwait) of a body that is parked on a pending operation are served by a helper
// thread that completes exactly the awaited operation (`helped=<k>`); so the body, and everything it resumes, then runs on that
// thread while the consumer thread sits in generator::promise_type::next_sync's _block.wait() / future::wait().
//
// `busy`: the harness never calls into a generator that is still serving an access (that is the documented misuse the
// "Generator is busy" assert guards); `gone`: after destroy.
#include "common.h"
#include <cocls/generator.h>
#include <cocls/coro_queue.h>

#include <atomic>
#include <chrono>
#include <condition_variable>
#include <coroutine>
#include <mutex>
#include <optional>
#include <thread>

using namespace cocls;
using vh::test_exc;

namespace {

// ---------------------------------------------------------------- events of the current line
std::mutex ev_mx;
std::vector<std::string> evs;
void ev(std::string s) {
    std::lock_guard<std::mutex> lk(ev_mx);
    evs.push_back(std::move(s));
}

// ---------------------------------------------------------------- a value type that notices being moved from
// (like std::string / std::vector / unique_ptr: the move constructor and move assignment leave the source EMPTY; the content is
// a heap string of decimal digits so that ASan sees stale accesses)
struct mval {
    std::string s;
    mval() = default;
    explicit mval(int v) : s(std::to_string(v)) {}
    mval(const mval &) = default;
    mval &operator=(const mval &) = default;
    mval(mval &&o) noexcept : s(std::move(o.s)) { o.s.clear(); }
    mval &operator=(mval &&o) noexcept {
        if (this != &o) {
            s = std::move(o.s);
            o.s.clear();
        }
        return *this;
    }
};
inline std::string vstr(int v) { return std::to_string(v); }
inline std::string vstr(const mval &m) { return m.s.empty() ? std::string("moved") : m.s; }
inline void vappend(int &acc, int c) { acc = acc * 10 + c; }
inline void vappend(mval &acc, int c) { acc.s += std::to_string(c); }

// ---------------------------------------------------------------- watchdog: an operation that never finishes is a failure
// (exit code 96).  With `--hangfile <path>` every hang leaves a mark in that file, and once HANG_BUDGET marks exist the
// remaining cases of the run are answered `skipped hang-budget` instead of being executed: a library change that makes
// every blocking access hang must not turn one check run into hours of watchdog time-outs.
std::atomic<long> wd_tick{0};
std::string hangfile;
constexpr long HANG_BUDGET = 6;
long hang_marks() {
    if (hangfile.empty()) return 0;
    FILE *f = fopen(hangfile.c_str(), "rb");
    if (!f) return 0;
    fseek(f, 0, SEEK_END);
    long n = ftell(f);
    fclose(f);
    return n;
}
void watchdog() {
    long last = -1;
    int same = 0;
    for (;;) {
        std::this_thread::sleep_for(std::chrono::milliseconds(250));
        long t = wd_tick.load();
        if (t == last && t >= 0) {
            if (++same >= 16) {
                std::cout.flush();
                if (!hangfile.empty()) {
                    FILE *f = fopen(hangfile.c_str(), "ab");
                    if (f) {
                        fputc('h', f);
                        fclose(f);
                    }
                }
                fprintf(stderr, "HANG: an operation did not finish within 4 s\n");
                fflush(stderr);
                _exit(96);
            }
        } else {
            same = 0;
            last = t;
        }
    }
}

// ---------------------------------------------------------------- RAII guards living in the body's frame
struct GuardTab {
    std::mutex mx;
    std::vector<int> dtor;
    int make() {
        std::lock_guard<std::mutex> lk(mx);
        dtor.push_back(0);
        return (int)dtor.size() - 1;
    }
    void kill(int id) {
        std::lock_guard<std::mutex> lk(mx);
        dtor[id]++;
    }
};
GuardTab *g_tab = nullptr;
struct Guard {
    int id;
    Guard() : id(g_tab->make()) {}
    Guard(const Guard &) = delete;
    Guard &operator=(const Guard &) = delete;
    ~Guard() {
        g_tab->kill(id);
        ev("~g" + std::to_string(id));
    }
};

// ---------------------------------------------------------------- awaited operations
constexpr int NK = 8;

struct Event {   // a minimal foreign awaitable
    std::mutex mx;
    bool set = false;
    std::coroutine_handle<> waiter;
};

struct Act {
    char kind;
    int v;
};

struct Helper;
Helper *g_helper = nullptr;

struct Awaited {
    Event events[NK];
    std::unique_ptr<future<int>> futs[NK];
    promise<int> proms[NK];
    std::mutex mx;
    bool completed[NK] = {};
    Awaited() {
        for (int k = 0; k < NK; ++k) {
            futs[k].reset(new future<int>());
            proms[k] = futs[k]->get_promise();
        }
    }
    bool is_completed(int k) {
        std::lock_guard<std::mutex> lk(mx);
        return completed[k];
    }
    // operation k finishes (any thread); idempotent
    void complete(int k) {
        {
            std::lock_guard<std::mutex> lk(mx);
            if (completed[k]) return;
            completed[k] = true;
        }
        std::coroutine_handle<> h;
        {
            std::lock_guard<std::mutex> lk(events[k].mx);
            events[k].set = true;
            h = std::exchange(events[k].waiter, nullptr);
        }
        if (h) h.resume();
        proms[k](k);   // the returned suspend_point resumes the awaiting body at the end of this statement
    }
};

// the helper thread: while the consumer thread is inside a blocking access it completes the operation the body waits for
struct Helper {
    std::mutex mx;
    std::condition_variable cv;
    bool active = false, busy = false;
    int waiting = -1;
    int delay = 0;
    Awaited *aw = nullptr;
    std::thread th;
    Helper() : th([this] { loop(); }) { th.detach(); }
    void loop() {
        std::unique_lock<std::mutex> lk(mx);
        for (;;) {
            cv.wait(lk, [&] { return active && waiting >= 0; });
            int k = waiting;
            waiting = -1;
            busy = true;
            Awaited *a = aw;
            int d = delay;
            lk.unlock();
            if (d == 1) std::this_thread::yield();
            else if (d == 2) std::this_thread::sleep_for(std::chrono::microseconds(200));
            ev("helped=" + std::to_string(k));
            a->complete(k);
            lk.lock();
            busy = false;
            cv.notify_all();
        }
    }
    void note_waiting(int k) {
        std::lock_guard<std::mutex> lk(mx);
        waiting = k;
        cv.notify_all();
    }
    int take_waiting(int k) {   // the consumer thread completes k itself
        std::lock_guard<std::mutex> lk(mx);
        if (waiting == k) waiting = -1;
        return k;
    }
    int peek_waiting() {
        std::lock_guard<std::mutex> lk(mx);
        return waiting;
    }
    void begin_blocking() {
        std::lock_guard<std::mutex> lk(mx);
        active = true;
        cv.notify_all();
    }
    void end_blocking() {
        std::unique_lock<std::mutex> lk(mx);
        cv.wait(lk, [&] { return !busy; });
        active = false;
    }
};

struct Blocking {   // scope of one blocking access
    Blocking() { g_helper->begin_blocking(); }
    ~Blocking() { g_helper->end_blocking(); }
};

struct EventAwaiter {
    Event &e;
    int k;
    bool await_ready() {
        std::lock_guard<std::mutex> lk(e.mx);
        return e.set;
    }
    bool await_suspend(std::coroutine_handle<> h) {
        int kk = k;
        {
            std::lock_guard<std::mutex> lk(e.mx);
            if (e.set) return false;
            e.waiter = h;
        }
        // from here on the coroutine may be resumed by another thread: do not touch *this any more
        g_helper->note_waiting(kk);
        return true;
    }
    void await_resume() {}
};

// ---------------------------------------------------------------- the scripted generator body
// (two plain functions rather than one template: g++ 12 ICEs on `x = co_yield lv` inside `if constexpr` of a template)
#define VH_COMMON_ACTS                                                                  \
    case 'r':                                                                           \
        co_await future<int>::set_value(7);                                             \
        break;                                                                          \
    case 'p':                                                                           \
        co_await EventAwaiter{aw->events[a.v], a.v};                                    \
        break;                                                                          \
    case 'f':                                                                           \
        if (!aw->is_completed(a.v)) g_helper->note_waiting(a.v);                        \
        co_await *aw->futs[a.v];                                                        \
        break;                                                                          \
    case 'g':                                                                           \
        guards.push_back(std::make_unique<Guard>());                                    \
        break;                                                                          \
    case 'q':                                                                           \
        co_await cocls::pause();                                                        \
        break;                                                                          \
    case 't':                                                                           \
        throw test_exc(1);                                                              \
    case 'x':                                                                           \
        co_return;                                                                      \
    default:                                                                            \
        break;

// value-typed and reference-typed generators run the same bodies (generator<int &> hands out references to the yielded
// local / temporary of the frame instead of letting the future copy it)
#define VH_DEFINE_BODY_V(NAME, GEN, VT)                                                                     \
    GEN NAME(const std::vector<Act> *script, Awaited *aw) {                                                 \
        std::vector<std::unique_ptr<Guard>> guards; /* locals with destructors */                           \
        VT acc{};                                   /* the variable the body keeps extending and yielding */ \
        int idx = 0;                                                                                        \
        for (const Act &a : *script) {                                                                      \
            ++idx;                                                                                          \
            switch (a.kind) {                                                                               \
                case 'y':                                                                                   \
                    if (idx & 1) {                                                                          \
                        VT lv(a.v);                                                                         \
                        co_yield lv; /* yield_value(Ret &) */                                               \
                    } else {                                                                                \
                        co_yield VT(a.v); /* yield_value(Ret &&): the value lives in a temporary of the frame */ \
                    }                                                                                       \
                    break;                                                                                  \
                case 'a':                                                                                   \
                    vappend(acc, a.v);                                                                      \
                    co_yield acc; /* yield_value(Ret &) on a variable the body goes on using */             \
                    ev("acc=" + vstr(acc));                                                                 \
                    break;                                                                                  \
                case 'n':                                                                                   \
                    co_yield nullptr;                                                                       \
                    break;                                                                                  \
                    VH_COMMON_ACTS                                                                          \
            }                                                                                               \
        }                                                                                                   \
    }

#define VH_DEFINE_BODY_A(NAME, GEN, VT)                                                                     \
    GEN NAME(const std::vector<Act> *script, Awaited *aw) {                                                 \
        std::vector<std::unique_ptr<Guard>> guards;                                                         \
        VT acc{};                                                                                           \
        int idx = 0;                                                                                        \
        for (const Act &a : *script) {                                                                      \
            ++idx;                                                                                          \
            switch (a.kind) {                                                                               \
                case 'y': {                                                                                 \
                    int got;                                                                                \
                    if (idx & 1) {                                                                          \
                        VT lv(a.v);                                                                         \
                        got = co_yield lv;                                                                  \
                    } else {                                                                                \
                        got = co_yield VT(a.v);                                                             \
                    }                                                                                       \
                    ev("got=" + std::to_string(got));                                                       \
                    break;                                                                                  \
                }                                                                                           \
                case 'a': {                                                                                 \
                    vappend(acc, a.v);                                                                      \
                    int got = co_yield acc;                                                                 \
                    ev("got=" + std::to_string(got));                                                       \
                    ev("acc=" + vstr(acc));                                                                 \
                    break;                                                                                  \
                }                                                                                           \
                case 'n': {                                                                                 \
                    int got = co_yield nullptr; /* the argument of the call that resumed (or first started) the body */ \
                    ev("got=" + std::to_string(got));                                                       \
                    break;                                                                                  \
                }                                                                                           \
                    VH_COMMON_ACTS                                                                          \
            }                                                                                               \
        }                                                                                                   \
    }

using gen_v = generator<int>;
using gen_a = generator<int, int>;
using gen_rv = generator<int &>;
using gen_ra = generator<int &, int>;
using gen_sv = generator<mval>;
using gen_sa = generator<mval, int>;
VH_DEFINE_BODY_V(body_v, gen_v, int)
VH_DEFINE_BODY_V(body_rv, gen_rv, int)
VH_DEFINE_BODY_V(body_sv, gen_sv, mval)
VH_DEFINE_BODY_A(body_a, gen_a, int)
VH_DEFINE_BODY_A(body_ra, gen_ra, int)
VH_DEFINE_BODY_A(body_sa, gen_sa, mval)

template <typename G>
G body(const std::vector<Act> *script, Awaited *aw) {
    if constexpr (std::is_same_v<G, gen_v>) return body_v(script, aw);
    else if constexpr (std::is_same_v<G, gen_rv>) return body_rv(script, aw);
    else if constexpr (std::is_same_v<G, gen_a>) return body_a(script, aw);
    else if constexpr (std::is_same_v<G, gen_sv>) return body_sv(script, aw);
    else if constexpr (std::is_same_v<G, gen_sa>) return body_sa(script, aw);
    else return body_ra(script, aw);
}

// ---------------------------------------------------------------- consumer coroutines (detached, eager)
struct ctask {
    struct promise_type {
        ctask get_return_object() { return {}; }
        std::suspend_never initial_suspend() noexcept { return {}; }
        std::suspend_never final_suspend() noexcept { return {}; }
        void return_void() {}
        void unhandled_exception() { std::terminate(); }
    };
};

template <typename F>
std::string item_of(F &f) {   // non-blocking classification of a future
    if (!f.ready()) return "pending";
    try {
        return "v:" + vstr(f.value());
    } catch (const await_canceled_exception &) {
        return "novalue";
    } catch (const test_exc &) {
        return "exc";
    } catch (const no_more_values_exception &) {
        return "nomore";
    } catch (const value_not_ready_exception &) {
        return "notready";
    } catch (...) {
        return "other";
    }
}

template <typename G>
struct Case {
    static constexpr bool has_arg = !G::arg_is_void;
    // iterators need a generator without argument; for generator<T &> `generator::iterator` names generator_iterator<generator<T>>
    // (generator.h:68 strips the reference), so begin()/end()/range-for do not compile for it: reported as n/a
    static constexpr bool has_iter = !has_arg && (std::is_same_v<G, generator<int>> || std::is_same_v<G, generator<mval>>);
    using iter_t = std::conditional_t<has_iter, typename G::iterator, int>;
    std::vector<Act> script;
    Awaited aw;
    GuardTab tab;
    std::optional<G> gen;
    using fut_t = typename G::future_t;   // future<int> or future<int &>
    std::unique_ptr<fut_t> fut;
    std::optional<iter_t> it;
    std::deque<int> args;                  // arguments are passed by reference: keep them alive
    std::atomic<bool> parked{false};       // a consumer coroutine is inside co_await gen.next()
    std::atomic<bool> stuck{false};        // co_await gen.next() threw no_more_values (next_async keeps _caller set)
    std::atomic<bool> reader{false};       // a consumer coroutine awaits the current future
    bool gone = false;
    const void *first_id = nullptr;
    // generator<T &>: the future of a call refers to the yielded object inside the frame; it may be dereferenced only until the
    // next access resumes the body (or the generator is destroyed). The harness does not read a stale one (`stale`).
    static constexpr bool is_ref = std::is_reference_v<typename G::future_t::value_type>;
    bool fut_fresh = false;
    // the kept `auto n = gen.next(a)` object
    std::optional<typename G::next_awt> kept;
    std::atomic<bool> kept_true{false};   // a consultation has answered true (next_awt::_state as far as a consumer can know it)
    bool karg_valid = false;              // no other access has started since `keep a` stored the reference to its argument
    bool stale() const { return is_ref && !fut_fresh; }

    // the consumer's callback awaiter (one per case; `_caller` points at it while a subscribe access is outstanding)
    struct Cb : awaiter {
        Case *c = nullptr;
        int remaining = 0;
        int arg = 0;
        Cb() { VN_awaiter_set_resume_fn(&Cb::fn, nullptr); }
        static suspend_point<void> fn(awaiter *me, void *) noexcept {
            auto self = static_cast<Cb *>(me);
            self->c->on_notify(*self);
            return {};
        }
    };
    Cb cb;
    void issue_sub(int a) {
        parked.store(true);
        try {
            if constexpr (has_arg) {
                args.push_back(a);
                gen->next(args.back()).subscribe(&cb);
            } else {
                gen->next().subscribe(&cb);
            }
        } catch (const no_more_values_exception &) {
            parked.store(false);
            stuck.store(true);
            ev("sub=nomore");
        }
    }
    // called by the generator, from inside yield_suspend::await_suspend, on whatever thread ran the body
    void on_notify(Cb &b) {
        parked.store(false);
        std::string r = gen->done() ? std::string("false") : value_str();
        ev("sub=" + r);
        if (r.rfind("v:", 0) == 0 && b.remaining > 0) {
            b.remaining--;
            b.arg++;
            issue_sub(b.arg);   // re-entrant: the next access is issued before the notification returns
        }
    }

    bool inflight() { return parked.load() || (fut && !fut->ready()); }
    bool busy() { return inflight() || stuck.load(); }

    int &arg_of(const std::vector<std::string> &w) {
        args.push_back(w.size() > 1 ? atoi(w[1].c_str()) : 0);
        return args.back();
    }

    ctask c_anext(int *argp) {
        try {
            bool b;
            if constexpr (has_arg) b = co_await gen->next(*argp);
            else b = co_await gen->next();
            parked.store(false);
            ev(b ? "anext=true" : "anext=false");
        } catch (const no_more_values_exception &) {
            parked.store(false);
            stuck.store(true);
            ev("anext=nomore");
        }
    }
    // `co_await n` on an lvalue must use n itself as the awaiter ([expr.await]); g++ 12 copies an lvalue awaiter into the frame, so the
    // three awaiter functions are forwarded to the kept object explicitly (the same calls the standard prescribes)
    struct kept_ref {
        typename G::next_awt *n;
        bool await_ready() { return n->await_ready(); }
        std::coroutine_handle<> await_suspend(std::coroutine_handle<> h) { return n->await_suspend(h); }
        bool await_resume() { return n->await_resume(); }
    };
    ctask c_kawait() {
        try {
            bool b = co_await kept_ref{&*kept};
            parked.store(false);
            kept_true.store(b);   // await_resume stores `_state = !done()`
            ev(b ? "kawait=true" : "kawait=false");
        } catch (const no_more_values_exception &) {
            parked.store(false);
            stuck.store(true);
            ev("kawait=nomore");
        }
    }
    ctask c_fawait(fut_t *f) {
        std::string r;
        try {
            auto &v = co_await *f;
            r = "v:" + vstr(v);
        } catch (const await_canceled_exception &) {
            r = "novalue";
        } catch (const test_exc &) {
            r = "exc";
        } catch (const no_more_values_exception &) {
            r = "nomore";
        } catch (const value_not_ready_exception &) {
            r = "notready";
        }
        reader.store(false);
        ev("fawait=" + r);
    }
    ctask c_fhas(fut_t *f) {
        bool b = co_await f->has_value();
        reader.store(false);
        ev(b ? "fhas=true" : "fhas=false");
    }

    // `co <op>`: the operation is made by a consumer coroutine running in coroutine mode (it went through the coroutine queue of
    // its thread at least once: co_await pause() re-enqueues and resumes it)
    template <typename Fn>
    ctask c_inside(Fn *fn) {
        co_await cocls::pause();
        (*fn)();
    }
    template <typename Fn>
    void in_coroutine(Fn &&fn) {
        coro_queue::install_queue_and_call([&] { c_inside(&fn); });
    }

    std::string value_str() {
        try {
            return "v:" + vstr(gen->value());
        } catch (const test_exc &) {
            return "exc";
        } catch (const value_not_ready_exception &) {
            return "notready";
        } catch (const no_more_values_exception &) {
            return "nomore";
        }
    }

    // bool(gen.next(a)) on the consumer thread, the helper thread serving awaited operations
    std::string sync_next(int *argp, bool negated = false) {
        Blocking blk;
        try {
            bool b;
            if (negated) {   // next_awt::operator!
                if constexpr (has_arg) b = !(!gen->next(*argp));
                else b = !(!gen->next());
            } else if constexpr (has_arg) b = bool(gen->next(*argp));
            else b = bool(gen->next());
            return b ? "true" : "false";
        } catch (const no_more_values_exception &) {
            return "nomore";
        }
    }

    void drain() {   // let every outstanding access finish (consumer thread completes what the body awaits)
        for (int guard = 0; inflight() && guard < 1000; ++guard) {
            int k = g_helper->peek_waiting();
            if (k < 0) break;
            aw.complete(g_helper->take_waiting(k));
        }
    }

    void run(std::istream &in) {
        g_tab = &tab;
        g_helper->aw = &aw;
        std::string line;
        while (std::getline(in, line)) {
            wd_tick++;
            auto w = vh::split(line);
            if (w.empty()) continue;
            std::ostringstream head;
            bool co = false;
            if (w[0] == "co" && w.size() > 1 && (gen || gone)) {
                co = true;
                w.erase(w.begin());
                head << "co ";
            }
            const std::string &op = w[0];
            // no generator yet (an input without its `script` line, e.g. while a failing case is being shrunk): nothing to operate on,
            // no output line (the model driver ignores such lines as well)
            if (!gen && !gone && op != "script") {
                if (op == "end") return;
                continue;
            }
            head << op;
            static const char *const access_ops[] = {"next", "nnext", "anext", "sub", "subr", "call", "while", "begin", "beginc", "inc", "pinc", "for"};
            static const char *const iter_ops[] = {"begin", "beginc", "inc", "pinc", "for"};
            auto among = [&](const char *const *b, const char *const *e) { return std::find_if(b, e, [&](const char *a) { return op == a; }) != e; };
            // a consultation of the kept object is an access unless the object has answered true before (co_await always is one)
            const bool k_access = kept && (op == "kawait" || ((op == "ktest" || op == "knot") && !kept_true.load()));
            const bool is_access = (among(std::begin(access_ops), std::end(access_ops)) && (has_iter || !among(std::begin(iter_ops), std::end(iter_ops)))) || k_access;
            const bool passes = is_access && !gone && gen && !busy();
            if (passes && k_access && has_arg && !karg_valid) {
                // the reference stored by keep has been consumed (cleared at a co_yield) or replaced: consulting n now is misuse
                head << " stale";
                vh::emit(head.str(), evs);
                continue;
            }
            if (passes) {
                fut_fresh = false;    // this access resumes the body (or finds it finished): references handed out before are over
                karg_valid = false;
            }
            if (op == "script") {
                for (std::size_t i = 1; i < w.size(); ++i) {
                    Act a{w[i][0], w[i].size() > 1 ? atoi(w[i].c_str() + 1) : 0};
                    if ((a.kind == 'p' || a.kind == 'f') && (a.v < 0 || a.v >= NK)) a.v = 0;
                    script.push_back(a);
                }
                gen.emplace(body<G>(&script, &aw));
            } else if (op == "end") {
                drain();
                std::string fs = !fut ? "none" : stale() ? "stale" : item_of(*fut);
                gone = true;
                it.reset();
                kept.reset();
                gen.reset();
                fut.reset();
                int once = 0, multi = 0;
                for (int d : tab.dtor) {
                    once += d == 1;
                    multi += d > 1;
                }
                head << " made=" << tab.dtor.size() << " once=" << once << " multi=" << multi << " fut=" << fs;
                vh::emit(head.str(), evs);
                for (int k = 0; k < NK; ++k) aw.complete(k);   // nothing may be left awaiting them
                return;
            } else if (co && (op == "fwait" || op == "fbool" || op == "fnot") && fut && !fut->ready()) {
                head << " would-block";
                vh::emit(head.str(), evs);
                continue;
            }
            auto do_op = [&] {
            if (op == "script") {
            } else if (op == "complete" || op == "tcomplete") {
                int k = w.size() > 1 ? atoi(w[1].c_str()) : 0;
                if (k < 0 || k >= NK) k = 0;
                g_helper->take_waiting(k);
                if (op == "complete") aw.complete(k);
                else {
                    std::thread t([&] { aw.complete(k); });
                    t.join();
                }
            } else if (op == "fbool" || op == "fnot") {
                // `if (f)` / `if (!f)`: future::operator bool / operator! -> has_value() -> awaitable_bool::operator bool (blocks while pending)
                if (!fut) head << " nofut";
                else {
                    std::optional<Blocking> blk;
                    if (!fut->ready()) blk.emplace();
                    bool has = op == "fbool" ? bool(*fut) : !(!*fut);
                    head << (has ? " true" : " false");
                }
            } else if (op == "fwait" || op == "fget" || op == "fawait" || op == "fhas") {
                // reading the future obtained by the last call: works whether or not the generator still exists
                if (!fut) head << " nofut";
                else if (stale() && op != "fhas") head << " stale";
                else if (op == "fget") head << " " << item_of(*fut);
                else if (op == "fwait") {
                    // the helper thread serves the body only if this wait really blocks
                    std::optional<Blocking> blk;
                    if (!fut->ready()) blk.emplace();
                    try {
                        auto &v = fut->wait();
                        head << " v:" << vstr(v);
                    } catch (const await_canceled_exception &) {
                        head << " novalue";
                    } catch (const test_exc &) {
                        head << " exc";
                    } catch (const no_more_values_exception &) {
                        head << " nomore";
                    } catch (const value_not_ready_exception &) {
                        head << " notready";
                    }
                } else if (reader.load()) head << " busy";
                else {
                    reader.store(true);
                    if (op == "fawait") c_fawait(fut.get());
                    else c_fhas(fut.get());
                }
            } else if (gone) {
                head << " gone";
            } else if (op == "value") {
                if (inflight()) head << " busy";
                else head << " " << value_str();
            } else if (op == "ktest" || op == "knot" || op == "kawait") {
                if (!kept) head << " nokept";
                else if (op == "kawait") {
                    if (busy()) head << " busy";
                    else {
                        parked.store(true);
                        // the consumer coroutine runs in coroutine mode, like every coroutine of the library does
                        coro_queue::install_queue_and_call([&] { c_kawait(); });
                    }
                } else if (!kept_true.load() && busy()) head << " busy";
                else {
                    std::optional<Blocking> blk;     // (a re-consultation does not ask the generator: the helper thread stays out)
                    if (!kept_true.load()) blk.emplace();
                    try {
                        bool b = op == "ktest" ? bool(*kept) : !(!*kept);
                        if (b) kept_true.store(true);
                        head << (b ? " true" : " false");
                    } catch (const no_more_values_exception &) {
                        head << " nomore";
                    }
                }
            } else if (op == "active") {
                if (inflight()) head << " busy";
                else head << " " << (*gen ? 1 : 0);
            } else if (op == "getid") {
                const void *id = gen->get_id();
                if (!first_id) first_id = id;
                head << (id == nullptr ? " null" : id == first_id ? " ok" : " changed");
            } else if (op == "arrow") {
                if (!it) head << " noit";
                else if (inflight()) head << " busy";
                else if constexpr (has_iter) {
                    try {
                        auto *pv = it->operator->();
                        head << " v:" << vstr(*pv);
                    } catch (const test_exc &) {
                        head << " exc";
                    } catch (const value_not_ready_exception &) {
                        head << " notready";
                    }
                }
            } else if (op == "deref") {
                if (!it) head << " noit";
                else if (inflight()) head << " busy";
                else if constexpr (has_iter) {
                    try {
                        auto &v = **it;
                        head << " v:" << vstr(v);
                    } catch (const test_exc &) {
                        head << " exc";
                    } catch (const value_not_ready_exception &) {
                        head << " notready";
                    }
                }
            } else if (op == "isend") {
                if constexpr (!has_iter) head << " n/a";
                else if (!it) head << " noit";
                else head << " " << (*it == gen->end() ? 1 : 0);
            } else if (op == "destroy") {
                if (inflight()) head << " busy";
                else {
                    gone = true;
                    fut_fresh = false;
                    it.reset();
                    gen.reset();
                }
            } else if (busy()) {
                head << " busy";
            } else if (op == "keep") {
                kept.reset();
                if constexpr (has_arg) kept.emplace(gen->next(arg_of(w)));
                else kept.emplace(gen->next());
                kept_true.store(false);
                karg_valid = true;
            } else if (op == "next") {
                head << " " << sync_next(&arg_of(w));
            } else if (op == "nnext") {
                head << " " << sync_next(&arg_of(w), true);
            } else if (op == "while") {
                Blocking blk;
                int a = w.size() > 1 ? atoi(w[1].c_str()) : 0;
                try {
                    while (*gen) {
                        bool stop;
                        if constexpr (has_arg) {
                            ev("arg=" + std::to_string(a));
                            args.push_back(a++);
                            stop = !gen->next(args.back());
                        } else {
                            stop = !gen->next();
                        }
                        if (stop) break;
                        auto &v = gen->value();
                        head << " v:" << vstr(v);
                    }
                    head << " end";
                } catch (const test_exc &) {
                    head << " exc";
                } catch (const no_more_values_exception &) {
                    head << " nomore";
                } catch (const value_not_ready_exception &) {
                    head << " notready";
                }
            } else if (op == "anext") {
                parked.store(true);
                // the consumer coroutine runs in coroutine mode, like every coroutine of the library does
                coro_queue::install_queue_and_call([&] { c_anext(&arg_of(w)); });
            } else if (op == "sub" || op == "subr") {
                cb.c = this;
                if (op == "sub") {
                    cb.remaining = 0;
                    cb.arg = w.size() > 1 ? atoi(w[1].c_str()) : 0;
                } else {
                    cb.remaining = w.size() > 1 ? atoi(w[1].c_str()) : 0;
                    cb.arg = w.size() > 2 ? atoi(w[2].c_str()) : 0;
                }
                issue_sub(cb.arg);
            } else if (op == "call") {
                try {
                    std::unique_ptr<fut_t> nf;
                    if constexpr (has_arg) nf.reset(new fut_t((*gen)(arg_of(w))));
                    else nf.reset(new fut_t((*gen)()));
                    fut = std::move(nf);
                    fut_fresh = true;
                    head << (fut->ready() ? " ready" : " pending");
                } catch (const no_more_values_exception &) {
                    head << " nomore";
                }
            } else if (op == "begin" || op == "beginc" || op == "inc" || op == "pinc" || op == "for") {
                if constexpr (!has_iter) {
                    head << " n/a";
                } else if (op == "begin" || op == "beginc") {
                    Blocking blk;
                    try {
                        if (op == "begin") it.emplace(gen->begin());
                        else {   // generator_iterator(Generator &): advances like begin() (built aside: a throw must not lose `it`)
                            typename G::iterator fresh(*gen);
                            it.emplace(fresh);
                        }
                        head << " " << (*it != gen->end() ? "true" : "false");
                    } catch (const no_more_values_exception &) {
                        head << " nomore";
                    }
                } else if (op == "for") {
                    Blocking blk;
                    it.reset();
                    try {
                        for (auto &v : *gen) head << " v:" << vstr(v);
                        head << " end";
                    } catch (const test_exc &) {
                        head << " exc";
                    } catch (const no_more_values_exception &) {
                        head << " nomore";
                    } catch (const value_not_ready_exception &) {
                        head << " notready";
                    }
                } else if (!it) {
                    head << " noit";
                } else if (op == "inc") {
                    Blocking blk;
                    try {
                        ++*it;
                        head << " " << (*it != gen->end() ? "true" : "false");
                    } catch (const no_more_values_exception &) {
                        head << " nomore";
                    }
                } else {   // pinc
                    Blocking blk;
                    try {
                        auto st = (*it)++;
                        // (storage::operator* / operator-> of iterator.h do not compile when instantiated: they return
                        //  non-const references to a member from const functions; the stored value is read directly)
                        head << " v:" << vstr(st._v) << " " << (*it != gen->end() ? "true" : "false");
                    } catch (const test_exc &) {
                        head << " exc";
                    } catch (const value_not_ready_exception &) {
                        head << " notready";
                    } catch (const no_more_values_exception &) {
                        head << " nomore";
                    }
                }
            } else {
                head << " bad-op";
            }
            };
            if (co) in_coroutine(do_op);
            else do_op();
            vh::emit(head.str(), evs);
        }
    }
};

}  // namespace

int main(int argc, char **argv) {
    std::ios::sync_with_stdio(false);
    for (int i = 1; i + 1 < argc; ++i)
        if (std::string(argv[i]) == "--hangfile") hangfile = argv[i + 1];
    g_helper = new Helper();   // never destroyed: its thread waits on it for the whole process lifetime
    Helper &helper = *g_helper;
    std::thread(watchdog).detach();
    std::string line;
    while (std::getline(std::cin, line)) {
        auto w = vh::split(line);
        if (w.empty() || w[0] != "case") continue;
        wd_tick++;
        std::cout << "case " << w[1] << "\n";
        if (hang_marks() >= HANG_BUDGET) {
            std::cout << "skipped hang-budget\n";
            continue;   // the lines of the case are skipped by the loop (no `case` keyword)
        }
        helper.delay = w.size() > 3 ? atoi(w[3].c_str()) : 0;
        {
            std::lock_guard<std::mutex> lk(helper.mx);
            helper.waiting = -1;
        }
        const std::string mode = w.size() > 2 ? w[2] : "v";
        if (mode == "a") {
            auto c = std::make_unique<Case<gen_a>>();
            c->run(std::cin);
        } else if (mode == "ra") {
            auto c = std::make_unique<Case<gen_ra>>();
            c->run(std::cin);
        } else if (mode == "rv") {
            auto c = std::make_unique<Case<gen_rv>>();
            c->run(std::cin);
        } else if (mode == "sv") {
            auto c = std::make_unique<Case<gen_sv>>();
            c->run(std::cin);
        } else if (mode == "sa") {
            auto c = std::make_unique<Case<gen_sa>>();
            c->run(std::cin);
        } else {
            auto c = std::make_unique<Case<gen_v>>();
            c->run(std::cin);
        }
        std::cout.flush();
    }
    wd_tick = -1000000;
    return 0;
}
