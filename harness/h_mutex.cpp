// T-harness for cocls::mutex (C07, C08): contenders on real threads under the baton scheduler, one scheduling
// point after every atomic operation of the unmodified header plus one inside every critical section.
// The contenders work through `mutex::ownership` objects: every grant is stored into an ownership object (the contender's
// own one or a slot shared by all contenders, which the mutex itself guards) and given up through that object.
//
//   case <id> mutex        (kind `mutexp`: additionally, after every operation line, a digest line of the REAL pointer state:
//                           `p req=<ptr> queue=<ptr> | <node>><ptr> ...` = `_requests`, `_queue` and `_next` of every request node
//                           the harness knows to be alive - published by a successful CAS of its owner, owner not yet past its
//                           acquisition -, sorted; ptr = null | door | n<agent>.<key> | ?; compared with lean/Drivers/C08P.lean)
//   t sync <round>...      a contender that is an ordinary thread
//   t coro <round>...      a contender that is a coroutine (started on its own thread, continues wherever it is resumed)
//   sched <tid>...
//   end
//
//   round = <fl><rel><opt>*
//     fl   l  blocking lock (`lock().wait()`); in a coroutine contender: issued by an ordinary helper function called from the
//             running coroutine (`wait()` where it is legal, i.e. the mutex is free, `force_wait()` otherwise)
//          t  `try_lock()`
//          c  `co_await lock()`                                   (coroutine contenders only)
//          k  callback awaiter registered with `co_awaiter<mutex>::subscribe()`, granted inline by the releasing party
//                                                                 (thread contenders only)
//     rel  x  `release()`, suspend point discarded      d  ownership destroyed (shared slot: an empty ownership is assigned)
//          a  `co_await release()`  (coroutines only)   m  ownership moved into a temporary (move construction), which is destroyed
//          g  hand-over-hand: the ownership of the contender's auxiliary mutex is move-assigned over the held one
//             (own object only); the auxiliary mutex is released at the end of the round
//     opt  s  the ownership lives in the shared slot     f  `force_wait()` spelling     o  `ownership own(mx.lock())` spelling
//          r  (rel x) `release()` is called a second time on the emptied object
//          u  callback registered with `co_awaiter::await_suspend(resume_fn, ctx)` instead of `subscribe(awaiter *)`
#include "shim/verif_shim.h"
#include "shim/rename_on.h"
#include <cocls/future.h>
#include <cocls/async.h>
#include <cocls/mutex.h>
#include "shim/rename_off.h"
#include <sys/wait.h>
#include <alloca.h>

namespace cocls { using mutex_t = verif_mutex; }
using namespace cocls;
using vshim::S;

static std::vector<std::string> split(const std::string &s) {
    std::vector<std::string> o;
    std::istringstream is(s);
    std::string t;
    while (is >> t) o.push_back(t);
    return o;
}

static bool has_opt(const std::string &rd, char c) { return rd.find(c, 2) != std::string::npos; }

struct Scn {
    mutex_t mx;
    mutex_t::ownership slot;            // shared ownership object: touched only by the current owner of mx
    std::deque<mutex_t> aux;            // one private auxiliary mutex per contender
    int in_cs = 0;
    std::vector<int> rounds_done;

    void log(const std::string &s) { S().log_line(s); }

    // ---- kind `mutexp`: digest of the real pointer state after every operation line ----
    // canonical names: a request node is named when its owner's publishing CAS succeeded (`_requests` holds its address at
    // that moment) as n<agent>.<key>, key = 0 for the awaiter of `co_await lock()` / of a callback request (same place in every
    // round), round + 1 for the sync_awaiter of a blocking lock (the model's `keyOf`); it is forgotten when its owner enters crit()
    // (from then on the awaiter may be gone and must not be read).
    bool digest_on = false;
    std::vector<std::vector<std::string>> specs;
    std::map<const void *, std::pair<int, int>> node_of;      // address -> (agent, key)
    std::string pname(const void *p) {
        if (!p) return "null";
        if (p == &awaiter::instance) return "door";
        auto it = node_of.find(p);
        if (it == node_of.end()) return "?";
        return "n" + std::to_string(it->second.first) + "." + std::to_string(it->second.second);
    }
    void forget_node(int a) {
        for (auto it = node_of.begin(); it != node_of.end();)
            if (it->second.first == a) it = node_of.erase(it); else ++it;
    }
    // called with every complete output line of the scheduler
    void on_line(const std::string &l) {
        if (l.size() < 2 || l[0] != 's' || l[1] != ' ') return;
        auto w = split(l);
        if (w.size() < 4 || w[2][0] != 'a') return;               // `s <tid> fin`
        if (w.size() >= 6 && w[3] == "cas+" && w[4] == "req" && w[5].size() > 4 && w[5].compare(w[5].size() - 4, 4, ">ptr") == 0) {
            int a = atoi(w[2].c_str() + 1);
            int r = rounds_done[a];
            char fl = specs[a][2 + r][0];
            node_of[mx.VN_mutex__requests.raw()] = {a, (fl == 'c' || fl == 'k') ? 0 : r + 1};
        }
        std::vector<std::pair<std::pair<int, int>, const awaiter *>> known;
        for (auto &kv : node_of) known.push_back({kv.second, static_cast<const awaiter *>(kv.first)});
        std::sort(known.begin(), known.end());
        std::string d = "p req=" + pname(mx.VN_mutex__requests.raw()) + " queue=" + pname(mx.VN_mutex__queue) + " |";
        for (auto &k : known)
            d += " n" + std::to_string(k.first.first) + "." + std::to_string(k.first.second) + ">" + pname(k.second->_next);
        std::cout << d << "\n";
    }
    struct LineBuf : std::streambuf {
        Scn *scn = nullptr;
        std::string line;
        int overflow(int ch) override {
            if (ch == '\n') {
                std::string l;
                l.swap(line);
                std::cout << l << "\n";
                scn->on_line(l);
            } else if (ch != EOF) line.push_back(static_cast<char>(ch));
            return ch == EOF ? 0 : ch;
        }
    };
    LineBuf linebuf;
    std::ostream lineout{&linebuf};

    void crit(int a, int r) {
        vshim::Sched::tag() = a;
        if (digest_on) forget_node(a);
        ++in_cs;
        log("cs a" + std::to_string(a) + " r" + std::to_string(r) + (in_cs > 1 ? " OVERLAP" : ""));
        S().log_op("cs");
        S().yield();
        --in_cs;
        vshim::Sched::tag() = a;
    }

    // give the ownership held in *o up (everything but the awaited release)
    void give_up(int a, mutex_t::ownership *o, const std::string &rd, bool shared) {
        switch (rd[1]) {
            case 'x': o->release(); if (has_opt(rd, 'r') && !shared) o->release(); break;   // 'r': a second release() of the (now empty) own object is a no-op
            case 'd': if (shared) *o = mutex_t::ownership(); break;        // own object: destroyed at the end of the round
            case 'm': { mutex_t::ownership tmp(std::move(*o)); } break;
            case 'g': *o = aux[a].try_lock(); break;
            default: break;
        }
    }

    // blocking lock, spelled as the round asks; `in_coro`: the caller is an ordinary function running inside a coroutine
    __attribute__((noinline)) void do_blocking_lock(mutex_t::ownership *o, const std::string &rd, bool in_coro) {
        bool legal_wait = !in_coro || mx.VN_mutex__requests.raw() == nullptr;   // wait() asserts in a coroutine unless there is nothing to wait for
        if (has_opt(rd, 'f') || !legal_wait) *o = mx.lock().force_wait();
        else if (has_opt(rd, 'o')) { mutex_t::ownership own(mx.lock()); *o = std::move(own); }
        else *o = mx.lock().wait();
    }
    // The stack is padded by the round number before the (not inlined) function that contains the library's sync_awaiter is
    // called: the sync_awaiter of every round of a contender has an address of its own (a stale expected value of another
    // contender's publishing CAS cannot meet it; the model's `keyOf`). The unit is larger than any difference of call depth
    // between two rounds (a coroutine is resumed from different places).
    void blocking_lock(mutex_t::ownership *o, const std::string &rd, bool in_coro, int r) {
        volatile char *pad = static_cast<volatile char *>(alloca(256 * 1024 * (r + 1)));
        pad[0] = 0;
        do_blocking_lock(o, rd, in_coro);
        pad[1] = 0;
    }

    async<void> coro_contender(int a, std::vector<std::string> rounds) {
        int r = 0;
        for (auto &rd : rounds) {
            {
                vshim::Sched::tag() = a;
                bool shared = has_opt(rd, 's');
                mutex_t::ownership own;
                mutex_t::ownership *o = shared ? &slot : &own;
                if (rd[0] == 't') {
                    mutex_t::ownership got = mx.try_lock();     // the shared slot may be touched by the owner only
                    if (!got) { log("try-fail a" + std::to_string(a) + " r" + std::to_string(r)); rounds_done[a]++; r++; continue; }
                    *o = std::move(got);
                } else if (rd[0] == 'l') {
                    blocking_lock(o, rd, true, r);
                } else {
                    *o = co_await mx.lock();
                }
                crit(a, r);
                if (rd[1] == 'a') { co_await o->release(); }
                else give_up(a, o, rd, shared);
                vshim::Sched::tag() = a;
            }
            vshim::Sched::tag() = a;
            rounds_done[a]++;
            r++;
        }
        log("done a" + std::to_string(a));
    }

    // the lock request of a callback contender; the object itself is the awaiter that gets published (same address for both
    // spellings: `subscribe(awaiter *)` with the object armed by hand, `await_suspend(resume_fn, ctx)`)
    struct CbAw : co_awaiter<mutex_t> {
        CbAw(co_awaiter<mutex_t> &&req, mutex_t::ownership *o) : co_awaiter<mutex_t>(req), o(o) {}
        static suspend_point<void> granted(awaiter *, void *ctx) noexcept {
            auto me = static_cast<CbAw *>(ctx);
            *me->o = me->await_resume();    // runs inside the previous owner's unlock()
            me->got = true;
            return {};
        }
        void arm() { VN_awaiter_set_resume_fn(&granted, this); }
        mutex_t::ownership *o;
        bool got = false;
    };

    void sync_contender(int a, std::vector<std::string> rounds) {
        int r = 0;
        for (auto &rd : rounds) {
            {
                bool shared = has_opt(rd, 's');
                mutex_t::ownership own;
                mutex_t::ownership *o = shared ? &slot : &own;
                vshim::Sched::tag() = a;
                if (rd[0] == 't') {
                    mutex_t::ownership got = mx.try_lock();     // the shared slot may be touched by the owner only
                    if (!got) { log("try-fail a" + std::to_string(a) + " r" + std::to_string(r)); rounds_done[a]++; r++; continue; }
                    *o = std::move(got);
                } else if (rd[0] == 'k') {
                    CbAw cb(mx.lock(), o);
                    bool queued;
                    if (has_opt(rd, 'u')) queued = !cb.await_ready() && cb.await_suspend(&CbAw::granted, &cb);
                    else { cb.arm(); queued = !cb.await_ready() && cb.subscribe(&cb); }
                    if (!queued) {
                        *o = cb.await_resume();
                    } else {
                        bool *g = &cb.got;
                        if (!*g) { S().log_op("cb-block"); S().block([g] { return *g; }); }
                        S().log_op("cb-pass");
                        S().yield();
                    }
                } else {
                    blocking_lock(o, rd, false, r);
                }
                crit(a, r);
                give_up(a, o, rd, shared);
                vshim::Sched::tag() = a;
            }
            rounds_done[a]++;
            r++;
        }
        log("done a" + std::to_string(a));
    }

    void run(const std::vector<std::vector<std::string>> &threads, const std::vector<int> &sched, bool digest) {
        digest_on = digest;
        specs = threads;
        std::ostream *saved_out = S().out;
        if (digest) { linebuf.scn = this; S().out = &lineout; }
        struct Restore { std::ostream *o; ~Restore() { S().out = o; } } restore{saved_out};
        S().name_obj(&mx.VN_mutex__requests, "req");
        S().name_ptr(&awaiter::instance, "door");
        rounds_done.assign(threads.size(), 0);
        for (std::size_t i = 0; i < threads.size(); i++) { aux.emplace_back(); S().name_obj(&aux.back().VN_mutex__requests, "aux"); }
        int tid = 0;
        for (auto &t : threads) {
            std::vector<std::string> rounds(t.begin() + 2, t.end());
            if (t[1] == "coro") S().spawn([this, tid, rounds] { coro_contender(tid, rounds).detach(); });
            else S().spawn([this, tid, rounds] { sync_contender(tid, rounds); });
            tid++;
        }
        bool ok = S().run(sched);
        if (!ok) {
            log("deadlock");
            log("end");
            std::cout.flush();
            _exit(0);
        }
        std::string rq = mx.VN_mutex__requests.raw() == nullptr ? "free" : (mx.VN_mutex__requests.raw() == &awaiter::instance ? "locked" : "chain");
        bool aux_free = true;
        for (auto &m : aux) if (m.VN_mutex__requests.raw() != nullptr) aux_free = false;
        log("final req=" + rq + " queue=" + (mx.VN_mutex__queue ? "nonempty" : "empty") + " slot=" + (slot ? "armed" : "empty") +
            " aux=" + (aux_free ? "free" : "locked"));
        for (std::size_t i = 0; i < threads.size(); i++)
            log("agent a" + std::to_string(i) + " rounds=" + std::to_string(rounds_done[i]) + "/" + std::to_string(threads[i].size() - 2));
        if (mx.VN_mutex__requests.raw() != nullptr || mx.VN_mutex__queue || slot || !aux_free) { log("end"); std::cout.flush(); _exit(0); }
    }
};

static void run_case(const std::vector<std::vector<std::string>> &lines, bool digest) {
    std::vector<std::vector<std::string>> threads;
    std::vector<int> sched;
    for (auto &w : lines) {
        if (w[0] == "t") threads.push_back(w);
        else if (w[0] == "sched") for (std::size_t i = 1; i < w.size(); i++) sched.push_back(atoi(w[i].c_str()));
    }
    {
        Scn s;
        s.run(threads, sched, digest);
    }
    S().log_line("end");
}

int main() {
    std::string line;
    std::vector<std::string> hdr;
    std::vector<std::vector<std::string>> lines;
    while (std::getline(std::cin, line)) {
        auto w = split(line);
        if (w.empty()) continue;
        if (w[0] == "case") { hdr = w; lines.clear(); continue; }
        if (w[0] != "end") { lines.push_back(w); continue; }
        std::cout << "case " << hdr[1] << std::endl;
        pid_t pid = fork();
        if (pid == 0) {
            alarm(20);
            run_case(lines, hdr.size() > 2 && hdr[2] == "mutexp");
            std::cout.flush();
            _exit(0);
        }
        int st = 0;
        waitpid(pid, &st, 0);
        if (!(WIFEXITED(st) && WEXITSTATUS(st) == 0)) {
            if (WIFEXITED(st) && WEXITSTATUS(st) == 3) { /* assertion already reported */ }
            else {
                std::cout << "crash " << (WIFSIGNALED(st) ? "signal " + std::to_string(WTERMSIG(st)) : "exit " + std::to_string(WEXITSTATUS(st))) << "\n";
                std::cout << "end" << std::endl;
            }
        }
    }
    return 0;
}
