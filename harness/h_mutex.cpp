// T-harness for cocls::mutex (C07, C08): contenders on real threads under the baton scheduler, one scheduling
// point after every atomic operation of the unmodified header plus one inside every critical section.
//
//   case <id> mutex
//   t sync <round>...      round = l<rel> (blocking lock().wait()) | t<rel> (try_lock);  rel = x (release(), discarded) | d (ownership destroyed)
//   t coro <round>...      round = c<rel> (co_await lock());  rel = x | d | a (co_await release())
//   sched <tid>...
//   end
#include "shim/verif_shim.h"
#include "shim/rename_on.h"
#include <cocls/future.h>
#include <cocls/async.h>
#include <cocls/mutex.h>
#include "shim/rename_off.h"
#include <sys/wait.h>

namespace cocls { using mutex_t = verif_mutex; }
using namespace cocls;
using vshim::S;

static std::vector<std::string> split(const std::string &s) {
    std::vector<std::string> o;
    std::istringstream is(s);
    std::string t;
    while (is >> t) o.push_back(t);
    return o;
}

struct Scn {
    mutex_t mx;
    int in_cs = 0;
    std::vector<int> rounds_done;
    std::vector<int> resumes;   // per coroutine contender: how many times it acquired

    void log(const std::string &s) { S().log_line(s); }

    void crit(int a, int r) {
        vshim::Sched::tag() = a;
        ++in_cs;
        log("cs a" + std::to_string(a) + " r" + std::to_string(r) + (in_cs > 1 ? " OVERLAP" : ""));
        S().log_op("cs");
        S().yield();
        --in_cs;
        vshim::Sched::tag() = a;
    }

    async<void> coro_contender(int a, std::vector<std::string> rounds) {
        int r = 0;
        for (auto &rd : rounds) {
            {
                vshim::Sched::tag() = a;
                mutex_t::ownership own = co_await mx.lock();
                crit(a, r);
                if (rd[1] == 'x') { own.release(); }
                else if (rd[1] == 'a') { co_await own.release(); }
                // 'd': destroyed at scope exit
            }
            vshim::Sched::tag() = a;
            rounds_done[a]++;
            r++;
        }
        log("done a" + std::to_string(a));
    }

    void sync_contender(int a, std::vector<std::string> rounds) {
        int r = 0;
        for (auto &rd : rounds) {
            {
                mutex_t::ownership own;
                vshim::Sched::tag() = a;
                if (rd[0] == 't') {
                    own = mx.try_lock();
                    if (!own) { log("try-fail a" + std::to_string(a) + " r" + std::to_string(r)); rounds_done[a]++; r++; continue; }
                } else {
                    own = mx.lock().wait();
                }
                crit(a, r);
                if (rd[1] == 'x') { own.release(); }
            }
            rounds_done[a]++;
            r++;
        }
        log("done a" + std::to_string(a));
    }

    void run(const std::vector<std::vector<std::string>> &threads, const std::vector<int> &sched) {
        S().name_obj(&mx._requests, "req");
        S().name_ptr(&awaiter::instance, "door");
        rounds_done.assign(threads.size(), 0);
        int tid = 0;
        for (auto &t : threads) {
            std::vector<std::string> rounds(t.begin() + 2, t.end());
            if (t[1] == "coro") S().spawn([this, tid, rounds] { coro_contender(tid, rounds).detach(); });
            else S().spawn([this, tid, rounds] { sync_contender(tid, rounds); });
            tid++;
        }
        bool ok = S().run(sched);
        if (!ok) {
            log("deadlock");
            log("end");
            std::cout.flush();
            _exit(0);
        }
        std::string rq = mx._requests.raw() == nullptr ? "free" : (mx._requests.raw() == &awaiter::instance ? "locked" : "chain");
        log("final req=" + rq + " queue=" + (mx._queue ? "nonempty" : "empty"));
        for (std::size_t i = 0; i < threads.size(); i++)
            log("agent a" + std::to_string(i) + " rounds=" + std::to_string(rounds_done[i]) + "/" + std::to_string(threads[i].size() - 2));
        if (mx._requests.raw() != nullptr || mx._queue) { log("end"); std::cout.flush(); _exit(0); }
    }
};

static void run_case(const std::vector<std::vector<std::string>> &lines) {
    std::vector<std::vector<std::string>> threads;
    std::vector<int> sched;
    for (auto &w : lines) {
        if (w[0] == "t") threads.push_back(w);
        else if (w[0] == "sched") for (std::size_t i = 1; i < w.size(); i++) sched.push_back(atoi(w[i].c_str()));
    }
    {
        Scn s;
        s.run(threads, sched);
    }
    S().log_line("end");
}

int main() {
    std::string line;
    std::vector<std::string> hdr;
    std::vector<std::vector<std::string>> lines;
    while (std::getline(std::cin, line)) {
        auto w = split(line);
        if (w.empty()) continue;
        if (w[0] == "case") { hdr = w; lines.clear(); continue; }
        if (w[0] != "end") { lines.push_back(w); continue; }
        std::cout << "case " << hdr[1] << std::endl;
        pid_t pid = fork();
        if (pid == 0) {
            alarm(20);
            run_case(lines);
            std::cout.flush();
            _exit(0);
        }
        int st = 0;
        waitpid(pid, &st, 0);
        if (!(WIFEXITED(st) && WEXITSTATUS(st) == 0)) {
            if (WIFEXITED(st) && WEXITSTATUS(st) == 3) { /* assertion already reported */ }
            else {
                std::cout << "crash " << (WIFSIGNALED(st) ? "signal " + std::to_string(WTERMSIG(st)) : "exit " + std::to_string(WEXITSTATUS(st))) << "\n";
                std::cout << "end" << std::endl;
            }
        }
    }
    return 0;
}
