// ThreadSanitizer scenario set for C03 — the *search* engine only (TSan never decides the property).
// Real threads, no baton. One scenario per cross-thread API pair; each prints `scenario <name> done`.
// Build: g++ -std=c++20 -O1 -g -fsanitize=thread -I/repo/src  (see checks/c03.py)
//
// Both TSan runtimes in this image ignore std::atomic_thread_fence and therefore report a FALSE race on the
// "relaxed/failed CAS; acquire fence; read" idiom of awaiter::subscribe_check_ready. The pass-through wrapper
// below remembers the address of the last atomic a thread operated on and turns an acquire fence into
// __tsan_acquire(that address), which is what the fence means for that idiom.
#include <algorithm>
#include <atomic>
#include <cassert>
#include <chrono>
#include <condition_variable>
#include <coroutine>
#include <cstdint>
#include <cstdio>
#include <cstring>
#include <deque>
#include <functional>
#include <iostream>
#include <memory>
#include <mutex>
#include <optional>
#include <queue>
#include <stop_token>
#include <string>
#include <thread>
#include <variant>
#include <vector>

extern "C" void __tsan_acquire(void *addr);
extern "C" void __tsan_release(void *addr);

namespace std {
inline thread_local void *verif_last_atomic = nullptr;
template <typename T>
class tsan_atomic : public std::atomic<T> {
    using B = std::atomic<T>;
    void note() const { verif_last_atomic = const_cast<tsan_atomic *>(this); }

public:
    using B::B;
    tsan_atomic() = default;
    T operator=(T v) noexcept { note(); return B::operator=(v); }
    operator T() const noexcept { note(); return B::load(); }
    T load(std::memory_order o = std::memory_order_seq_cst) const noexcept { note(); return B::load(o); }
    void store(T v, std::memory_order o = std::memory_order_seq_cst) noexcept { note(); B::store(v, o); }
    T exchange(T v, std::memory_order o = std::memory_order_seq_cst) noexcept { note(); return B::exchange(v, o); }
    bool compare_exchange_weak(T &e, T d, std::memory_order o = std::memory_order_seq_cst) noexcept { note(); return B::compare_exchange_weak(e, d, o); }
    bool compare_exchange_weak(T &e, T d, std::memory_order a, std::memory_order b) noexcept { note(); return B::compare_exchange_weak(e, d, a, b); }
    bool compare_exchange_strong(T &e, T d, std::memory_order o = std::memory_order_seq_cst) noexcept { note(); return B::compare_exchange_strong(e, d, o); }
    bool compare_exchange_strong(T &e, T d, std::memory_order a, std::memory_order b) noexcept { note(); return B::compare_exchange_strong(e, d, a, b); }
};
inline void verif_fence(std::memory_order o) noexcept {
    if ((o == std::memory_order_acquire || o == std::memory_order_acq_rel || o == std::memory_order_seq_cst) && verif_last_atomic)
        __tsan_acquire(verif_last_atomic);
    std::atomic_thread_fence(o);
}
}  // namespace std

#define atomic tsan_atomic
#define atomic_thread_fence verif_fence
#include <cocls/future.h>
#include <cocls/async.h>
#include <cocls/mutex.h>
#include <cocls/queue.h>
#include <cocls/thread_pool.h>
#include <cocls/scheduler.h>
#include <cocls/publisher.h>
#include <cocls/coro_storage.h>
#include <cocls/generator.h>
#include <cocls/signal.h>
#include <cocls/shared_future.h>
#undef atomic
#undef atomic_thread_fence

using namespace cocls;

static int ITER = 200;
// the sink is written by several scenario threads at once: it must not be a race of the harness itself (a ThreadSanitizer report on it
// was once taken for a finding under load); a relaxed RMW adds no happens-before edge, so it cannot hide a race of the library either
static std::atomic<long> g_sink{0};
#define SINK(x) (g_sink.fetch_add((long)(x), std::memory_order_relaxed))
struct start_gate {
    std::atomic<int> n{0};
    int want;
    explicit start_gate(int w) : want(w) {}
    void arrive() { n.fetch_add(1); while (n.load() < want) std::this_thread::yield(); }
};

struct payload {
    long a = 0, b = 0, c = 0;
    payload() = default;
    explicit payload(long x) : a(x), b(x + 1), c(x + 2) {}
    long sum() const { return a + b + c; }
};

// 1. resolve vs ready()/value() polling
static void sc_future_poll() {
    for (int i = 0; i < ITER; i++) {
        future<payload> f;
        promise<payload> p = f.get_promise();
        std::thread t([&] { p(payload(i)); });
        while (!f.ready()) std::this_thread::yield();
        volatile long s = f.value().sum();
        (void)s;
        t.join();
    }
}

// 1b. resolve vs non-blocking has_value() / operator bool / operator! of a future another thread has already resolved: whatever tells
// the poller "resolved" must be an acquire load (ready()), never the relaxed hint pending()
static void sc_future_has_value() {
    for (int i = 0; i < ITER; i++) {
        future<payload> f;
        promise<payload> p = f.get_promise();
        std::thread t([&] { p(payload(i)); });
        while (f.pending()) std::this_thread::yield();
        bool hv = (i % 3 == 0) ? static_cast<bool>(f.has_value()) : (i % 3 == 1) ? static_cast<bool>(f) : !!f;
        if (hv) { volatile long s = f.value().sum(); (void)s; }
        t.join();
    }
}

static async<void> await_coro(future<payload> &f, std::atomic<int> &done) {
    try {
        payload &v = co_await f;
        volatile long s = v.sum();
        (void)s;
    } catch (...) {
    }
    done.fetch_add(1);
}

// 2. resolve vs co_await / wait() / has_value from other threads (all subscribe paths)
static void sc_future_await() {
    for (int i = 0; i < ITER; i++) {
        future<payload> f;
        promise<payload> p = f.get_promise();
        std::atomic<int> done{0};
        std::thread t1([&] { await_coro(f, done).detach(); });
        std::thread t2([&] {
            try {
                volatile long s = f.wait().sum();
                (void)s;
            } catch (...) {
            }
            done.fetch_add(1);
        });
        std::thread t3([&] {
            if (i % 3 == 0) std::this_thread::yield();
            if (i % 2) p(payload(i)); else p(std::make_exception_ptr(std::runtime_error("x")));
        });
        t1.join(); t2.join(); t3.join();
        while (done.load() < 2) std::this_thread::yield();
    }
}

// 3. competing resolvers + destruction
static void sc_future_compete() {
    for (int i = 0; i < ITER; i++) {
        future<payload> f;
        {
            promise<payload> p = f.get_promise();
            std::thread a([&] { p(payload(1)); });
            std::thread b([&] { p(drop); });
            std::thread c([&] { p(std::make_exception_ptr(std::runtime_error("x"))); });
            a.join(); b.join(); c.join();
        }
        try { volatile long s = f.wait().sum(); (void)s; } catch (...) {}
    }
}

// 4. mutex protecting plain data: coroutine and blocking contenders
static long mx_counter = 0;
static async<void> mx_coro(mutex &mx, int rounds, std::atomic<int> &done) {
    for (int i = 0; i < rounds; i++) {
        auto own = co_await mx.lock();
        mx_counter++;
        own.release();
    }
    done.fetch_add(1);
}
static async<void> mx_coro_g(mutex &mx, int rounds, std::atomic<int> &done, start_gate &g) {
    g.arrive();
    for (int i = 0; i < rounds; i++) {
        auto own = co_await mx.lock();
        mx_counter++;
        if (i % 3 == 0) std::this_thread::yield();
        own.release();
    }
    done.fetch_add(1);
}
static void sc_mutex() {
    for (int i = 0; i < ITER / 4 + 1; i++) {
        mutex mx;
        std::atomic<int> done{0};
        start_gate g(4);
        std::thread a([&] { mx_coro_g(mx, 30, done, g).detach(); });
        std::thread b([&] { mx_coro_g(mx, 30, done, g).detach(); });
        std::thread c([&] {
            g.arrive();
            for (int k = 0; k < 30; k++) {
                mutex::ownership own = mx.lock().wait();
                mx_counter++;
                if (k % 3 == 1) std::this_thread::yield();
            }
            done.fetch_add(1);
        });
        std::thread d([&] {
            g.arrive();
            for (int k = 0; k < 30; k++) {
                auto own = mx.try_lock();
                if (own) mx_counter++;
            }
            done.fetch_add(1);
        });
        a.join(); b.join(); c.join(); d.join();
        while (done.load() < 4) std::this_thread::yield();
    }
}

// 4b. mutex, directed window: a requester is held between its failed try-lock (await_ready) and its registration (subscribe)
// while the owner hands the mutex over through a queued waiter which then releases it: the requester's publishing CAS finds the
// mutex unlocked and it becomes owner through build_queue(). Threads are ordered by sleeping only (nothing TSan could take for a
// happens-before edge). Found by the mutex builder; the pinned code read `_queue` in an assert before the acquire exchange.
static void sc_mutex_window() {
    using namespace std::chrono_literals;
    for (int i = 0; i < ITER / 50 + 1; i++) {
        mutex mx;
        mutex::ownership own = mx.try_lock();
        std::thread t2([&] {
            auto req = mx.lock();
            if (req.await_ready()) { mutex::ownership o = req.await_resume(); mx_counter++; return; }
            std::this_thread::sleep_for(40ms);
            sync_awaiter awt;
            if (req.subscribe(&awt)) awt.flag.wait(false);
            mutex::ownership o = req.await_resume();
            mx_counter++;
        });
        std::thread t3([&] {
            std::this_thread::sleep_for(10ms);
            mutex::ownership o = mx.lock().wait();
            mx_counter++;
        });
        std::this_thread::sleep_for(20ms);
        mx_counter++;
        own.release();
        t2.join();
        t3.join();
    }
}

// 5. queue: producers/consumers
static void sc_queue() {
    for (int i = 0; i < ITER / 10 + 1; i++) {
        queue<payload> q;
        limited_queue<int> lq(2);
        std::thread p1([&] { for (int k = 0; k < 50; k++) q.push(payload(k)); });
        std::thread p2([&] { for (int k = 0; k < 50; k++) { q.push(payload(k)); SINK(q.size()); } });
        std::thread c1([&] { for (int k = 0; k < 50; k++) { volatile long s = q.pop().wait().sum(); (void)s; } });
        std::thread c2([&] { for (int k = 0; k < 50; k++) { volatile long s = q.pop().wait().sum(); (void)s; SINK(q.empty()); } });
        std::thread p3([&] { for (int k = 0; k < 50; k++) lq.push(k).wait(); });
        std::thread c3([&] { for (int k = 0; k < 50; k++) { volatile int s = lq.pop().wait(); (void)s; } });
        p1.join(); p2.join(); c1.join(); c2.join(); p3.join(); c3.join();
    }
}

// 6. thread pool: submissions, current awaiter, stop
static async<void> pool_coro(thread_pool &pool, std::atomic<int> &cnt) {
    try {
        co_await pool;
        cnt.fetch_add(1);
        co_await thread_pool::current();
        cnt.fetch_add(1);
    } catch (...) {
        cnt.fetch_add(100);
    }
}
static void sc_pool() {
    for (int i = 0; i < ITER / 10 + 1; i++) {
        std::atomic<int> cnt{0};
        {
            thread_pool pool(3);
            std::vector<future<int>> unused;
            for (int k = 0; k < 6; k++) pool_coro(pool, cnt).detach();
            auto f = pool.run([&] { return 42; });
            pool.run_detached([&] { cnt.fetch_add(1); });
            std::thread st([&] { if (i % 2) pool.stop(); else SINK(pool.is_stopped()); });
            try { volatile int v = f.wait(); (void)v; } catch (...) {}
            st.join();
        }
    }
}

// 6c. thread pool stopped by two parties at once: a job stops its own pool while the owner stops it too
// (stop() is callable from any thread, incl. a pool thread; the hand-over of the worker handles must be one critical section)
static void sc_pool_double_stop() {
    for (int i = 0; i < ITER / 10 + 1; i++) {
        thread_pool pool(2);
        start_gate g(2);
        std::atomic<bool> job_done{false};
        pool.run_detached([&] { g.arrive(); pool.stop(); job_done.store(true, std::memory_order_release); });
        g.arrive();
        pool.stop();
        // the owner keeps the pool alive until the job that refers to it has returned from ITS stop(): when the job's stop() won the
        // worker handles, the owner's stop() returns at once and does not wait for anybody - leaving the scope then would destroy the
        // pool under the other worker's feet, which is a life-time error of this scenario program (it showed as an unrelated
        // ThreadSanitizer report `thread_pool::thread_pool` vs `worker` under load), not a race between the two stop() calls
        while (!job_done.load(std::memory_order_acquire)) std::this_thread::yield();
    }
}

// 7. scheduler: thread mode, sleepers and cancel from other threads
static void sc_scheduler() {
    for (int i = 0; i < ITER / 20 + 1; i++) {
        scheduler sch;
        sch.start_thread();
        int tagv;
        std::thread a([&] { try { sch.sleep_for(std::chrono::milliseconds(2)).wait(); } catch (...) {} });
        std::thread b([&] { try { sch.sleep_for(std::chrono::milliseconds(30), &tagv).wait(); } catch (...) {} });
        std::thread c([&] { std::this_thread::sleep_for(std::chrono::milliseconds(1)); sch.cancel(&tagv); sch.cancel(&tagv); });
        a.join(); b.join(); c.join();
    }
}

// 6b. scheduler started from two threads at once (documented: "it is possible to start scheduler in multiple threads"):
// the pinned code bound each call's stack_storage to one plain member (learned frame size) - concurrent first calls raced
static void sc_scheduler_multi_start() {
    for (int i = 0; i < ITER / 20 + 1; i++) {
        scheduler sch;
        start_gate g(2);
        auto body = [&] {
            g.arrive();
            sch.start(sch.sleep_for(std::chrono::milliseconds(1)));
        };
        std::thread a(body), b(body);
        a.join(); b.join();
    }
}

// 6c. scheduler started in a thread pool: everything the worker reads at its start (the pool pointer) is written before the hand-over
static void sc_scheduler_pool_start() {
    for (int i = 0; i < ITER / 20 + 1; i++) {
        thread_pool pool(2);
        {
            scheduler sch(pool);
            // give the worker time to start before this thread touches the scheduler again: a later lock/unlock of the scheduler's
            // mutex by this thread would otherwise order everything written here before the worker's first lock
            std::this_thread::sleep_for(std::chrono::milliseconds(2));
            try { sch.sleep_for(std::chrono::milliseconds(1)).wait(); } catch (...) {}
        }
    }
}

// 8. publisher vs subscribers on other threads
static void sc_publisher() {
    for (int i = 0; i < ITER / 10 + 1; i++) {
        publisher<int> pub(4, 2);
        std::atomic<bool> go{false};
        std::thread s1([&] {
            subscriber<int> sub(pub);
            go.store(true);
            long sum = 0;
            while (sub.next()) { sum += sub.value(); SINK(sub.position()); }
        });
        std::thread s2([&] {
            while (!go.load()) std::this_thread::yield();
            subscriber<int> sub(pub, subscribtion_type::skip_to_recent);
            subscriber<int> cp(sub);
            long sum = 0;
            while (sub.next()) sum += sub.value();
            SINK(cp.position());
        });
        while (!go.load()) std::this_thread::yield();
        std::thread p2([&] { for (int k = 0; k < 40; k++) { pub.publish(1000 + k); if (k % 7 == 0) std::this_thread::yield(); } });
        for (int k = 0; k < 40; k++) { pub.publish(k); if (k % 5 == 0) std::this_thread::yield(); }
        p2.join();
        pub.close();
        s1.join(); s2.join();
    }
}

// 8b. the same with an item type whose destructor writes: an item that is copied while publish() trims it away shows as a race
struct pitem {
    long a = 0, b = 0;
    pitem() = default;
    pitem(long x) : a(x), b(x + 1) {}
    pitem(const pitem &o) : a(o.a), b(o.b) {}
    pitem &operator=(const pitem &o) { a = o.a; b = o.b; return *this; }
    ~pitem() { a = -1; b = -1; }
};
static void sc_publisher_items() {
    for (int i = 0; i < ITER / 10 + 1; i++) {
        publisher<pitem> pub(2, 1);
        std::atomic<bool> go{false};
        std::thread s1([&] {
            subscriber<pitem> sub(pub);
            go.store(true);
            long sum = 0;
            while (sub.next()) { sum += sub.value().a; }
            SINK(sum);
        });
        std::thread s2([&] {
            while (!go.load()) std::this_thread::yield();
            subscriber<pitem> sub(pub, subscribtion_type::skip_if_behind);
            long sum = 0;
            while (sub.next()) sum += sub.value().b;
            SINK(sum);
        });
        while (!go.load()) std::this_thread::yield();
        for (int k = 0; k < 60; k++) { pub.publish(pitem(k)); if (k % 3 == 0) std::this_thread::yield(); }
        pub.close();
        s1.join(); s2.join();
    }
}

// 9. thread-safe reusable storage used alternately from two threads
static with_allocator<reusable_storage_mtsafe, async<int>> stor_coro(reusable_storage_mtsafe &, int x) {
    int buf[8];
    for (int i = 0; i < 8; i++) buf[i] = x + i;
    co_return buf[3];
}
// 9b. the same with frames of different sizes: the smaller frame's trailer position lies inside the bigger frame
static with_allocator<reusable_storage_mtsafe, async<int>> stor_coro_big(reusable_storage_mtsafe &, int x) {
    int buf[64];
    for (int i = 0; i < 64; i++) buf[i] = x + i;
    co_return buf[40] + buf[3];
}
static void sc_storage_sizes() {
    reusable_storage_mtsafe st;
    { volatile int v = stor_coro_big(st, 1).join(); (void)v; }      // warm: the block fits the big frame
    std::thread a([&] { for (int i = 0; i < ITER * 5; i++) { volatile int v = stor_coro(st, i).join(); (void)v; } });
    std::thread b([&] { for (int i = 0; i < ITER * 5; i++) { volatile int v = stor_coro_big(st, i).join(); (void)v; } });
    a.join(); b.join();
}
static void sc_storage() {
    reusable_storage_mtsafe st;
    auto body = [&] {
        for (int i = 0; i < ITER * 5; i++) {
            volatile int v = stor_coro(st, i).join();
            (void)v;
        }
    };
    std::thread a(body), b(body);
    a.join(); b.join();
}

// 10. generator: synchronous access, body completed by another thread
static generator<int> async_gen(queue<int> &q, int n) {
    for (int i = 0; i < n; i++) {
        int v = co_await q.pop();
        co_yield v;
    }
}
static void sc_generator() {
    for (int i = 0; i < ITER / 10 + 1; i++) {
        queue<int> q;
        auto g = async_gen(q, 10);
        std::thread p([&] { for (int k = 0; k < 10; k++) { if (k % 3 == 0) std::this_thread::yield(); q.push(k); } });
        long sum = 0;
        while (g.next()) sum += g.value();
        p.join();
    }
}

// 11. signal: listeners subscribing on another thread than the collector
static async<void> sig_listener(signal<int>::emitter em, std::atomic<int> &got) {
    try {
        for (;;) { int v = co_await em; (void)v; got.fetch_add(1); }
    } catch (...) {
    }
    got.fetch_add(1000);
}
static void sc_signal() {
    for (int i = 0; i < ITER / 10 + 1; i++) {
        std::atomic<int> got{0};
        {
            signal<int> sig;
            auto col = sig.get_collector();
            std::thread l([&] { sig_listener(sig.get_emitter(), got).detach(); });
            l.join();
            for (int k = 0; k < 5; k++) col(k);
        }
        while (got.load() < 1000) std::this_thread::yield();
    }
}

// 12. shared_future copies awaited/dropped on other threads
static void sc_shared() {
    for (int i = 0; i < ITER; i++) {
        promise<int> p;
        shared_future<int> sf([&](promise<int> pp) { p = std::move(pp); });
        std::thread a([sf]() mutable { try { volatile int v = sf.wait(); (void)v; } catch (...) {} });
        std::thread b([sf]() mutable { shared_future<int> c = sf; SINK(c.ready()); });
        std::thread r([&] { p(7); });
        a.join(); b.join(); r.join();
    }
}

int main(int argc, char **argv) {
    struct S { const char *name; void (*fn)(); };
    S all[] = {{"future_poll", sc_future_poll}, {"future_has_value", sc_future_has_value}, {"future_await", sc_future_await}, {"future_compete", sc_future_compete},
               {"scheduler_pool_start", sc_scheduler_pool_start}, {"storage_sizes", sc_storage_sizes}, {"publisher_items", sc_publisher_items},
               {"mutex", sc_mutex}, {"mutex_window", sc_mutex_window}, {"queue", sc_queue}, {"pool", sc_pool}, {"pool_double_stop", sc_pool_double_stop}, {"scheduler", sc_scheduler}, {"scheduler_multi_start", sc_scheduler_multi_start},
               {"publisher", sc_publisher}, {"storage", sc_storage}, {"generator", sc_generator}, {"signal", sc_signal},
               {"shared", sc_shared}};
    if (argc > 2) ITER = atoi(argv[2]);
    for (auto &s : all) {
        if (argc > 1 && std::string(argv[1]) != "all" && std::string(argv[1]) != s.name) continue;
        fprintf(stderr, "scenario %s begin\n", s.name);
        s.fn();
        fprintf(stderr, "scenario %s done\n", s.name);
    }
    return 0;
}
