// no include guard on purpose: <cassert> redefines `assert` on every inclusion
#ifndef VERIF_ASSERT_SUPPORT
#define VERIF_ASSERT_SUPPORT
namespace vshim {
inline thread_local int in_assert = 0;
struct assert_guard {
    assert_guard() { ++in_assert; }
    ~assert_guard() { --in_assert; }
};
[[noreturn]] void assert_fail(const char *expr, const char *file, int line);
}  // namespace vshim
#endif
#undef assert
#define assert(e) ((void)::vshim::assert_guard{}, (e) ? (void)0 : ::vshim::assert_fail(#e, __FILE__, __LINE__))
