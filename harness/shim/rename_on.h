// rename the std synchronisation classes for the duration of the cocls includes
#define atomic verif_atomic
#define mutex verif_mutex
#define condition_variable verif_condition_variable
#define thread verif_thread
