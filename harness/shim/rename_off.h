#undef atomic
#undef mutex
#undef condition_variable
#undef thread
