// Shadow <cassert>: library assertions stay enabled but (a) a failure is routed to the harness instead of abort(),
// (b) interposed atomic operations evaluated inside an assertion are not scheduling points.
#include "verif_assert.h"
