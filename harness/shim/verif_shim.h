// Interposition shim: deterministic "baton" scheduling of real threads at the granularity of the
// synchronising operations of the *unmodified* cocls headers.
//
// Usage in a harness translation unit:
//     #include "shim/verif_shim.h"          // pre-includes every std header cocls uses
//     #include "shim/rename_on.h"           // atomic -> verif_atomic, mutex -> verif_mutex, ...
//     #include <cocls/...>
//     #include "shim/rename_off.h"
//
// One OS thread runs at a time. After every interposed operation the running thread hands the baton
// to the thread named by the schedule (falling through to the next enabled one). Blocking operations
// (atomic::wait, contended lock, cv wait, join) mark the thread not-enabled with a predicate.
#pragma once
#include <algorithm>
#include <atomic>
#include <cassert>
#include <chrono>
#include <concepts>
#include <condition_variable>
#include <coroutine>
#include <cstddef>
#include <cstdint>
#include <cstdio>
#include <cstdlib>
#include <cstring>
#include <deque>
#include <exception>
#include <functional>
#include <iostream>
#include <iterator>
#include <limits>
#include <map>
#include <memory>
#include <mutex>
#include <optional>
#include <queue>
#include <set>
#include <sstream>
#include <stdexcept>
#include <stop_token>
#include <string>
#include <thread>
#include <tuple>
#include <type_traits>
#include <utility>
#include <variant>
#include <vector>
#include <unistd.h>

namespace vshim {

inline thread_local int self_id = -1;   // index of the scheduled thread running on this OS thread; -1 = controller
inline thread_local int in_shim = 0;    // >0 while the shim itself logs an interposed atomic operation (lets a harness that
struct shim_guard {                     // replaces operator new tell the shim's own string allocations from the library's)
    shim_guard() { ++in_shim; }
    ~shim_guard() { --in_shim; }
};

struct Sched {
    enum St { RUNNABLE, BLOCKED, FINISHED };
    struct T {
        St st = RUNNABLE;
        std::function<bool()> pred;
        std::thread th;
        bool detached = false;
    };
    std::mutex m;
    std::condition_variable cv;
    std::deque<T> ts;
    int current = -1;            // -1 controller, -2 done
    std::vector<int> schedule;
    std::size_t pos = 0;
    bool deadlock = false;
    bool active = false;         // scheduling on (between run() start and end)
    bool quiet = false;          // suppress op log lines
    bool yield_on_lock = false;
    const void *yield_on_cv_entry = nullptr;   // this condition variable gets a scheduling point at the entry of wait(): the caller's
                                               // predicate has been evaluated, the mutex is still held, the waiter is not yet registered
    bool track_only = false;     // only atomics named explicitly with name_obj() are scheduling points / logged (default: all)
    std::set<const void *> tracked_objs;
    std::map<const void *, std::string> obj_names;
    std::map<const void *, std::string> ptr_names;
    std::map<int, int> anon_count;
    long steps = 0;
    long max_steps = 100000;
    long long vtime = 0;         // virtual clock (ns) for verif_system_clock
    std::ostream *out = &std::cout;

    static Sched &get() {
        static Sched s;
        return s;
    }

    void reset() {
        ts.clear();
        current = -1;
        schedule.clear();
        pos = 0;
        deadlock = false;
        active = false;
        obj_names.clear();
        tracked_objs.clear();
        ptr_names.clear();
        anon_count.clear();
        steps = 0;
        vtime = 0;
    }

    std::string obj_name(const void *a) {
        auto it = obj_names.find(a);
        if (it != obj_names.end()) return it->second;
        return "?";
    }
    void name_obj(const void *a, const std::string &n) { obj_names[a] = n; tracked_objs.insert(a); }
    // track_only mode: an operation on an atomic that was not named explicitly is neither logged nor a scheduling point
    bool skip_obj(const void *a) const { return track_only && !tracked_objs.count(a); }
    void name_ptr(const void *a, const std::string &n) { ptr_names[a] = n; }
    std::string ptr_name(const void *a) {
        if (!a) return "null";
        auto it = ptr_names.find(a);
        if (it != ptr_names.end()) return it->second;
        return "ptr";
    }
    // an atomic constructed by a scheduled thread gets a positional name
    void auto_name(const void *a) {
        if (!active) return;
        shim_guard g;
        int t = self_id;
        int n = anon_count[t]++;
        obj_names[a] = "a" + std::to_string(t) + "." + std::to_string(n);
        tracked_objs.erase(a);
    }
    void forget(const void *a) {
        if (obj_names.empty()) return;
        shim_guard g;
        obj_names.erase(a);
        tracked_objs.erase(a);
    }

    bool enabled(int i) {
        T &t = ts[i];
        if (t.st == RUNNABLE) return true;
        if (t.st == BLOCKED && t.pred && t.pred()) return true;
        return false;
    }

    // choose the next thread; caller holds m
    void pick_locked() {
        int n = (int)ts.size();
        bool all_fin = true;
        for (int i = 0; i < n; i++)
            if (ts[i].st != FINISHED) all_fin = false;
        if (all_fin) {
            current = -2;
            cv.notify_all();
            return;
        }
        int chosen = -1;
        int want = -1;
        if (pos < schedule.size()) want = schedule[pos++] % n;
        if (want >= 0) {
            for (int k = 0; k < n; k++) {
                int i = (want + k) % n;
                if (enabled(i)) { chosen = i; break; }
            }
        } else {
            for (int i = 0; i < n; i++)
                if (enabled(i)) { chosen = i; break; }
        }
        if (chosen < 0) {
            // nothing enabled: try to advance virtual time to the earliest timed waiter
            if (advance_time_locked()) { pick_retry_locked(); return; }
            deadlock = true;
            current = -2;
            cv.notify_all();
            return;
        }
        if (++steps > max_steps) {
            deadlock = true;   // livelock guard
            current = -2;
            cv.notify_all();
            return;
        }
        if (ts[chosen].st == BLOCKED) { ts[chosen].st = RUNNABLE; ts[chosen].pred = nullptr; }
        current = chosen;
        cv.notify_all();
    }
    void pick_retry_locked() {
        int n = (int)ts.size();
        for (int i = 0; i < n; i++)
            if (enabled(i)) {
                if (ts[i].st == BLOCKED) { ts[i].st = RUNNABLE; ts[i].pred = nullptr; }
                current = i;
                cv.notify_all();
                return;
            }
        deadlock = true;
        current = -2;
        cv.notify_all();
    }
    std::vector<long long *> timed;   // deadlines of threads blocked in wait_until (pointers owned by the waiters)
    bool advance_time_locked() {
        long long best = -1;
        for (auto p : timed)
            if (p && (best < 0 || *p < best)) best = *p;
        if (best < 0 || best <= vtime) return false;
        vtime = best;
        return true;
    }

    void wait_turn(std::unique_lock<std::mutex> &lk, int me) {
        cv.wait(lk, [&] { return current == me || current == -2; });
        if (current == -2 && deadlock) {
            // the run is over (deadlock): park this OS thread forever; the controller exits the process
            lk.unlock();
            for (;;) pause();
        }
    }

    // scheduling point of the running thread (after an interposed op)
    void yield() {
        if (!active || self_id < 0 || in_assert) return;
        std::unique_lock<std::mutex> lk(m);
        pick_locked();
        wait_turn(lk, self_id);
    }

    // the running thread blocks until pred() holds
    void block(std::function<bool()> pred) {
        if (!active || self_id < 0) {
            // not under the scheduler: spin (only used outside runs)
            while (!pred()) std::this_thread::yield();
            return;
        }
        std::unique_lock<std::mutex> lk(m);
        ts[self_id].st = BLOCKED;
        ts[self_id].pred = std::move(pred);
        pick_locked();
        wait_turn(lk, self_id);
    }

    int spawn(std::function<void()> body) {
        std::unique_lock<std::mutex> lk(m);
        int id = (int)ts.size();
        ts.emplace_back();
        ts[id].th = std::thread([this, id, body = std::move(body)]() mutable {
            self_id = id;
            {
                std::unique_lock<std::mutex> lk(m);
                wait_turn(lk, id);
            }
            body();
            finish_self();
        });
        return id;
    }

    void finish_self() {
        std::unique_lock<std::mutex> lk(m);
        log_line("s " + std::to_string(self_id) + " fin");
        ts[self_id].st = FINISHED;
        pick_locked();
    }

    void log_line(const std::string &s) {
        if (!quiet) (*out) << s << "\n";
    }
    // optional "logical agent" tag set by the harness (which contender's code is running on this thread)
    static int &tag() {
        static thread_local int t = -1;
        return t;
    }
    void log_op(const std::string &s) {
        if (!active || self_id < 0 || in_assert) return;
        int tg = tag();
        log_line("s " + std::to_string(self_id) + (tg >= 0 ? " a" + std::to_string(tg) : "") + " " + s);
    }

    // run all spawned threads to completion under the schedule; returns false on deadlock
    bool run(const std::vector<int> &sched) {
        {
            std::unique_lock<std::mutex> lk(m);
            schedule = sched;
            pos = 0;
            active = true;
            pick_locked();
            cv.wait(lk, [&] { return current == -2; });
            active = false;
        }
        if (deadlock) return false;
        for (auto &t : ts)
            if (t.th.joinable()) t.th.join();
        return true;
    }
};

inline Sched &S() { return Sched::get(); }

[[noreturn]] inline void assert_fail(const char *expr, const char *file, int line) {
    const char *b = std::strrchr(file, '/');
    std::cout << "assert-failed " << (b ? b + 1 : file) << " `" << expr << "`" << std::endl;
    std::cout << "end" << std::endl;
    std::cout.flush();
    _exit(3);
}

template <typename T>
std::string val_str(const T &v) {
    if constexpr (std::is_pointer_v<T>) return S().ptr_name((const void *)v);
    else if constexpr (std::is_same_v<T, bool>) return v ? "1" : "0";
    else if constexpr (std::is_integral_v<T>) return std::to_string(v);
    else return "?";
}

inline const char *mo_str(std::memory_order o) {
    switch (o) {
        case std::memory_order_relaxed: return "rlx";
        case std::memory_order_consume: return "con";
        case std::memory_order_acquire: return "acq";
        case std::memory_order_release: return "rel";
        case std::memory_order_acq_rel: return "ar";
        default: return "sc";
    }
}

}  // namespace vshim

namespace std {

template <typename T>
class verif_atomic {
public:
    verif_atomic() noexcept : _v() { vshim::S().auto_name(this); }
    constexpr verif_atomic(T v) noexcept : _v(v) {
        if (!std::is_constant_evaluated()) vshim::S().auto_name(this);
    }
    verif_atomic(const verif_atomic &) = delete;
    verif_atomic &operator=(const verif_atomic &) = delete;
    ~verif_atomic() { vshim::S().forget(this); }

    T operator=(T v) noexcept { store(v); return v; }
    operator T() const noexcept { return load(); }

    T load(std::memory_order o = std::memory_order_seq_cst) const noexcept {
        T r = _v;
        op("load", r);
        return r;
    }
    void store(T v, std::memory_order o = std::memory_order_seq_cst) noexcept {
        _v = v;
        op("store", v);
    }
    T exchange(T v, std::memory_order o = std::memory_order_seq_cst) noexcept {
        T r = _v;
        _v = v;
        op2("xchg", r, v);
        return r;
    }
    bool compare_exchange_strong(T &expected, T desired, std::memory_order = std::memory_order_seq_cst,
                                 std::memory_order = std::memory_order_seq_cst) noexcept {
        bool ok = (_v == expected);
        T seen = _v;
        if (ok) _v = desired; else expected = _v;
        op2(ok ? "cas+" : "cas-", seen, desired);
        return ok;
    }
    bool compare_exchange_weak(T &expected, T desired, std::memory_order a = std::memory_order_seq_cst,
                               std::memory_order b = std::memory_order_seq_cst) noexcept {
        return compare_exchange_strong(expected, desired, a, b);
    }
    T fetch_add(T d, std::memory_order = std::memory_order_seq_cst) noexcept
        requires std::is_integral_v<T>
    {
        T r = _v;
        _v = r + d;
        op("add", r);
        return r;
    }
    T fetch_sub(T d, std::memory_order = std::memory_order_seq_cst) noexcept
        requires std::is_integral_v<T>
    {
        T r = _v;
        _v = r - d;
        op("sub", r);
        return r;
    }
    // the operator spellings of the read-modify-write operations (`a++` is `a.fetch_add(1)` ...)
    T operator++() noexcept requires std::is_integral_v<T> { return fetch_add(1) + 1; }
    T operator++(int) noexcept requires std::is_integral_v<T> { return fetch_add(1); }
    T operator--() noexcept requires std::is_integral_v<T> { return fetch_sub(1) - 1; }
    T operator--(int) noexcept requires std::is_integral_v<T> { return fetch_sub(1); }
    T operator+=(T d) noexcept requires std::is_integral_v<T> { return fetch_add(d) + d; }
    T operator-=(T d) noexcept requires std::is_integral_v<T> { return fetch_sub(d) - d; }
    void wait(T old, std::memory_order = std::memory_order_seq_cst) const noexcept {
        auto &s = vshim::S();
        if (s.skip_obj(this)) {   // untracked: block silently
            if (_v == old) { const T *p = &_v; s.block([p, old] { return !(*p == old); }); }
            return;
        }
        vshim::shim_guard g;
        if (_v == old) {
            s.log_op("wait-block " + s.obj_name(this));
            const T *p = &_v;
            s.block([p, old] { return !(*p == old); });
        }
        s.log_op("wait-pass " + s.obj_name(this));
        s.yield();
    }
    void notify_all() noexcept {}
    void notify_one() noexcept {}
    // raw access for the harness (no scheduling point)
    T raw() const { return _v; }

private:
    void op2(const char *kind, const T &seen, const T &desired) const {
        auto &s = vshim::S();
        if (!s.active || vshim::self_id < 0 || vshim::in_assert || s.skip_obj(this)) return;
        vshim::shim_guard g;
        s.log_op(std::string(kind) + " " + s.obj_name(this) + " " + vshim::val_str(seen) + ">" + vshim::val_str(desired));
        s.yield();
    }
    void op(const char *kind, const T &seen) const {
        auto &s = vshim::S();
        if (!s.active || vshim::self_id < 0 || vshim::in_assert || s.skip_obj(this)) return;
        vshim::shim_guard g;
        s.log_op(std::string(kind) + " " + s.obj_name(this) + " " + vshim::val_str(seen));
        s.yield();
    }
    T _v;
};

// The free-function spellings of <atomic> for the interposed type: `std::atomic_load_explicit(&a, o)` is DEFINED as `a.load(o)`
// ([atomics.nonmembers]); the std templates take `std::atomic<T> *` (the real one: the std headers are included before the renaming
// macro), so a header that spells an operation this way needs these overloads to compile against the shim.  They forward to the
// member functions, hence log and yield exactly like the member spelling.  (`type_identity_t`: the value operand is not deduced,
// as in the standard: `atomic_store(&p, nullptr)` works.)
template <typename T> T atomic_load(const verif_atomic<T> *a) noexcept { return a->load(); }
template <typename T> T atomic_load_explicit(const verif_atomic<T> *a, memory_order o) noexcept { return a->load(o); }
template <typename T> void atomic_store(verif_atomic<T> *a, type_identity_t<T> v) noexcept { a->store(v); }
template <typename T> void atomic_store_explicit(verif_atomic<T> *a, type_identity_t<T> v, memory_order o) noexcept { a->store(v, o); }
template <typename T> T atomic_exchange(verif_atomic<T> *a, type_identity_t<T> v) noexcept { return a->exchange(v); }
template <typename T> T atomic_exchange_explicit(verif_atomic<T> *a, type_identity_t<T> v, memory_order o) noexcept { return a->exchange(v, o); }
template <typename T> bool atomic_compare_exchange_weak(verif_atomic<T> *a, type_identity_t<T> *e, type_identity_t<T> d) noexcept {
    return a->compare_exchange_weak(*e, d);
}
template <typename T> bool atomic_compare_exchange_strong(verif_atomic<T> *a, type_identity_t<T> *e, type_identity_t<T> d) noexcept {
    return a->compare_exchange_strong(*e, d);
}
template <typename T> bool atomic_compare_exchange_weak_explicit(verif_atomic<T> *a, type_identity_t<T> *e, type_identity_t<T> d,
                                                                 memory_order s, memory_order f) noexcept {
    return a->compare_exchange_weak(*e, d, s, f);
}
template <typename T> bool atomic_compare_exchange_strong_explicit(verif_atomic<T> *a, type_identity_t<T> *e, type_identity_t<T> d,
                                                                   memory_order s, memory_order f) noexcept {
    return a->compare_exchange_strong(*e, d, s, f);
}
template <typename T> T atomic_fetch_add(verif_atomic<T> *a, type_identity_t<T> d) noexcept { return a->fetch_add(d); }
template <typename T> T atomic_fetch_add_explicit(verif_atomic<T> *a, type_identity_t<T> d, memory_order o) noexcept { return a->fetch_add(d, o); }
template <typename T> T atomic_fetch_sub(verif_atomic<T> *a, type_identity_t<T> d) noexcept { return a->fetch_sub(d); }
template <typename T> T atomic_fetch_sub_explicit(verif_atomic<T> *a, type_identity_t<T> d, memory_order o) noexcept { return a->fetch_sub(d, o); }
template <typename T> void atomic_wait(const verif_atomic<T> *a, type_identity_t<T> old) noexcept { a->wait(old); }
template <typename T> void atomic_wait_explicit(const verif_atomic<T> *a, type_identity_t<T> old, memory_order o) noexcept { a->wait(old, o); }
template <typename T> void atomic_notify_one(verif_atomic<T> *a) noexcept { a->notify_one(); }
template <typename T> void atomic_notify_all(verif_atomic<T> *a) noexcept { a->notify_all(); }

class verif_mutex {
public:
    verif_mutex() = default;
    verif_mutex(const verif_mutex &) = delete;
    void lock() {
        auto &s = vshim::S();
        if (!s.active || vshim::self_id < 0) { _real.lock(); _owner = -3; return; }
        if (_owner != -1) {
            s.log_op("lock-block " + s.obj_name(this));
            const int *p = &_owner;
            s.block([p] { return *p == -1; });
        }
        _owner = vshim::self_id;
        if (s.yield_on_lock) { s.log_op("lock " + s.obj_name(this)); s.yield(); }
    }
    bool try_lock() {
        auto &s = vshim::S();
        if (!s.active || vshim::self_id < 0) { bool r = _real.try_lock(); if (r) _owner = -3; return r; }
        if (_owner != -1) return false;
        _owner = vshim::self_id;
        return true;
    }
    void unlock() {
        auto &s = vshim::S();
        if (_owner == -3) { _owner = -1; _real.unlock(); return; }
        _owner = -1;
        s.log_op("unlock " + s.obj_name(this));
        s.yield();
    }
    int owner() const { return _owner; }

private:
    int _owner = -1;
    std::mutex _real;   // used only outside scheduled runs (constructors/destructors on the controller)
};

class verif_condition_variable {
public:
    verif_condition_variable() = default;
    verif_condition_variable(const verif_condition_variable &) = delete;
    void notify_one() noexcept {
        for (auto &w : _waiters)
            if (!*w) { *w = true; break; }
    }
    void notify_all() noexcept {
        for (auto &w : _waiters) *w = true;
    }
    template <typename Lock>
    void wait(Lock &lk) {
        auto &s = vshim::S();
        if (!s.active || vshim::self_id < 0) { return; }
        if (s.yield_on_cv_entry == this) { s.log_op("cv-enter " + s.obj_name(this)); s.yield(); }
        bool flag = false;
        _waiters.push_back(&flag);
        lk.unlock();   // a scheduling point of its own
        if (!flag) {
            s.log_op("cv-block " + s.obj_name(this));
            bool *p = &flag;
            s.block([p] { return *p; });
        }
        _waiters.erase(std::find(_waiters.begin(), _waiters.end(), &flag));
        lk.lock();
    }
    template <typename Lock, typename Pred>
    void wait(Lock &lk, Pred pred) {
        while (!pred()) wait(lk);
    }
    template <typename Lock, typename TP>
    std::cv_status wait_until(Lock &lk, const TP &tp) {
        auto &s = vshim::S();
        if (!s.active || vshim::self_id < 0) { return std::cv_status::timeout; }
        bool flag = false;
        long long dl = std::chrono::duration_cast<std::chrono::nanoseconds>(tp.time_since_epoch()).count();
        _waiters.push_back(&flag);
        lk.unlock();
        bool timed_out = false;
        if (!flag) {
            if (dl <= s.vtime) timed_out = true;
            else {
                s.log_op("cv-block-until " + s.obj_name(this) + " " + std::to_string(dl));
                bool *p = &flag;
                long long *d = &dl;
                s.timed.push_back(d);
                s.block([p, d, &s] { return *p || *d <= s.vtime; });
                s.timed.erase(std::find(s.timed.begin(), s.timed.end(), d));
                timed_out = !flag;
            }
        }
        _waiters.erase(std::find(_waiters.begin(), _waiters.end(), &flag));
        lk.lock();
        return timed_out ? std::cv_status::timeout : std::cv_status::no_timeout;
    }

private:
    std::vector<bool *> _waiters;
};

// a std::thread whose body is a scheduled thread of the baton scheduler
class verif_thread {
public:
    using id = std::thread::id;
    verif_thread() noexcept = default;
    template <typename Fn, typename... Args>
    explicit verif_thread(Fn &&fn, Args &&...args) {
        auto &s = vshim::S();
        _idx = s.spawn([f = std::bind(std::forward<Fn>(fn), std::forward<Args>(args)...)]() mutable { f(); });
        _oid = s.ts[_idx].th.get_id();
    }
    verif_thread(verif_thread &&o) noexcept : _idx(std::exchange(o._idx, -1)), _oid(std::exchange(o._oid, id())) {}
    verif_thread &operator=(verif_thread &&o) noexcept {
        _idx = std::exchange(o._idx, -1);
        _oid = std::exchange(o._oid, id());
        return *this;
    }
    ~verif_thread() {}
    bool joinable() const noexcept { return _idx >= 0; }
    id get_id() const noexcept { return _oid; }
    void join() {
        auto &s = vshim::S();
        int i = _idx;
        _idx = -1;
        _oid = id();
        if (s.ts[i].st != vshim::Sched::FINISHED) {
            s.log_op("join-block t" + std::to_string(i));
            s.block([&s, i] { return s.ts[i].st == vshim::Sched::FINISHED; });
        }
        s.log_op("join t" + std::to_string(i));
        s.yield();
    }
    void detach() {
        _idx = -1;
        _oid = id();
    }
    static unsigned hardware_concurrency() noexcept { return 2; }
    int index() const { return _idx; }

private:
    int _idx = -1;
    id _oid;
};

namespace chrono {
struct verif_system_clock {
    using duration = std::chrono::nanoseconds;
    using rep = duration::rep;
    using period = duration::period;
    using time_point = std::chrono::time_point<std::chrono::system_clock, duration>;
    static constexpr bool is_steady = false;
    static time_point now() noexcept { return time_point(duration(vshim::S().vtime)); }
};
}  // namespace chrono

}  // namespace std
