// S-harness for the per-thread executor of cocls (C05): coro_queue.h, suspend_point.h, async.h.
// A case is a program of scripted coroutines (cocls::async<void> bodies interpreting per-coroutine scripts)
// driven by ordinary code ("m" lines). The observable is the total event trace: which coroutine executes which
// act of its script, in which order, at which nesting depth. Same grammar as lean/Drivers/C05.lean:
//   case <id> exec <via>      via = promise | mutex | queue : how `park`/`wake` are realised
//   a <cid> <act>             append <act> to the script of coroutine <cid>
//   m <act>                   ordinary code performs <act> now
//   end
// acts: wake:<d|a|r|x>:<ids> detach:<d|a|r|x>:<id> gather:<d|a>:<ids> park parkn pause swap start:<id> call:<id>
//       join:<id> end enter leave leavex
//   mode x: the suspend point is held in a local and destroyed by stack unwinding (an exception leaves the block and is
//   caught outside); leavex: the callback of install_queue_and_call ends by throwing (caught outside the call)
#include "common.h"
#include <cocls/async.h>
#include <cocls/future.h>
#include <cocls/mutex.h>
#include <cocls/queue.h>

using namespace cocls;

enum Kind { WAKE, PARK, PARKN, PAUSE, SWAP, START, CALL, JOIN, END, ENTER, LEAVE, LEAVEX, BAD };

struct Act {
    Kind k = BAD;
    char mode = 'd';
    bool rev = false;
    std::vector<int> ids;
    int d = -1;
};

static bool to_nat(const std::string &s, int &out) {
    if (s.empty() || s.size() > 6) return false;
    for (char c : s)
        if (c < '0' || c > '9') return false;
    out = atoi(s.c_str());
    return true;
}

static std::vector<std::string> split_on(const std::string &s, char sep) {
    std::vector<std::string> out;
    std::string cur;
    for (char c : s) {
        if (c == sep) { out.push_back(cur); cur.clear(); }
        else cur.push_back(c);
    }
    out.push_back(cur);
    return out;
}

static Act parse_act(const std::string &tok) {
    Act a;
    auto p = split_on(tok, ':');
    const std::string &k = p[0];
    if ((k == "wake" || k == "gather") && (p.size() == 2 || p.size() == 3)) {
        a.k = WAKE;
        a.rev = k == "gather";
        a.mode = p[1] == "a" ? 'a' : (p[1] == "r" && !a.rev ? 'r' : (p[1] == "x" && !a.rev ? 'x' : 'd'));
        if (p.size() == 3)
            for (auto &x : split_on(p[2], ',')) { int v; if (to_nat(x, v)) a.ids.push_back(v); }
    } else if (k == "detach" && p.size() == 3) {
        a.k = WAKE;
        a.mode = p[1] == "a" ? 'a' : (p[1] == "r" ? 'r' : (p[1] == "x" ? 'x' : 'd'));
        for (auto &x : split_on(p[2], ',')) { int v; if (to_nat(x, v)) a.ids.push_back(v); }
    } else if (p.size() == 1 && k == "park") a.k = PARK;
    else if (p.size() == 1 && k == "parkn") a.k = PARKN;
    else if (p.size() == 1 && k == "pause") a.k = PAUSE;
    else if (p.size() == 1 && k == "swap") a.k = SWAP;
    else if (p.size() == 1 && k == "end") a.k = END;
    else if (p.size() == 1 && k == "enter") a.k = ENTER;
    else if (p.size() == 1 && k == "leave") a.k = LEAVE;
    else if (p.size() == 1 && k == "leavex") a.k = LEAVEX;
    else if (p.size() == 2 && (k == "start" || k == "call" || k == "join")) {
        if (to_nat(p[1], a.d)) a.k = k == "start" ? START : (k == "call" ? CALL : JOIN);
    }
    return a;
}

struct Co {
    std::vector<Act> script;
    std::size_t pc = 0;
    bool spawned = false, done = false, running = false, woken = false;
    int parkkind = 0;  // 0 not parked, 1 promise/future, 2 mutex, 3 queue
    int starter = -2;  // coroutine that holds `fut` (-1: ordinary code)
    unsigned resumes = 0;
    promise<void> slot;
    std::unique_ptr<cocls::mutex> mx;  // declared before `own`: the ownership goes first
    cocls::mutex::ownership own;
    std::unique_ptr<queue<int>> q;
    std::unique_ptr<future<void>> fut;
};

struct Case {
    int via = 1;
    bool shutdown = false;
    int depth = 0;
    std::vector<std::unique_ptr<Co>> co;
    std::vector<std::string> evs;
    Co &get(int c) {
        while ((int)co.size() <= c) co.emplace_back(new Co());
        return *co[c];
    }
};

static Case *G = nullptr;

static void resumed(int id) {
    Co &c = G->get(id);
    if (c.running && !G->shutdown) G->evs.push_back("REENTRY:" + std::to_string(id));
    c.running = true;
    c.resumes++;
}
static void suspending(int id) { G->get(id).running = false; }

static async<void> body(int id);

// one suspend point with the handles of the wakeable targets, in the order of `ids`
static suspend_point<void> collect(const std::vector<int> &ids) {
    suspend_point<void> sp;
    for (int t : ids) {
        Co &c = G->get(t);
        if (!c.spawned) {
            c.spawned = true;
            sp << body(t).detach();
        } else if (c.parkkind) {
            int pk = c.parkkind;
            c.parkkind = 0;
            c.woken = true;
            if (pk == 1) sp << c.slot();
            else if (pk == 2) sp << c.own.release();
            else sp << c.q->push(1);
        }
    }
    return sp;
}

// `coro_queue::resume(h)` for every handle, in order: the same as dropping the suspend point when a queue is
// installed or when there is one handle
static void drop_via_resume(suspend_point<void> &sp) {
    std::vector<std::coroutine_handle<>> hs;
    while (!sp.empty()) hs.push_back(sp.pop());
    std::reverse(hs.begin(), hs.end());
    if (coro_queue::is_active() || hs.size() <= 1) {
        for (auto h : hs) coro_queue::resume(h);
    } else {
        for (auto h : hs) sp << std::move(h);
    }
}

// the suspend point lives in a local of a block that is left by an exception: destroyed by stack unwinding
static void drop_by_unwinding(const std::vector<int> &ids) {
    try {
        suspend_point<void> sp = collect(ids);
        throw vh::test_exc(1);
    } catch (const vh::test_exc &) {
    }
}

struct swap_pause : std::suspend_always {
    std::coroutine_handle<> await_suspend(std::coroutine_handle<> h) noexcept { return coro_queue::swap_coroutine(h); }
};

// park on a future, but leave through `coro_queue::resume_handle_next()`
struct park_next {
    co_awaiter<future<void>> aw;
    bool await_ready() noexcept { return false; }
    std::coroutine_handle<> await_suspend(std::coroutine_handle<> h) {
        if (!aw.await_suspend(h)) return h;
        return coro_queue::resume_handle_next();
    }
    void await_resume() { aw.await_resume(); }
};

static async<void> body(int id) {
    resumed(id);
    for (;;) {
        if (G->shutdown) break;
        Co &me = G->get(id);
        std::size_t k = me.pc++;
        Act a;
        if (k < me.script.size()) a = me.script[k]; else a.k = END;
        G->evs.push_back(std::to_string(id) + "." + std::to_string(k) + "@" + std::to_string(G->depth));
        if (a.k == END) break;
        switch (a.k) {
            case WAKE: {
                if (a.rev) {
                    suspend_point<void> sp = coro_queue::create_suspend_point([&] { (void)collect(a.ids); });
                    if (a.mode == 'a') {
                        bool will = !sp.empty();
                        if (will) suspending(id);
                        co_await sp;
                        if (will) resumed(id);
                    }
                } else if (a.mode == 'x') {
                    drop_by_unwinding(a.ids);
                } else {
                    suspend_point<void> sp = collect(a.ids);
                    if (a.mode == 'a') {
                        bool will = !sp.empty();
                        if (will) suspending(id);
                        co_await sp;
                        if (will) resumed(id);
                    } else if (a.mode == 'r') {
                        drop_via_resume(sp);
                    }
                }
                break;
            }
            case PARK: {
                int via = G->via;
                me.woken = false;
                if (via == 2) {
                    if (!me.mx) {
                        me.mx.reset(new cocls::mutex());
                        me.own = me.mx->try_lock();
                    }
                    me.parkkind = 2;
                    suspending(id);
                    cocls::mutex::ownership o = co_await me.mx->lock();
                    resumed(id);
                    G->get(id).own = std::move(o);
                } else if (via == 3) {
                    if (!me.q) me.q.reset(new queue<int>());
                    me.parkkind = 3;
                    suspending(id);
                    int v = co_await me.q->pop();
                    (void)v;
                    resumed(id);
                } else {
                    future<void> f;
                    me.slot = f.get_promise();
                    me.parkkind = 1;
                    suspending(id);
                    co_await f;
                    resumed(id);
                }
                if (!G->get(id).woken && !G->shutdown) G->evs.push_back("SPURIOUS:" + std::to_string(id));
                break;
            }
            case PARKN: {
                future<void> f;
                me.slot = f.get_promise();
                me.woken = false;
                me.parkkind = 1;
                suspending(id);
                co_await park_next{f.operator co_await()};
                resumed(id);
                if (!G->get(id).woken && !G->shutdown) G->evs.push_back("SPURIOUS:" + std::to_string(id));
                break;
            }
            case PAUSE: {
                suspending(id);
                co_await cocls::pause();
                resumed(id);
                break;
            }
            case SWAP: {
                suspending(id);
                co_await swap_pause();
                resumed(id);
                break;
            }
            case START: {
                Co &ch = G->get(a.d);
                if (!ch.spawned) {
                    ch.spawned = true;
                    ch.starter = id;
                    ++G->depth;
                    ch.fut.reset(new future<void>(body(a.d).start()));
                    --G->depth;
                }
                break;
            }
            case CALL: {
                Co &ch = G->get(a.d);
                if (!ch.spawned) {
                    ch.spawned = true;
                    suspending(id);
                    co_await body(a.d);
                    resumed(id);
                }
                break;
            }
            case JOIN: {
                Co &ch = G->get(a.d);
                if (ch.starter == id && ch.fut) {
                    bool will = !ch.fut->ready();
                    if (will) suspending(id);
                    co_await *ch.fut;
                    if (will) resumed(id);
                }
                break;
            }
            default: break;
        }
    }
    Co &me = G->get(id);
    me.done = true;
    me.running = false;
    co_return;
}

static void main_act(const Act &a) {
    if (a.k == WAKE) {
        ++G->depth;
        if (a.rev) {
            suspend_point<void> sp = coro_queue::create_suspend_point([&] { (void)collect(a.ids); });
        } else if (a.mode == 'x') {
            drop_by_unwinding(a.ids);
        } else {
            suspend_point<void> sp = collect(a.ids);
            if (a.mode == 'r') drop_via_resume(sp);
        }
        --G->depth;
    } else if (a.k == START) {
        Co &ch = G->get(a.d);
        if (!ch.spawned) {
            ch.spawned = true;
            ch.starter = -1;
            ++G->depth;
            ch.fut.reset(new future<void>(body(a.d).start()));
            --G->depth;
        }
    }
}

static void print_line(const std::string &head) { vh::emit(head, G->evs); }

// executes lines until `leave` (returns 0), `leavex` (returns 2) or `end`/EOF (returns 1)
static int run_lines(std::istream &in, int level) {
    std::string line;
    while (std::getline(in, line)) {
        auto w = vh::split(line);
        if (w.empty()) continue;
        if (w[0] == "end") return 1;
        if (w[0] == "a" && w.size() == 3) {
            int c;
            Act a = parse_act(w[2]);
            if (to_nat(w[1], c) && a.k != BAD) {
                G->get(c).script.push_back(a);
                std::cout << "a\n";
            } else std::cout << "bad-op\n";
            continue;
        }
        if (w[0] == "m" && w.size() == 2) {
            Act a = parse_act(w[1]);
            if (a.k == BAD) { std::cout << "bad-op\n"; continue; }
            if (a.k == ENTER) {
                int how = 1;
                ++G->depth;
                try {
                    coro_queue::install_queue_and_call([&] {
                        print_line("m enter a=" + std::to_string((int)coro_queue::is_active()));
                        how = run_lines(in, level + 1);
                        // the callback ends by throwing: the trailer of install_queue_and_call runs during unwinding
                        if (how == 2) throw vh::test_exc(2);
                    });
                } catch (const vh::test_exc &) {
                }
                --G->depth;
                if (how == 1) return 1;  // events of the trailer are printed with the `end` line
                print_line(std::string(how == 2 ? "m leavex a=" : "m leave a=") + std::to_string((int)coro_queue::is_active()));
                continue;
            }
            if (a.k == LEAVE || a.k == LEAVEX) {
                if (level > 0) return a.k == LEAVE ? 0 : 2;
                print_line("m " + w[1] + " a=" + std::to_string((int)coro_queue::is_active()));
                continue;
            }
            main_act(a);
            print_line("m " + w[1] + " a=" + std::to_string((int)coro_queue::is_active()));
            continue;
        }
        std::cout << "bad-op\n";
    }
    return 1;
}

static void run_case(std::istream &in, int via) {
    Case cs;
    cs.via = via;
    G = &cs;
    coro_queue::instance = nullptr;
    run_lines(in, 0);
    auto &rq = coro_queue::queue_impl::instance._queue;
    std::ostringstream head;
    unsigned susp = 0;
    for (auto &c : cs.co) if (c->spawned && !c->done) ++susp;
    head << "end a=" << (int)coro_queue::is_active() << " q=" << rq.size() << " susp=" << susp << " res=";
    for (std::size_t i = 0; i < cs.co.size(); ++i) head << (i ? "," : "") << cs.co[i]->resumes;
    print_line(head.str());
    std::cout.flush();
    // shut the case down: everything still suspended is resumed and returns at once. Done by hand (queue installed
    // and drained here) so that the verdict on the case never depends on the code under test once more.
    cs.shutdown = true;
    coro_queue::instance = &coro_queue::queue_impl::instance;
    for (int round = 0; round < 1000; ++round) {
        while (!rq.empty()) {
            auto h = rq.front();
            rq.pop_front();
            h.resume();
        }
        std::vector<int> ids;
        for (std::size_t i = 0; i < cs.co.size(); ++i)
            if (cs.co[i]->parkkind) ids.push_back((int)i);
        if (ids.empty()) break;
        { suspend_point<void> sp = collect(ids); }
    }
    coro_queue::instance = nullptr;
    cs.evs.clear();
    cs.co.clear();
    G = nullptr;
}

int main() {
    std::string line;
    while (std::getline(std::cin, line)) {
        auto w = vh::split(line);
        if (w.empty() || w[0] != "case") continue;
        std::cout << "case " << w[1] << "\n";
        int via = 1;
        if (w.size() > 3 && w[3] == "mutex") via = 2;
        else if (w.size() > 3 && w[3] == "queue") via = 3;
        if (w.size() > 2 && w[2] == "exec") run_case(std::cin, via);
        else std::cout << "bad-kind\n";
        std::cout.flush();
    }
    return 0;
}
