// S-harness for the per-thread executor of cocls (C05): coro_queue.h, suspend_point.h, async.h, resume.h and the
// scheduling side of thread_pool.h.
// A case is a program of scripted coroutines (cocls::async<void> bodies interpreting per-coroutine scripts)
// driven by ordinary code ("m" lines). The observable is the total event trace: which coroutine executes which
// act of its script, in which order, at which nesting depth, on which thread. Same grammar as lean/Drivers/C05.lean:
//   case <id> exec <via>      via = promise | mutex | queue : how `park`/`wake` are realised
//   a <cid> <act>             append <act> to the script of coroutine <cid>
//   m <act>                   ordinary code performs <act> now
//   end
// acts: wake:<d|a|r|x|p>:<ids> detach:<d|a|r|x|p>:<id> gather:<d|a>:<ids> park parkn parkp wakep:<id> pause swap
//       start:<id> startc:<id> spawn:<id> call:<id> join:<id> hop hopc fwait end enter leave leavex gnext:<id> gyield
//       awaits:<ids>:<ids>
//   awaits:<pre>:<post>: `sp = <make pre ready>; sp << co_await self(); sp << <make post ready>; co_await sp;` - the awaited suspend
//   point holds the awaiting coroutine's own handle (self.h) behind the handles of <pre>, before those of <post> (either may be empty)
//   gnext:<id>: synchronous access to the coroutine <id> as a cocls::generator<int> (created by the first access; the body runs the
//   script of <id>): bool(gen.next()) (id % 3 == 0), gen() (== 1) or gen.next().subscribe(awaiter) (== 2). Only a generator whose body
//   has not started or is suspended in co_yield is accessed. gyield: co_yield in a generator body (a no-op in any other coroutine)
//   mode x: the suspend point is held in a local and destroyed by stack unwinding (an exception leaves the block and is
//   caught outside); leavex: the callback of install_queue_and_call ends by throwing (caught outside the call)
//   mode p: parallel_resume(std::move(sp)) (resume.h); parkp: co_await parallel(future); wakep: resolve that future
//   startc: async::operator(); spawn: a coroutine type whose initial_suspend is coro_queue::initial_awaiter
//   hop: co_await thread_pool; hopc: co_await thread_pool::current()
//   fwait: blocking future::force_wait()/force_sync() on a pending future which a resolver thread resolves once the
//   caller's thread sleeps (the coroutine does not suspend: it stays the running one across the call)
// Other threads. resume.h creates a std::thread per parallel resumption, thread_pool has a worker thread. The harness
// schedules them deterministically, one thread at a time: `std::thread` inside resume.h is renamed to a recorder that
// defers the start of the thread; the single pool worker is parked in a gate job between two jobs. Whenever ordinary
// code of the main thread is outside every install_queue_and_call block, the deferred threads / pool jobs are run in
// creation order, each to completion (`{p`/`{w` ... `}<is_active() of that thread afterwards>` in the event list)
// while the main thread waits. This is one legal schedule of the real program.
#include "common.h"
#include <climits>
#include <condition_variable>
#include <functional>
#include <mutex>
#include <thread>
#include <chrono>
#include <fstream>
#include <unistd.h>
#include <sys/syscall.h>
#include <cocls/async.h>
#include <cocls/future.h>
#include <cocls/generator.h>
#include <cocls/mutex.h>
#include <cocls/queue.h>
#include <cocls/self.h>

// ---- std::thread as seen by resume.h -------------------------------------------------------------------------------
namespace vhx {
struct fn_base {
    virtual ~fn_base() {}
    virtual void call() = 0;
};
template <typename F>
struct fn_impl : fn_base {
    F f;
    explicit fn_impl(F &&x) : f(std::move(x)) {}
    void call() override { f(); }
};
void defer_thread(std::unique_ptr<fn_base> f);
}  // namespace vhx
namespace std {
struct verif_thread {
    template <typename F>
    explicit verif_thread(F &&f) {
        vhx::defer_thread(std::unique_ptr<vhx::fn_base>(new vhx::fn_impl<std::decay_t<F>>(std::forward<F>(f))));
    }
    void detach() {}
};
}  // namespace std
#define thread verif_thread
#include <cocls/resume.h>
#undef thread
#include <cocls/thread_pool.h>

using namespace cocls;

enum Kind { WAKE, PARK, PARKN, PARKP, WAKEP, PAUSE, SWAP, START, STARTC, SPAWN, CALL, JOIN, HOP, HOPC, FWAIT, END, ENTER, LEAVE,
            LEAVEX, GNEXT, GYIELD, AWAITS, BAD };

struct Act {
    Kind k = BAD;
    char mode = 'd';
    bool rev = false;
    std::vector<int> ids;
    std::vector<int> ids2;  // AWAITS: the targets behind the own handle
    int d = -1;
};

static bool to_nat(const std::string &s, int &out) {
    if (s.empty() || s.size() > 6) return false;
    for (char c : s)
        if (c < '0' || c > '9') return false;
    out = atoi(s.c_str());
    return true;
}

static std::vector<std::string> split_on(const std::string &s, char sep) {
    std::vector<std::string> out;
    std::string cur;
    for (char c : s) {
        if (c == sep) { out.push_back(cur); cur.clear(); }
        else cur.push_back(c);
    }
    out.push_back(cur);
    return out;
}

static char parse_mode(const std::string &m, bool rev) {
    if (m == "a") return 'a';
    if (rev) return 'd';
    if (m == "r") return 'r';
    if (m == "x") return 'x';
    if (m == "p") return 'p';
    return 'd';
}

static Act parse_act(const std::string &tok) {
    Act a;
    auto p = split_on(tok, ':');
    const std::string &k = p[0];
    if ((k == "wake" || k == "gather") && (p.size() == 2 || p.size() == 3)) {
        a.k = WAKE;
        a.rev = k == "gather";
        a.mode = parse_mode(p[1], a.rev);
        if (p.size() == 3)
            for (auto &x : split_on(p[2], ',')) { int v; if (to_nat(x, v)) a.ids.push_back(v); }
    } else if (k == "detach" && p.size() == 3) {
        a.k = WAKE;
        a.mode = parse_mode(p[1], false);
        for (auto &x : split_on(p[2], ',')) { int v; if (to_nat(x, v)) a.ids.push_back(v); }
    } else if (k == "awaits" && p.size() == 3) {
        a.k = AWAITS;
        for (auto &x : split_on(p[1], ',')) { int v; if (to_nat(x, v)) a.ids.push_back(v); }
        for (auto &x : split_on(p[2], ',')) { int v; if (to_nat(x, v)) a.ids2.push_back(v); }
    } else if (p.size() == 1 && k == "park") a.k = PARK;
    else if (p.size() == 1 && k == "parkn") a.k = PARKN;
    else if (p.size() == 1 && k == "parkp") a.k = PARKP;
    else if (p.size() == 1 && k == "pause") a.k = PAUSE;
    else if (p.size() == 1 && k == "swap") a.k = SWAP;
    else if (p.size() == 1 && k == "hop") a.k = HOP;
    else if (p.size() == 1 && k == "hopc") a.k = HOPC;
    else if (p.size() == 1 && k == "fwait") a.k = FWAIT;
    else if (p.size() == 1 && k == "end") a.k = END;
    else if (p.size() == 1 && k == "enter") a.k = ENTER;
    else if (p.size() == 1 && k == "leave") a.k = LEAVE;
    else if (p.size() == 1 && k == "leavex") a.k = LEAVEX;
    else if (p.size() == 1 && k == "gyield") a.k = GYIELD;
    else if (p.size() == 2 && k == "gnext") {
        if (to_nat(p[1], a.d)) a.k = GNEXT;
    }
    else if (p.size() == 2 && (k == "start" || k == "startc" || k == "spawn" || k == "call" || k == "join" || k == "wakep")) {
        if (to_nat(p[1], a.d))
            a.k = k == "start" ? START : k == "startc" ? STARTC : k == "spawn" ? SPAWN : k == "call" ? CALL
                : k == "join" ? JOIN : WAKEP;
    }
    return a;
}

struct Co {
    std::vector<Act> script;
    std::size_t pc = 0;
    bool spawned = false, done = false, running = false, woken = false;
    int parkkind = 0;  // 0 not parked, 1 promise/future, 2 mutex, 3 queue, 4 future through parallel()
    int starter = -2;  // coroutine that holds `fut` (-1: ordinary code)
    unsigned resumes = 0;
    promise<void> slot;
    std::unique_ptr<cocls::mutex> mx;  // declared before `own`: the ownership goes first
    cocls::mutex::ownership own;
    std::unique_ptr<queue<int>> q;
    std::unique_ptr<future<void>> fut;
    // the coroutine is the body of a generator (its first activation was an access)
    bool isgen = false;
    bool atyield = false;  // the body has not started yet or is suspended in co_yield: the generator may be accessed
    malleable_awaiter gaw; // the awaiter of the subscribe() access style (default resume function: does nothing)
    std::unique_ptr<future<int>> gfut;
    std::unique_ptr<generator<int>> gen;  // last: destroyed first
};

// work handed to another thread, in creation order
struct Pending {
    bool pool = false;                    // a job of the thread pool (the worker is parked in the gate before it)
    std::unique_ptr<vhx::fn_base> fn;     // the function of a deferred std::thread of resume.h
};

struct Case {
    int via = 1;
    bool shutdown = false;
    int depth = 0;
    std::vector<std::unique_ptr<Co>> co;
    std::vector<std::string> evs;
    std::deque<Pending> pending;
    // the pool and its gate
    std::unique_ptr<thread_pool> pool;
    std::mutex gmx;
    std::condition_variable gcv;
    int entered = -1, released = -1, ngates = 0, cur_gate = 0;
    bool worker_active = false;
    Co &get(int c) {
        while ((int)co.size() <= c) co.emplace_back(new Co());
        return *co[c];
    }
};

static Case *G = nullptr;

void vhx::defer_thread(std::unique_ptr<vhx::fn_base> f) {
    Pending p;
    p.fn = std::move(f);
    G->pending.push_back(std::move(p));
}

// ---- thread pool gate ----------------------------------------------------------------------------------------------
static void gate(int k) {
    std::unique_lock lk(G->gmx);
    G->worker_active = coro_queue::is_active();
    G->entered = k;
    G->gcv.notify_all();
    G->gcv.wait(lk, [&] { return G->released >= k; });
}
static void post_gate() {
    int k = G->ngates++;
    G->pool->run_detached([k] { gate(k); });
}
static void ensure_pool() {
    if (G->pool) return;
    G->pool.reset(new thread_pool(1));
    post_gate();
    std::unique_lock lk(G->gmx);
    G->gcv.wait(lk, [&] { return G->entered == 0; });
}
static void pool_job_posted() {
    post_gate();
    Pending p;
    p.pool = true;
    G->pending.push_back(std::move(p));
}

// run everything that was handed to other threads, oldest first, one thread at a time, each to completion
static void run_pending() {
    while (!G->pending.empty()) {
        Pending p = std::move(G->pending.front());
        G->pending.pop_front();
        bool act = false;
        ++G->depth;
        if (p.pool) {
            if (!G->shutdown) G->evs.push_back("{w");
            std::unique_lock lk(G->gmx);
            G->released = G->cur_gate;
            G->gcv.notify_all();
            int next = ++G->cur_gate;
            G->gcv.wait(lk, [&] { return G->entered == next; });
            act = G->worker_active;
        } else {
            if (!G->shutdown) G->evs.push_back("{p");
            vhx::fn_base *f = p.fn.get();
            std::thread real([f, &act, &p] {
                f->call();
                p.fn.reset();  // the closure dies in its thread, as in the library
                act = coro_queue::is_active();
            });
            real.join();
        }
        --G->depth;
        if (!G->shutdown) G->evs.push_back(std::string("}") + (act ? "1" : "0"));
    }
}

// ---- blocking wait --------------------------------------------------------------------------------------------------
// state letter of a thread of this process (R running, S sleeping, ...)
static char thread_state(long tid) {
    std::ifstream f("/proc/self/task/" + std::to_string(tid) + "/stat");
    std::string line;
    std::getline(f, line);
    auto p = line.rfind(')');
    return (p != std::string::npos && p + 2 < line.size()) ? line[p + 2] : '?';
}

// force_wait()/force_sync() on a pending future. The resolver is a real other thread (the caller really blocks); it
// resolves only when it has seen the caller's thread asleep (or after a while), so the future is pending when the
// blocking call starts and everything the call does before it blocks has happened.
static void blocking_wait(bool sync_only) {
    future<void> f;
    promise<void> p = f.get_promise();
    long tid = syscall(SYS_gettid);
    std::thread resolver([&p, tid] {
        int asleep = 0;
        for (int i = 0; i < 20000 && asleep < 2; ++i) {
            if (thread_state(tid) == 'S') ++asleep; else asleep = 0;
            std::this_thread::sleep_for(std::chrono::microseconds(50));
        }
        p();
    });
    if (sync_only) f.force_sync(); else f.force_wait();
    resolver.join();
}

static void resumed(int id) {
    Co &c = G->get(id);
    if (c.running && !G->shutdown) G->evs.push_back("REENTRY:" + std::to_string(id));
    c.running = true;
    c.resumes++;
}
static void suspending(int id) { G->get(id).running = false; }

// a coroutine type that enters through the policy interface of coro_queue (initial_awaiter): no future, self-destroying
struct ptask {
    struct promise_type {
        coro_queue q;
        ptask get_return_object() { return {}; }
        coro_queue::initial_awaiter initial_suspend() noexcept {
            bool (*policy)() = &coro_queue::initialize_policy;
            if (!policy()) std::terminate();
            return coro_queue::initial_awaiter(q);
        }
        std::suspend_never final_suspend() noexcept { return {}; }
        void return_void() {}
        void unhandled_exception() { std::terminate(); }
    };
};

template <typename R>
static R body_t(int id);
static async<void> body(int id) { return body_t<async<void>>(id); }
static void gen_access(int d);

// one suspend point with the handles of the wakeable targets, in the order of `ids`
static suspend_point<void> collect(const std::vector<int> &ids) {
    suspend_point<void> sp;
    for (int t : ids) {
        Co &c = G->get(t);
        if (!c.spawned) {
            c.spawned = true;
            if (t % 3 == 1) {
                // async::start(promise): the coroutine is bound to a promise, its handle comes back in a suspend point
                c.fut.reset(new future<void>());
                sp << body(t).start(c.fut->get_promise());
            } else {
                sp << body(t).detach();
            }
        } else if (c.parkkind && c.parkkind != 4) {
            int pk = c.parkkind;
            c.parkkind = 0;
            c.woken = true;
            if (pk == 1) sp << c.slot();
            else if (pk == 2) sp << c.own.release();
            else sp << c.q->push(1);
        }
    }
    return sp;
}

// resolve the future a coroutine awaits through parallel(): parallel::perform_resume creates a thread, returns nothing
static void wake_parallel(int d) {
    if (d >= (int)G->co.size()) return;
    Co &c = G->get(d);
    if (c.parkkind == 4) {
        c.parkkind = 0;
        c.woken = true;
        suspend_point<bool> sp = c.slot();
        if (!sp.empty() && !G->shutdown) G->evs.push_back("PARALLEL-HANDLE:" + std::to_string(d));
    }
}

// `coro_queue::resume(h)` for every handle, in order: the same as dropping the suspend point when a queue is
// installed or when there is one handle
static void drop_via_resume(suspend_point<void> &sp) {
    std::vector<std::coroutine_handle<>> hs;
    while (!sp.empty()) hs.push_back(sp.pop());
    std::reverse(hs.begin(), hs.end());
    if (coro_queue::is_active() || hs.size() <= 1) {
        for (auto h : hs) coro_queue::resume(h);
    } else {
        for (auto h : hs) sp << std::move(h);
    }
}

// the suspend point lives in a local of a block that is left by an exception: destroyed by stack unwinding
static void drop_by_unwinding(const std::vector<int> &ids) {
    try {
        suspend_point<void> sp = collect(ids);
        throw vh::test_exc(1);
    } catch (const vh::test_exc &) {
    }
}

struct swap_pause : std::suspend_always {
    std::coroutine_handle<> await_suspend(std::coroutine_handle<> h) noexcept {
        return coro_queue::resume_handle(coro_queue::swap_coroutine(h));
    }
};

// park on a future, but leave through `coro_queue::resume_handle_next()`
struct park_next {
    co_awaiter<future<void>> aw;
    bool await_ready() noexcept { return false; }
    std::coroutine_handle<> await_suspend(std::coroutine_handle<> h) {
        if (!aw.await_suspend(h)) return h;
        return coro_queue::resume_handle_next();
    }
    void await_resume() { aw.await_resume(); }
};

// co_await pool / co_await thread_pool::current(): the job is followed by a gate so that the worker parks again
template <typename Awt>
struct pool_hop {
    Awt aw;
    bool await_ready() noexcept { return false; }
    void await_suspend(std::coroutine_handle<> h) {
        aw.await_suspend(h);
        pool_job_posted();
    }
    void await_resume() { aw.await_resume(); }
};

template <typename R>
static R body_t(int id) {
    resumed(id);
    for (;;) {
        if (G->shutdown) break;
        Co &me = G->get(id);
        std::size_t k = me.pc++;
        Act a;
        if (k < me.script.size()) a = me.script[k]; else a.k = END;
        G->evs.push_back(std::to_string(id) + "." + std::to_string(k) + "@" + std::to_string(G->depth));
        if (a.k == END) break;
        switch (a.k) {
            case WAKE: {
                if (a.rev) {
                    suspend_point<void> sp = coro_queue::create_suspend_point([&] { (void)collect(a.ids); });
                    if (a.mode == 'a') {
                        bool will = !sp.empty();
                        if (will) suspending(id);
                        co_await sp;
                        if (will) resumed(id);
                    }
                } else if (a.mode == 'x') {
                    drop_by_unwinding(a.ids);
                } else if (a.mode == 'p') {
                    suspend_point<void> sp = collect(a.ids);
                    parallel_resume(std::move(sp));
                } else {
                    suspend_point<void> sp = collect(a.ids);
                    if (a.mode == 'a') {
                        bool will = !sp.empty();
                        if (will) suspending(id);
                        co_await sp;
                        if (will) resumed(id);
                    } else if (a.mode == 'r') {
                        drop_via_resume(sp);
                    }
                }
                break;
            }
            case WAKEP: {
                wake_parallel(a.d);
                break;
            }
            case AWAITS: {
                suspend_point<void> sp = collect(a.ids);
                sp << co_await self();
                sp << collect(a.ids2);
                suspending(id);
                co_await sp;
                resumed(id);
                break;
            }
            case PARK: {
                int via = G->via;
                me.woken = false;
                if (via == 2) {
                    if (!me.mx) {
                        me.mx.reset(new cocls::mutex());
                        me.own = me.mx->try_lock();
                    }
                    me.parkkind = 2;
                    suspending(id);
                    cocls::mutex::ownership o = co_await me.mx->lock();
                    resumed(id);
                    G->get(id).own = std::move(o);
                } else if (via == 3) {
                    if (!me.q) me.q.reset(new queue<int>());
                    me.parkkind = 3;
                    suspending(id);
                    int v = co_await me.q->pop();
                    (void)v;
                    resumed(id);
                } else {
                    future<void> f;
                    me.slot = f.get_promise();
                    me.parkkind = 1;
                    suspending(id);
                    co_await f;
                    resumed(id);
                }
                if (!G->get(id).woken && !G->shutdown) G->evs.push_back("SPURIOUS:" + std::to_string(id));
                break;
            }
            case PARKN: {
                future<void> f;
                me.slot = f.get_promise();
                me.woken = false;
                me.parkkind = 1;
                suspending(id);
                co_await park_next{f.operator co_await()};
                resumed(id);
                if (!G->get(id).woken && !G->shutdown) G->evs.push_back("SPURIOUS:" + std::to_string(id));
                break;
            }
            case PARKP: {
                future<void> f;
                me.slot = f.get_promise();
                me.woken = false;
                me.parkkind = 4;
                suspending(id);
                co_await parallel(f);
                resumed(id);
                if (!G->get(id).woken && !G->shutdown) G->evs.push_back("SPURIOUS:" + std::to_string(id));
                break;
            }
            case PAUSE: {
                suspending(id);
                co_await cocls::pause();
                resumed(id);
                break;
            }
            case SWAP: {
                suspending(id);
                co_await swap_pause();
                resumed(id);
                break;
            }
            case HOP: {
                ensure_pool();
                suspending(id);
                co_await pool_hop<thread_pool::co_awaiter>{G->pool->operator co_await()};
                resumed(id);
                break;
            }
            case FWAIT: {
                blocking_wait(k % 2 == 1);
                break;
            }
            case HOPC: {
                // current_awaiter binds a reference to *_current even outside the pool, so ask first
                if (!thread_pool::current::is_stopped()) {
                    suspending(id);
                    co_await pool_hop<thread_pool::current::current_awaiter>{thread_pool::current().operator co_await()};
                    resumed(id);
                }
                break;
            }
            case START:
            case STARTC: {
                Co &ch = G->get(a.d);
                if (!ch.spawned) {
                    ch.spawned = true;
                    ch.starter = id;
                    ++G->depth;
                    if (a.k == START) ch.fut.reset(new future<void>(body(a.d).start()));
                    else {
                        async<void> tmp = body(a.d);
                        async<void> moved(std::move(tmp));
                        ch.fut.reset(new future<void>(moved()));
                    }
                    --G->depth;
                }
                break;
            }
            case SPAWN: {
                Co &ch = G->get(a.d);
                if (!ch.spawned) {
                    ch.spawned = true;
                    ++G->depth;
                    body_t<ptask>(a.d);
                    --G->depth;
                }
                break;
            }
            case CALL: {
                Co &ch = G->get(a.d);
                if (!ch.spawned) {
                    ch.spawned = true;
                    suspending(id);
                    co_await body(a.d);
                    resumed(id);
                }
                break;
            }
            case JOIN: {
                Co &ch = G->get(a.d);
                if (ch.starter == id && ch.fut) {
                    bool will = !ch.fut->ready();
                    if (will) suspending(id);
                    co_await *ch.fut;
                    if (will) resumed(id);
                }
                break;
            }
            case GNEXT: {
                gen_access(a.d);
                break;
            }
            case GYIELD: {
                if constexpr (std::is_same_v<R, generator<int>>) {
                    me.atyield = true;
                    suspending(id);
                    co_yield int(k);
                    resumed(id);
                }
                break;
            }
            default: break;
        }
    }
    Co &me = G->get(id);
    me.done = true;
    me.running = false;
    co_return;
}

// synchronous / future / callback access to coroutine d as a generator (generator.h: next_sync, next_future, next_awt::subscribe)
static void gen_access(int d) {
    Co &g = G->get(d);
    if (!g.spawned) {
        g.spawned = true;
        g.isgen = true;
        g.atyield = true;  // suspended in initial_suspend: the first access starts the body
        g.gen.reset(new generator<int>(body_t<generator<int>>(d)));
    }
    if (!g.isgen || !g.atyield || g.done || G->shutdown) return;
    g.atyield = false;
    ++G->depth;
    if (d % 3 == 0) {
        bool b = !!g.gen->next();
        (void)b;
    } else if (d % 3 == 1) {
        g.gfut.reset();
        g.gfut.reset(new future<int>((*g.gen)()));
    } else {
        g.gen->next().subscribe(&g.gaw);
    }
    --G->depth;
}

static void main_act(const Act &a) {
    if (a.k == WAKE) {
        ++G->depth;
        if (a.rev) {
            suspend_point<void> sp = coro_queue::create_suspend_point([&] { (void)collect(a.ids); });
        } else if (a.mode == 'x') {
            drop_by_unwinding(a.ids);
        } else if (a.mode == 'p') {
            suspend_point<void> sp = collect(a.ids);
            parallel_resume(std::move(sp));
        } else {
            suspend_point<void> sp = collect(a.ids);
            if (a.mode == 'r') drop_via_resume(sp);
        }
        --G->depth;
    } else if (a.k == WAKEP) {
        wake_parallel(a.d);
    } else if (a.k == FWAIT) {
        blocking_wait(false);
    } else if (a.k == START || a.k == STARTC) {
        Co &ch = G->get(a.d);
        if (!ch.spawned) {
            ch.spawned = true;
            ch.starter = -1;
            ++G->depth;
            if (a.k == START) ch.fut.reset(new future<void>(body(a.d).start()));
            else ch.fut.reset(new future<void>(body(a.d)()));
            --G->depth;
        }
    } else if (a.k == SPAWN) {
        Co &ch = G->get(a.d);
        if (!ch.spawned) {
            ch.spawned = true;
            ++G->depth;
            body_t<ptask>(a.d);
            --G->depth;
        }
    } else if (a.k == GNEXT) {
        gen_access(a.d);
    }
}

// one output line for an "m" line; at the outermost level the other threads get their turn first
static void print_line(const std::string &head, int level) {
    if (level == 0) run_pending();
    vh::emit(head + " a=" + std::to_string((int)coro_queue::is_active()) + " b=" + std::to_string((int)coro_queue::can_block()),
             G->evs);
}

// executes lines until `leave` (returns 0), `leavex` (returns 2) or `end`/EOF (returns 1)
static int run_lines(std::istream &in, int level) {
    std::string line;
    while (std::getline(in, line)) {
        auto w = vh::split(line);
        if (w.empty()) continue;
        if (w[0] == "end") return 1;
        if (w[0] == "a" && w.size() == 3) {
            int c;
            Act a = parse_act(w[2]);
            if (to_nat(w[1], c) && a.k != BAD) {
                G->get(c).script.push_back(a);
                std::cout << "a\n";
            } else std::cout << "bad-op\n";
            continue;
        }
        if (w[0] == "m" && w.size() == 2) {
            Act a = parse_act(w[1]);
            if (a.k == BAD) { std::cout << "bad-op\n"; continue; }
            if (a.k == ENTER) {
                int how = 1;
                ++G->depth;
                try {
                    coro_queue::install_queue_and_call([&] {
                        print_line("m enter", level + 1);
                        how = run_lines(in, level + 1);
                        // the callback ends by throwing: the trailer of install_queue_and_call runs during unwinding
                        if (how == 2) throw vh::test_exc(2);
                    });
                } catch (const vh::test_exc &) {
                }
                --G->depth;
                if (how == 1) return 1;  // events of the trailer are printed with the `end` line
                print_line(how == 2 ? "m leavex" : "m leave", level);
                continue;
            }
            if (a.k == LEAVE || a.k == LEAVEX) {
                if (level > 0) return a.k == LEAVE ? 0 : 2;
                print_line("m " + w[1], level);
                continue;
            }
            main_act(a);
            print_line("m " + w[1], level);
            continue;
        }
        std::cout << "bad-op\n";
    }
    return 1;
}

static void run_case(std::istream &in, int via) {
    Case cs;
    cs.via = via;
    G = &cs;
    coro_queue::instance = nullptr;
    run_lines(in, 0);
    run_pending();
    auto &rq = coro_queue::queue_impl::instance._queue;
    std::ostringstream head;
    unsigned susp = 0;
    for (auto &c : cs.co) if (c->spawned && !c->done) ++susp;
    head << "end a=" << (int)coro_queue::is_active() << " b=" << (int)coro_queue::can_block() << " q=" << rq.size()
         << " susp=" << susp << " res=";
    for (std::size_t i = 0; i < cs.co.size(); ++i) head << (i ? "," : "") << cs.co[i]->resumes;
    vh::emit(head.str(), cs.evs);
    std::cout.flush();
    // shut the case down: everything still suspended is resumed and returns at once. Done by hand (queue installed
    // and drained here) so that the verdict on the case never depends on the code under test once more.
    cs.shutdown = true;
    coro_queue::instance = &coro_queue::queue_impl::instance;
    for (int round = 0; round < 1000; ++round) {
        while (!rq.empty()) {
            auto h = rq.front();
            rq.pop_front();
            h.resume();
        }
        run_pending();
        std::vector<int> ids;
        bool par = false;
        for (std::size_t i = 0; i < cs.co.size(); ++i) {
            if (cs.co[i]->parkkind == 4) { wake_parallel((int)i); par = true; }
            else if (cs.co[i]->parkkind) ids.push_back((int)i);
        }
        if (ids.empty() && !par && rq.empty() && cs.pending.empty()) break;
        { suspend_point<void> sp = collect(ids); }
    }
    coro_queue::instance = nullptr;
    if (cs.pool) {
        {
            std::unique_lock lk(cs.gmx);
            cs.released = INT_MAX;
            cs.gcv.notify_all();
        }
        cs.pool.reset();
    }
    cs.evs.clear();
    cs.co.clear();
    G = nullptr;
}

int main() {
    std::string line;
    while (std::getline(std::cin, line)) {
        auto w = vh::split(line);
        if (w.empty() || w[0] != "case") continue;
        std::cout << "case " << w[1] << "\n";
        int via = 1;
        if (w.size() > 3 && w[3] == "mutex") via = 2;
        else if (w.size() > 3 && w[3] == "queue") via = 3;
        if (w.size() > 2 && w[2] == "exec") run_case(std::cin, via);
        else std::cout << "bad-kind\n";
        std::cout.flush();
    }
    return 0;
}
