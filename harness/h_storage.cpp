// Harness for C19 — coroutine storage policies (coro_storage.h, alloca_storage.h, with_allocator.h).
//
// Three kinds of cases (see checks/c19.py and lean/Drivers/C19.lean for the grammar):
//   case <id> seq <policy> ex=<n> fs=<s0,...,s7> [p=<param>]    sequential: raw alloc/dealloc and real coroutines (kinds 0-3
//                                                                free functions, 4-7 non-static member functions)
//   case <id> sel                                                which argument of the coroutine selects the storage:
//                                                                coroutine signatures as a configuration (see namespace sl)
//   case <id> sched <nthreads>                                   reusable_storage_mtsafe, logical threads = real OS
//                                                                threads under a baton, one step per hooked operation
//                                                                (_busy exchange/store, operator new/delete)
//   case <id> stress <nthreads> <iters> <seed>                   real threads, no baton (oracle only)
//
// Observables: heap events caused *inside* a storage call (global operator new/delete replaced; blocks are
// numbered in the order of their `new`), the block + offset a frame was placed at, canaries inside frames,
// ctor/dtor counters and placement of the extra object. No addresses are printed.
#include <atomic>
#include <cstdint>
#include <cstddef>
#include <cstdio>
#include <cstdlib>
#include <cstring>
#include <new>
#include <map>
#include <set>
#include <deque>
#include <vector>
#include <string>
#include <memory>
#include <mutex>
#include <thread>
#include <condition_variable>
#include <functional>
#include <utility>
#include <cassert>
#include <iostream>
#include <sstream>
#include <coroutine>
#include <csetjmp>
#include <optional>
#include "common.h"
#include <cocls/async.h>
#include <cocls/with_allocator.h>
#include <cocls/function.h>
#include <cocls/alloca_storage.h>

#if defined(__SANITIZE_ADDRESS__)
#include <sanitizer/asan_interface.h>
#define VH_POISON(p, n) ASAN_POISON_MEMORY_REGION(p, n)
#define VH_UNPOISON(p, n) ASAN_UNPOISON_MEMORY_REGION(p, n)
#else
#define VH_POISON(p, n) ((void)0)
#define VH_UNPOISON(p, n) ((void)0)
#endif

// ------------------------------------------------------------------------------------------------
// hooks: every operator new/delete issued inside a storage call and every operation on
// reusable_storage_mtsafe::_busy is a call into the harness
// ------------------------------------------------------------------------------------------------
namespace hk {

struct block { std::size_t id, size; };

thread_local int region = 0;        // > 0: heap calls are attributed to the storage operation in progress
thread_local bool in_hook = false;  // the hook's own bookkeeping allocates
bool stress = false;                // stress mode: counters only (several threads run freely)
bool fail_next = false;             // the next `operator new` issued inside a storage call throws std::bad_alloc
bool cache_on = false;              // one-entry LIFO cache: a freed block is handed to the next `new` of the same size
void *cache_p = nullptr;
std::size_t cache_sz = 0;
std::map<void *, block> *live = nullptr;   // logged live blocks (allocated inside a region)
std::vector<std::string> *events = nullptr;
std::size_t next_id = 0;
std::atomic<long> n_new{0}, n_del{0}, n_foreign_del{0};

// baton (sched mode): called before a hooked operation is performed
void (*yield_hook)(const char *what) = nullptr;

struct guard {
    bool prev;
    guard() : prev(in_hook) { in_hook = true; }
    ~guard() { in_hook = prev; }
};

void reset() {
    guard g;
    if (cache_p) { VH_UNPOISON(cache_p, cache_sz); std::free(cache_p); cache_p = nullptr; }
    if (!live) live = new std::map<void *, block>();
    if (!events) events = new std::vector<std::string>();
    // blocks a case leaked were already reported through `live=<n>`; release them so that the next case starts clean
    for (auto &kv : *live) std::free(kv.first);
    live->clear();
    events->clear();
    next_id = 0;
    n_new = 0; n_del = 0; n_foreign_del = 0;
    cache_on = false;
    fail_next = false;
    stress = false;
}

void *do_new(std::size_t sz) {
    if (in_hook || region <= 0) {
        void *p = std::malloc(sz ? sz : 1);
        if (!p) throw std::bad_alloc();
        return p;
    }
    if (stress) {
        n_new++;
        void *p = std::malloc(sz ? sz : 1);
        if (!p) throw std::bad_alloc();
        return p;
    }
    if (yield_hook) yield_hook("new");
    if (fail_next) {
        fail_next = false;
        guard g;
        events->push_back("fail:" + std::to_string(sz));
        throw std::bad_alloc();
    }
    guard g;
    void *p;
    if (cache_on && cache_p && cache_sz == sz) {
        p = cache_p;
        cache_p = nullptr;
        VH_UNPOISON(p, sz);
    } else {
        p = std::malloc(sz ? sz : 1);
        if (!p) throw std::bad_alloc();
    }
    n_new++;
    std::size_t id = next_id++;
    (*live)[p] = block{id, sz};
    events->push_back("new:b" + std::to_string(id) + ":" + std::to_string(sz));
    return p;
}

void do_delete(void *p) noexcept {
    if (!p) return;
    if (in_hook) { std::free(p); return; }
    if (stress) {
        if (region > 0) n_del++;
        std::free(p);
        return;
    }
    if (region <= 0) {
        guard g;
        if (live) {
            auto it = live->find(p);
            if (it != live->end()) {          // a storage block released outside any storage call
                n_foreign_del++;
                live->erase(it);
            }
        }
        std::free(p);
        return;
    }
    if (yield_hook) yield_hook("del");
    guard g;
    n_del++;
    auto it = live->find(p);
    if (it == live->end()) {
        events->push_back("del:?");            // a block the storage never obtained through `new`
        std::free(p);
        return;
    }
    std::size_t sz = it->second.size;
    events->push_back("del:b" + std::to_string(it->second.id));
    live->erase(it);
    if (cache_on) {
        if (cache_p) { VH_UNPOISON(cache_p, cache_sz); std::free(cache_p); }
        cache_p = p;
        cache_sz = sz;
        VH_POISON(p, sz);
    } else {
        std::free(p);
    }
}

std::string take_events() {
    guard g;
    std::string s;
    for (auto &e : *events) { if (!s.empty()) s += " "; s += e; }
    events->clear();
    return s;
}

struct in_region {
    in_region() { ++region; }
    ~in_region() { --region; }
};

}  // namespace hk

void *operator new(std::size_t sz) { return hk::do_new(sz); }
void *operator new[](std::size_t sz) { return hk::do_new(sz); }
void operator delete(void *p) noexcept { hk::do_delete(p); }
void operator delete[](void *p) noexcept { hk::do_delete(p); }
void operator delete(void *p, std::size_t) noexcept { hk::do_delete(p); }
void operator delete[](void *p, std::size_t) noexcept { hk::do_delete(p); }

// interposed atomic: only coro_storage.h sees `atomic` renamed, everything it includes is already included
namespace std {
template <typename T>
class verif_atomic {
    std::atomic<T> _v;

public:
    verif_atomic() noexcept = default;
    constexpr verif_atomic(T v) noexcept : _v(v) {}
    verif_atomic(const verif_atomic &) = delete;
    verif_atomic &operator=(const verif_atomic &) = delete;
    T load(std::memory_order o = std::memory_order_seq_cst) const noexcept {
        if (hk::yield_hook) hk::yield_hook("load");
        return _v.load(o);
    }
    void store(T v, std::memory_order o = std::memory_order_seq_cst) noexcept {
        if (hk::yield_hook) hk::yield_hook("store");
        _v.store(v, o);
    }
    T exchange(T v, std::memory_order o = std::memory_order_seq_cst) noexcept {
        if (hk::yield_hook) hk::yield_hook("xchg");
        return _v.exchange(v, o);
    }
    bool compare_exchange_strong(T &e, T d, std::memory_order s = std::memory_order_seq_cst) noexcept {
        if (hk::yield_hook) hk::yield_hook("cas");
        return _v.compare_exchange_strong(e, d, s);
    }
    bool compare_exchange_strong(T &e, T d, std::memory_order s, std::memory_order f) noexcept {
        if (hk::yield_hook) hk::yield_hook("cas");
        return _v.compare_exchange_strong(e, d, s, f);
    }
    bool compare_exchange_weak(T &e, T d, std::memory_order s = std::memory_order_seq_cst) noexcept {
        if (hk::yield_hook) hk::yield_hook("cas");
        return _v.compare_exchange_strong(e, d, s);
    }
    bool compare_exchange_weak(T &e, T d, std::memory_order s, std::memory_order f) noexcept {
        if (hk::yield_hook) hk::yield_hook("cas");
        return _v.compare_exchange_strong(e, d, s, f);
    }
    operator T() const noexcept { return load(); }
    T operator=(T v) noexcept { store(v); return v; }
    T raw() const noexcept { return _v.load(std::memory_order_relaxed); }
};
// the free-function spellings (`std::atomic_store_explicit(&a, v, o)` is defined as `a.store(v, o)`): forwarded to the members, so the
// yield hooks fire exactly as for the member spelling
template <typename T> T atomic_load(const verif_atomic<T> *a) noexcept { return a->load(); }
template <typename T> T atomic_load_explicit(const verif_atomic<T> *a, memory_order o) noexcept { return a->load(o); }
template <typename T> void atomic_store(verif_atomic<T> *a, type_identity_t<T> v) noexcept { a->store(v); }
template <typename T> void atomic_store_explicit(verif_atomic<T> *a, type_identity_t<T> v, memory_order o) noexcept { a->store(v, o); }
template <typename T> T atomic_exchange(verif_atomic<T> *a, type_identity_t<T> v) noexcept { return a->exchange(v); }
template <typename T> T atomic_exchange_explicit(verif_atomic<T> *a, type_identity_t<T> v, memory_order o) noexcept { return a->exchange(v, o); }
template <typename T> bool atomic_compare_exchange_weak(verif_atomic<T> *a, type_identity_t<T> *e, type_identity_t<T> d) noexcept {
    return a->compare_exchange_weak(*e, d);
}
template <typename T> bool atomic_compare_exchange_strong(verif_atomic<T> *a, type_identity_t<T> *e, type_identity_t<T> d) noexcept {
    return a->compare_exchange_strong(*e, d);
}
template <typename T> bool atomic_compare_exchange_weak_explicit(verif_atomic<T> *a, type_identity_t<T> *e, type_identity_t<T> d,
                                                                 memory_order s, memory_order f) noexcept {
    return a->compare_exchange_weak(*e, d, s, f);
}
template <typename T> bool atomic_compare_exchange_strong_explicit(verif_atomic<T> *a, type_identity_t<T> *e, type_identity_t<T> d,
                                                                   memory_order s, memory_order f) noexcept {
    return a->compare_exchange_strong(*e, d, s, f);
}
}  // namespace std

#define atomic verif_atomic
#include <cocls/coro_storage.h>
#undef atomic

using namespace cocls;

// ------------------------------------------------------------------------------------------------
// observation wrapper: the real policy is the base class, every alloc/dealloc is recorded and marks
// the region in which heap calls are attributed to the policy
// ------------------------------------------------------------------------------------------------
struct call_rec {
    bool seen = false;
    void *ptr = nullptr;
    std::size_t sz = 0;
};
thread_local call_rec last_alloc, last_dealloc;
thread_local const void *last_alloc_obj = nullptr;   // the storage object whose alloc() served the most recent request
thread_local std::size_t last_req = 0;     // size of the most recent request, recorded before the policy is entered

// A failed library `assert` (static_storage::alloc: frame + trailer larger than the buffer) leaves the guarded call
// instead of aborting the harness: glibc's assert calls __assert_fail, which must not return and must not throw.
static thread_local std::jmp_buf *assert_jmp = nullptr;
extern "C" [[noreturn]] void __assert_fail(const char *e, const char *f, unsigned int l, const char *fn) noexcept {
    if (assert_jmp) {
        std::jmp_buf *j = assert_jmp;
        assert_jmp = nullptr;
        std::longjmp(*j, 1);
    }
    std::fprintf(stderr, "%s:%u: %s: Assertion `%s' failed.\n", f, l, fn ? fn : "?", e);
    std::abort();
}
// runs fn(); false if a library assertion fired inside (nothing with a destructor may be alive inside fn at that
// point: the only such point is the first statement of static_storage::alloc)
template <typename Fn>
[[gnu::noinline]] static bool guarded(Fn &&fn) {
    std::jmp_buf jb;
    if (setjmp(jb)) {
        hk::region = 0;
        return false;
    }
    assert_jmp = &jb;
    fn();
    assert_jmp = nullptr;
    return true;
}

template <typename St>
struct spy : St {
    using St::St;
    void *alloc(std::size_t sz) {
        hk::in_region r;
        last_req = sz;
        void *p = St::alloc(sz);
        last_alloc = call_rec{true, p, sz};
        last_alloc_obj = this;
        return p;
    }
    static void dealloc(void *p, std::size_t sz) {
        hk::in_region r;
        last_dealloc = call_rec{true, p, sz};
        St::dealloc(p, sz);
    }
};

// extra object of promise_extra_storage: every construction / destruction is registered by address
struct extra_reg {
    static inline std::set<const void *> *live = nullptr;
    static inline long ctor = 0, mctor = 0, dtor = 0, bad = 0, misaligned = 0;
    static inline const void *last_ctor = nullptr, *last_dtor = nullptr;
    static inline std::uint64_t last_dtor_tag = 0;
    static void reset() {
        hk::guard g;
        if (!live) live = new std::set<const void *>();
        live->clear();
        ctor = mctor = dtor = bad = misaligned = 0;
        last_ctor = last_dtor = nullptr;
        last_dtor_tag = 0;
    }
    static void born(const void *p, bool moved) {
        hk::guard g;
        if (moved) ++mctor; else ++ctor;
        if (!live->insert(p).second) ++bad;      // constructed over a live object
        if (reinterpret_cast<std::uintptr_t>(p) % alignof(std::uint64_t)) ++misaligned;   // the object checks its own address
        last_ctor = p;
    }
    static void died(const void *p, std::uint64_t tag) {
        hk::guard g;
        ++dtor;
        if (!live->erase(p)) ++bad;              // destroyed twice / never constructed
        last_dtor = p;
        last_dtor_tag = tag;
    }
};

template <std::size_t N>
struct extra_obj {
    static constexpr std::uint64_t MAGIC = 0xC19C19C19C19ull + N;
    std::uint64_t magic;
    std::uint64_t tag;
    unsigned char pad[N - 16];
    explicit extra_obj(std::uint64_t t) : magic(MAGIC), tag(t) { std::memset(pad, 0x5a, sizeof(pad)); extra_reg::born(this, false); }
    extra_obj(extra_obj &&o) : magic(o.magic), tag(o.tag) { std::memset(pad, 0x5a, sizeof(pad)); extra_reg::born(this, true); }
    extra_obj(const extra_obj &o) : magic(o.magic), tag(o.tag) { std::memset(pad, 0x5a, sizeof(pad)); extra_reg::born(this, true); }
    ~extra_obj() {
        std::uint64_t t;                          // placed at frame+sz: may be misaligned for raw sizes
        std::memcpy(&t, reinterpret_cast<const char *>(this) + offsetof(extra_obj, tag), sizeof(t));
        extra_reg::died(this, t);
    }
};
template <> struct extra_obj<16> {
    static constexpr std::uint64_t MAGIC = 0xC19C19C19C19ull + 16;
    std::uint64_t magic;
    std::uint64_t tag;
    explicit extra_obj(std::uint64_t t) : magic(MAGIC), tag(t) { extra_reg::born(this, false); }
    extra_obj(extra_obj &&o) : magic(o.magic), tag(o.tag) { extra_reg::born(this, true); }
    extra_obj(const extra_obj &o) : magic(o.magic), tag(o.tag) { extra_reg::born(this, true); }
    ~extra_obj() {
        std::uint64_t t;
        std::memcpy(&t, reinterpret_cast<const char *>(this) + offsetof(extra_obj, tag), sizeof(t));
        extra_reg::died(this, t);
    }
};

// ------------------------------------------------------------------------------------------------
// frames
// ------------------------------------------------------------------------------------------------
struct gate {
    std::coroutine_handle<> h;
    bool await_ready() const noexcept { return false; }
    void await_suspend(std::coroutine_handle<> hh) noexcept { h = hh; }
    void await_resume() const noexcept {}
};

struct frame_rec {
    std::size_t id = 0;
    char *ptr = nullptr;
    std::size_t sz = 0;
    bool coro = false;
    bool live = false;
    unsigned char pat = 0;
    // coroutine frames
    gate g;
    unsigned char *local = nullptr;   // address of the canary array inside the coroutine
    std::size_t local_n = 0;
    int body_check = -1;              // canary verdict of the coroutine body itself (at completion)
    bool finished = false;
    // extra object
    const void *extra = nullptr;
    std::uint64_t extra_tag = 0;
};

static constexpr std::size_t KIND_N[4] = {8, 72, 300, 1500};

#define VH_CORO_BODY(SALT)                                   \
    unsigned char buf[N];                                    \
    std::memset(buf, fr->pat, N);                            \
    fr->local = buf;                                         \
    fr->local_n = N;                                         \
    co_await fr->g;                                          \
    int ok = (SALT) == 7 ? 1 : 0;                            \
    for (std::size_t i = 0; i < N; ++i)                      \
        if (buf[i] != fr->pat) ok = 0;                       \
    fr->body_check = ok;                                     \
    fr->finished = true;                                     \
    co_return;

// free function: promise operator new(size_t, Allocator&, Args...)
template <typename S, std::size_t N>
with_allocator<S, async<void>> coro_fn(S &, frame_rec *fr) {
    VH_CORO_BODY(7)
}

// non-static member function: promise operator new(size_t, This&, Allocator&, Args...)
struct coro_host {
    int salt = 7;
    template <typename S, std::size_t N>
    with_allocator<S, async<void>> member_fn(S &, frame_rec *fr) {
        VH_CORO_BODY(salt)
    }
};
static coro_host g_host;

struct ext_buf {
    char *base;
    std::size_t size;
};

// ------------------------------------------------------------------------------------------------
// sequential runner, generic over the (spied) storage type
// ------------------------------------------------------------------------------------------------
struct seq_state {
    std::deque<std::unique_ptr<frame_rec>> frames;
    std::vector<ext_buf> ext;
    std::size_t fs[4] = {0, 0, 0, 0};
    bool single = false;           // reusable / placement / buffer: one live frame at a time is the caller's contract;
                                   // a request that breaks it (only shrinking produces one) is skipped on both sides
    std::size_t ex = 0;            // sizeof(T) of promise_extra_storage, 0 = none
    std::uint64_t next_tag = 1000;
    bool throw_next = false;       // the next call of the extra object's factory throws
    std::function<std::string()> after_alloc;   // policy specific observation right after a request was served
    bool fail_new = false;         // this request's `operator new` (if any) throws bad_alloc
};

static std::string where(seq_state &S, const char *p) {
    if (!p) return "null";
    {
        hk::guard g;
        for (auto &kv : *hk::live) {
            const char *b = static_cast<const char *>(kv.first);
            if (p >= b && p < b + (kv.second.size ? kv.second.size : 1))
                return "b" + std::to_string(kv.second.id) + "+" + std::to_string(p - b);
        }
    }
    for (std::size_t k = 0; k < S.ext.size(); ++k) {
        const char *b = S.ext[k].base;
        if (p >= b && p < b + (S.ext[k].size ? S.ext[k].size : 1))
            return "x" + std::to_string(k) + "+" + std::to_string(p - b);
    }
    return "wild";
}

// overlap of [p, p+sz) with another live frame, by real addresses (belt and braces next to the python oracle)
static bool overlaps(seq_state &S, const frame_rec &f) {
    for (auto &o : S.frames) {
        if (!o->live || o.get() == &f) continue;
        if (f.sz == 0 || o->sz == 0) continue;
        if (f.ptr < o->ptr + o->sz && o->ptr < f.ptr + f.sz) return true;
    }
    return false;
}

static bool canary_ok(const frame_rec &f) {
    if (f.coro) {
        if (!f.local) return true;
        for (std::size_t i = 0; i < f.local_n; ++i)
            if (f.local[i] != f.pat) return false;
        return true;
    }
    for (std::size_t i = 0; i < f.sz; ++i)
        if (static_cast<unsigned char>(f.ptr[i]) != f.pat) return false;
    return true;
}

struct ex_snapshot {
    long c, m, d, b;
    ex_snapshot() : c(extra_reg::ctor), m(extra_reg::mctor), d(extra_reg::dtor), b(extra_reg::bad) {}
};

template <typename S>
static std::string extra_after_alloc(seq_state &st, S &stor, frame_rec &f, const ex_snapshot &s0) {
    if constexpr (requires { stor.inventory; }) {
        std::ostringstream os;
        long dc = extra_reg::ctor + extra_reg::mctor - s0.c - s0.m, dd = extra_reg::dtor - s0.d;
        os << " ex=+" << dc << "-" << dd << "@";
        const char *obj = reinterpret_cast<const char *>(stor.inventory);
        f.extra = obj;
        // an offset is printed only when it is plausibly inside the frame's block (never an address-dependent number)
        if (obj && f.ptr && obj >= f.ptr && obj - f.ptr < (1 << 24)) os << (obj - f.ptr); else os << (obj ? "far" : "none");
        bool ok = obj && extra_reg::live->count(obj) == 1 && extra_reg::last_ctor == obj && extra_reg::bad == s0.b;
        long mis = extra_reg::misaligned;
        extra_reg::misaligned = 0;
        if (ok) {
            // usable right away through the storage's accessors (operator* for even frames, operator-> for odd ones):
            // read the magic, check it is the object the factory made for *this* frame
            using T = std::remove_reference_t<decltype(*stor.inventory)>;
            const T *acc = (f.id % 2 == 0) ? &(*stor) : stor.operator->();
            std::uint64_t mg, tg;
            if (f.id % 2 == 0) {
                std::memcpy(&mg, &(*stor).magic, 8);
                std::memcpy(&tg, &(*stor).tag, 8);
            } else {
                std::memcpy(&mg, &stor->magic, 8);
                std::memcpy(&tg, &stor->tag, 8);
            }
            ok = reinterpret_cast<const char *>(acc) == obj && mg == T::MAGIC && tg == st.next_tag - 1;
            // placed at frame + sz: aligned whenever the frame size is (always the case for a real coroutine frame)
            if (f.sz % alignof(std::uint64_t) == 0 && mis != 0) ok = false;
            f.extra_tag = tg;
        }
        os << (ok ? ":ok" : ":bad");
        return os.str();
    } else {
        (void)st; (void)stor; (void)f; (void)s0;
        return "";
    }
}

static std::string extra_after_free(seq_state &st, const frame_rec &f, const ex_snapshot &s0) {
    if (!st.ex) return "";
    std::ostringstream os;
    long dc = extra_reg::ctor + extra_reg::mctor - s0.c - s0.m, dd = extra_reg::dtor - s0.d;
    os << " ex=+" << dc << "-" << dd << "@";
    bool ok = dd == 1 && extra_reg::last_dtor == f.extra && extra_reg::last_dtor_tag == f.extra_tag && extra_reg::bad == s0.b;
    {
        const char *ld = static_cast<const char *>(extra_reg::last_dtor);
        if (ld && f.ptr && dd >= 1 && ld >= f.ptr && ld - f.ptr < (1 << 24)) os << (ld - f.ptr);
        else os << ((ld && dd >= 1) ? "far" : "none");
    }
    os << (ok ? ":ok" : ":bad");
    return os.str();
}

template <typename S>
static async<void> make_coro(S &stor, int kind, frame_rec *f) {
    switch (kind) {
        case 0: return coro_fn<S, KIND_N[0]>(stor, f);
        case 1: return coro_fn<S, KIND_N[1]>(stor, f);
        case 2: return coro_fn<S, KIND_N[2]>(stor, f);
        case 3: return coro_fn<S, KIND_N[3]>(stor, f);
        case 4: return g_host.member_fn<S, KIND_N[0]>(stor, f);
        case 5: return g_host.member_fn<S, KIND_N[1]>(stor, f);
        case 6: return g_host.member_fn<S, KIND_N[2]>(stor, f);
        default: return g_host.member_fn<S, KIND_N[3]>(stor, f);
    }
}

// promise_extra_storage::alloc whose factory throws: no frame and no extra object may remain, and whatever the inner
// policy handed out must have been given back when the exception arrives here
template <typename S>
static std::string op_throw(seq_state &st, S &stor, std::size_t sz, int kind /* -1 raw, else coroutine kind */) {
    frame_rec scratch;
    ex_snapshot s0;
    bool thrown = false;
    st.throw_next = true;
    last_req = 0;
    try {
        if (kind < 0) (void)stor.alloc(sz);
        else { async<void> c = make_coro(stor, kind, &scratch); (void)c; }
    } catch (const vh::test_exc &) {
        thrown = true;
    }
    st.throw_next = false;
    std::ostringstream os;
    os << (kind < 0 ? "athrow" : "cthrow") << " sz=" << last_req << " thrown=" << thrown
       << " ex=+" << (extra_reg::ctor + extra_reg::mctor - s0.c - s0.m) << "-" << (extra_reg::dtor - s0.d);
    return os.str();
}

template <typename S>
static std::string op_alloc(seq_state &st, S &stor, std::size_t sz, int kind /* -1 raw, -2 drop, else coroutine kind */) {
    auto fr = std::make_unique<frame_rec>();
    frame_rec &f = *fr;
    f.id = st.frames.size();
    f.pat = static_cast<unsigned char>(0xA0 + (f.id * 7) % 0x5f);
    ex_snapshot s0;
    last_alloc = call_rec{};
    last_dealloc = call_rec{};
    std::ostringstream os;
    if (kind == -1) {
        bool bad = false;
        hk::fail_next = st.fail_new;
        if (!guarded([&] {
                try { f.ptr = static_cast<char *>(stor.alloc(sz)); } catch (const std::bad_alloc &) { bad = true; }
            })) {
            hk::fail_next = false;
            return "assert sz=" + std::to_string(last_req);
        }
        hk::fail_next = false;
        if (bad) return "afail sz=" + std::to_string(last_req) + " thrown=1";
        f.sz = sz;
        if (f.ptr && sz) std::memset(f.ptr, f.pat, sz);
        os << "alloc#" << f.id << " sz=" << sz;
        if (st.after_alloc) os << st.after_alloc();
    } else {
        f.coro = true;
        const bool drop = sz == std::size_t(-2);
        const int cstart = (sz <= std::size_t(-3) && sz >= std::size_t(-5)) ? static_cast<int>(std::size_t(-3) - sz) : -1;
        os << (drop ? "cdrop#" : cstart >= 0 ? "cstart#" : "coro#") << f.id;
        auto mk = [&]() -> async<void> {
            switch (kind) {
                case 0: return coro_fn<S, KIND_N[0]>(stor, &f);
                case 1: return coro_fn<S, KIND_N[1]>(stor, &f);
                case 2: return coro_fn<S, KIND_N[2]>(stor, &f);
                case 3: return coro_fn<S, KIND_N[3]>(stor, &f);
                case 4: return g_host.member_fn<S, KIND_N[0]>(stor, &f);
                case 5: return g_host.member_fn<S, KIND_N[1]>(stor, &f);
                case 6: return g_host.member_fn<S, KIND_N[2]>(stor, &f);
                default: return g_host.member_fn<S, KIND_N[3]>(stor, &f);
            }
        };
        // `c` is the coroutine object: the frame exists, nothing of the body has run yet
        std::optional<async<void>> copt;
        bool bad = false;
        hk::fail_next = st.fail_new;
        if (!guarded([&] {
                try { copt.emplace(mk()); } catch (const std::bad_alloc &) { bad = true; }
            })) {
            hk::fail_next = false;
            return "assert sz=" + std::to_string(last_req);
        }
        hk::fail_next = false;
        if (bad) return "cfail sz=" + std::to_string(last_req) + " thrown=1";
        async<void> &c = *copt;
        if (last_alloc.seen) { f.ptr = static_cast<char *>(last_alloc.ptr); f.sz = last_alloc.sz; }
        os << " sz=" << f.sz;
        if (st.after_alloc) os << st.after_alloc();
        if (!last_alloc.seen) os << " noalloc";
        std::string w = where(st, f.ptr);
        std::string exs = extra_after_alloc(st, stor, f, s0);
        bool ov = false;
        f.live = true;
        ov = overlaps(st, f);
        if (drop || cstart >= 0) {
            ex_snapshot s1;
            bool started = false;
            if (drop) {
                // created and destroyed without ever being started
                async<void> d(std::move(c));
            } else {
                // async::start(promise) with a promise that cannot be claimed: "retval false ... the coroutine remains
                // suspended" — it still belongs to the async object, whose destructor must release the frame
                future<void> fut;
                promise<void> p0;                               // 0: default constructed
                promise<void> p = cstart == 0 ? std::move(p0) : fut.get_promise();
                promise<void> keep;
                if (cstart == 1) { promise<void> q(std::move(p)); keep = std::move(q); }   // 1: moved-from
                if (cstart == 2) p();                          // 2: already resolved
                {
                    async<void> d(std::move(c));
                    started = d.start(p);
                }
                if (cstart == 1) keep();
            }
            f.live = false;
            os << " at=" << w << exs << (ov ? " OVERLAP" : "");
            os << " freed=" << ((last_dealloc.seen && last_dealloc.ptr == f.ptr && last_dealloc.sz == f.sz) ? "ok" : (last_dealloc.seen ? "mismatch" : "no"));
            os << extra_after_free(st, f, s1);
            if (cstart >= 0) os << " started=" << started;
            st.frames.push_back(std::move(fr));
            return os.str();
        }
        (void)c.detach();   // runs the body up to the gate
        bool in = f.local && reinterpret_cast<char *>(f.local) >= f.ptr &&
                  reinterpret_cast<char *>(f.local) + f.local_n <= f.ptr + f.sz;
        os << " at=" << w << " in=" << in << exs << (ov ? " OVERLAP" : "");
        st.frames.push_back(std::move(fr));
        return os.str();
    }
    f.live = true;
    os << " at=" << where(st, f.ptr) << extra_after_alloc(st, stor, f, s0);
    if (overlaps(st, f)) os << " OVERLAP";
    st.frames.push_back(std::move(fr));
    return os.str();
}

template <typename S>
static std::string op_free(seq_state &st, std::size_t id, const char *how) {
    if (id >= st.frames.size() || !st.frames[id]->live) return "skip";
    frame_rec &f = *st.frames[id];
    std::ostringstream os;
    bool cn = canary_ok(f);
    ex_snapshot s0;
    last_dealloc = call_rec{};
    if (!f.coro) {
        S::dealloc(f.ptr, f.sz);
        os << "free#" << id << " cn=" << (cn ? "ok" : "bad");
    } else if (std::strcmp(how, "kill") == 0) {
        f.g.h.destroy();
        os << "kill#" << id << " cn=" << (cn ? "ok" : "bad");
    } else {
        f.g.h.resume();
        os << "fin#" << id << " cn=" << (cn ? "ok" : "bad") << " body=" << (f.body_check == 1 ? "ok" : f.body_check == 0 ? "bad" : "none");
    }
    f.live = false;
    if (f.coro)
        os << " freed=" << ((last_dealloc.seen && last_dealloc.ptr == f.ptr && last_dealloc.sz == f.sz) ? "ok" : (last_dealloc.seen ? "mismatch" : "no"));
    os << extra_after_free(st, f, s0);
    return os.str();
}

static void out_line(const std::string &head) {
    std::string ev = hk::take_events();
    std::cout << head;
    if (!ev.empty()) std::cout << " ; " << ev;
    std::cout << "\n";
}

static std::map<std::string, std::string> kv_args(const std::vector<std::string> &w, std::size_t from) {
    std::map<std::string, std::string> m;
    for (std::size_t i = from; i < w.size(); ++i) {
        auto p = w[i].find('=');
        if (p != std::string::npos) m[w[i].substr(0, p)] = w[i].substr(p + 1);
    }
    return m;
}

// policy adaptors -----------------------------------------------------------------------------------
// holds a storage object in malloc'ed memory; its destructor runs inside a region (so that the blocks it
// releases are attributed to it), the object's own memory never goes through operator new/delete
template <typename S>
struct holder {
    S *p = nullptr;
    template <typename... A>
    void make(A &&...a) {
        void *raw = std::malloc(sizeof(S));
        p = new (raw) S(std::forward<A>(a)...);
    }
    void destroy() {
        if (!p) return;
        { hk::in_region r; p->~S(); }
        std::free(p);
        p = nullptr;
    }
    ~holder() { destroy(); }
    S &operator*() { return *p; }
    S *operator->() { return p; }
};

template <typename St>
struct single_policy {
    using S = spy<St>;
    holder<S> stor;
    template <typename... A>
    void make(A &&...a) { stor.make(std::forward<A>(a)...); }
    S &sel(std::size_t) { return *stor; }
    bool has(std::size_t) { return true; }
    void destroy() { stor.destroy(); }
};

template <typename Pol>
static void seq_loop(seq_state &st, Pol &pol, std::function<std::string(const std::vector<std::string> &)> special) {
    using S = typename Pol::S;
    std::string line;
    while (std::getline(std::cin, line)) {
        auto w = vh::split(line);
        if (w.empty()) continue;
        if (w[0] == "end") {
            // complete what is still live (in creation order), then destroy the storage
            for (auto &f : st.frames)
                if (f->live) { (void)op_free<S>(st, f->id, "fin"); }
            pol.destroy();
            std::size_t leaked;
            { hk::guard g; leaked = hk::live->size(); }
            std::ostringstream os;
            os << "end live=" << leaked << " exlive=" << (extra_reg::live ? extra_reg::live->size() : 0) << " exbad=" << extra_reg::bad;
            out_line(os.str());
            return;
        }
        std::string head;
        bool occupied = false;
        if (st.single)
            for (auto &f : st.frames) occupied = occupied || f->live;
        if (occupied && (w[0] == "alloc" || w[0] == "coro" || w[0] == "cdrop" || w[0] == "cstart" || w[0] == "athrow" || w[0] == "cthrow" || w[0] == "afail" || w[0] == "cfail")) {
            head = "skip";
        } else if (w[0] == "alloc" && w.size() >= 3) {
            std::size_t k = std::strtoul(w[1].c_str(), nullptr, 10), sz = std::strtoul(w[2].c_str(), nullptr, 10);
            head = pol.has(k) ? op_alloc(st, pol.sel(k), sz, -1) : "skip";
        } else if ((w[0] == "coro" || w[0] == "cdrop") && w.size() >= 3) {
            std::size_t k = std::strtoul(w[1].c_str(), nullptr, 10);
            int kind = std::atoi(w[2].c_str()) & 7;
            head = pol.has(k) ? op_alloc(st, pol.sel(k), w[0] == "cdrop" ? std::size_t(-2) : 0, kind) : "skip";
        } else if ((w[0] == "afail" || w[0] == "cfail") && w.size() >= 3) {
            // the request's operator new (if the policy calls it at all) throws bad_alloc; otherwise an ordinary request
            std::size_t k = std::strtoul(w[1].c_str(), nullptr, 10), v = std::strtoul(w[2].c_str(), nullptr, 10);
            st.fail_new = true;
            if (!pol.has(k)) head = "skip";
            else if (w[0] == "afail") head = op_alloc(st, pol.sel(k), v, -1);
            else head = op_alloc(st, pol.sel(k), 0, static_cast<int>(v & 7));
            st.fail_new = false;
        } else if ((w[0] == "athrow" || w[0] == "cthrow") && w.size() >= 3) {
            std::size_t k = std::strtoul(w[1].c_str(), nullptr, 10), v = std::strtoul(w[2].c_str(), nullptr, 10);
            if (!st.ex || !pol.has(k)) head = "skip";
            else head = op_throw(st, pol.sel(k), v, w[0] == "athrow" ? -1 : static_cast<int>(v & 7));
        } else if (w[0] == "cstart" && w.size() >= 4) {
            std::size_t k = std::strtoul(w[1].c_str(), nullptr, 10);
            int kind = std::atoi(w[2].c_str()) & 7;
            std::size_t mode = std::strtoul(w[3].c_str(), nullptr, 10) % 3;
            head = pol.has(k) ? op_alloc(st, pol.sel(k), std::size_t(-3) - mode, kind) : "skip";
        } else if ((w[0] == "free" || w[0] == "fin" || w[0] == "kill") && w.size() >= 2) {
            head = op_free<S>(st, std::strtoul(w[1].c_str(), nullptr, 10), w[0] == "kill" ? "kill" : "fin");
        } else {
            head = special ? special(w) : "skip";
        }
        out_line(head);
    }
}

static void drain_case() {
    std::string line;
    while (std::getline(std::cin, line)) {
        auto w = vh::split(line);
        if (!w.empty() && w[0] == "end") break;
    }
}

template <std::size_t N>
static auto make_factory(seq_state &st) {
    return [p = &st.next_tag, t = &st.throw_next]() {
        if (*t) {
            *t = false;
            throw vh::test_exc(19);
        }
        return extra_obj<N>((*p)++);
    };
}

template <typename Inner, std::size_t N>
static void run_extra(seq_state &st) {
    single_policy<promise_extra_storage<extra_obj<N>, Inner>> pol;
    pol.make(make_factory<N>(st));
    seq_loop(st, pol, nullptr);
}

template <typename Inner>
static void run_maybe_extra(seq_state &st) {
    if (st.ex == 0) {
        single_policy<Inner> pol;
        pol.make();
        seq_loop(st, pol, nullptr);
    } else if (st.ex == 16) {
        run_extra<Inner, 16>(st);
    } else {
        run_extra<Inner, 40>(st);
    }
}

struct stack_policy {
    using S = spy<stack_storage>;
    std::size_t state = 0;
    std::vector<std::unique_ptr<S>> objs;
    std::vector<void *> bufs;
    S &sel(std::size_t k) { return *objs[k]; }
    bool has(std::size_t k) { return k < objs.size(); }
    void destroy() {
        objs.clear();
        for (void *b : bufs) std::free(b);
        bufs.clear();
    }
};

template <typename Item>
static void run_buffer(seq_state &st) {
    std::vector<Item> buf;
    struct pol_t {
        using S = spy<reusable_buffer_storage<std::vector<Item>>>;
        holder<S> stor;
        std::vector<Item> *b;
        S &sel(std::size_t) { return *stor; }
        bool has(std::size_t) { return true; }
        void destroy() {
            stor.destroy();
            hk::in_region r;
            std::vector<Item>().swap(*b);
        }
    } pol;
    pol.b = &buf;
    pol.stor.make(buf);
    // the user's buffer is the vector's size(), not its capacity: report it (in bytes) after every request
    st.after_alloc = [&buf] { return " bsz=" + std::to_string(buf.size() * sizeof(Item)); };
    seq_loop(st, pol, [&](const std::vector<std::string> &w) -> std::string {
        if (w[0] == "bufset" && w.size() >= 2) {
            hk::in_region r;
            buf.resize(std::strtoul(w[1].c_str(), nullptr, 10));
            return "bufset " + std::to_string(buf.size());
        }
        return "skip";
    });
}

// reusable_storage with a second object: move construction / move assignment / self assignment / capacity()
static void run_reusable_moves(seq_state &st) {
    struct pol_t {
        using S = spy<reusable_storage>;
        holder<S> h[2];
        int cur = 0;
        S &sel(std::size_t) { return *h[cur]; }
        bool has(std::size_t) { return true; }
        void destroy() {
            h[1 - cur].destroy();     // the other object first, then the storage in use
            h[cur].destroy();
        }
    } pol;
    pol.h[0].make();
    pol.h[1].make();
    seq_loop(st, pol, [&](const std::vector<std::string> &w) -> std::string {
        using S = pol_t::S;
        int o = 1 - pol.cur;
        if (w[0] == "mvctor") {
            // the other object is destroyed and re-constructed from the storage: reusable_storage(reusable_storage &&)
            pol.h[o].destroy();
            pol.h[o].make(std::move(*pol.h[pol.cur]));
            pol.cur = o;
        } else if (w[0] == "mvassign") {
            hk::in_region r;
            *pol.h[o] = std::move(*pol.h[pol.cur]);          // operator=(reusable_storage &&)
            pol.cur = o;
        } else if (w[0] == "mvself") {
            hk::in_region r;
            S &self = *pol.h[pol.cur];
            *pol.h[pol.cur] = std::move(self);               // this == &other
        } else if (w[0] == "swapobj") {
            // switching to the other object while a frame lives in this one's block is outside the caller's contract
            for (auto &f : st.frames)
                if (f->live) return "skip";
            pol.cur = o;
        } else {
            return "skip";
        }
        return w[0] + " cap=" + std::to_string(pol.h[pol.cur]->capacity()) + " ocap=" + std::to_string(pol.h[1 - pol.cur]->capacity());
    });
}

// static_storage<N>: its dealloc is a non-static member (it does not model `Storage`); the adaptor supplies the object.
// With the library's assert compiled in (this translation unit) a frame that does not fit is rejected; the NDEBUG
// build of the same class lives in h_storage_nd.cpp (namespace cocls_nd) and is reached through these functions.
namespace ndstat {
void *nd_make(std::size_t space);
void nd_destroy(std::size_t space, void *obj);
void *nd_alloc(std::size_t space, void *obj, std::size_t sz);
void nd_dealloc(std::size_t space, void *obj, void *p, std::size_t sz);
char *nd_buf(std::size_t space, void *obj);
}  // namespace ndstat

template <std::size_t N>
struct sstat : static_storage<N> {
    static inline sstat *cur = nullptr;
    void *alloc(std::size_t sz) {
        hk::in_region r;
        last_req = sz;
        void *p = static_storage<N>::alloc(sz);
        last_alloc = call_rec{true, p, sz};
        return p;
    }
    static void dealloc(void *p, std::size_t sz) {
        hk::in_region r;
        last_dealloc = call_rec{true, p, sz};
        cur->static_storage<N>::dealloc(p, sz);
    }
    char *buf() { return this->VN_static_storage__buffer; }
};

struct ndS {
    static inline std::size_t space = 0;
    static inline void *obj = nullptr;
    void *alloc(std::size_t sz) {
        hk::in_region r;
        last_req = sz;
        void *p = ndstat::nd_alloc(space, obj, sz);
        last_alloc = call_rec{true, p, sz};
        return p;
    }
    static void dealloc(void *p, std::size_t sz) {
        hk::in_region r;
        last_dealloc = call_rec{true, p, sz};
        ndstat::nd_dealloc(space, obj, p, sz);
    }
};

template <std::size_t N>
static void run_static_asserting(seq_state &st) {
    struct pol_t {
        using S = sstat<N>;
        holder<S> stor;
        S &sel(std::size_t) { return *stor; }
        bool has(std::size_t) { return true; }
        void destroy() { stor.destroy(); }
    } pol;
    pol.stor.make();
    sstat<N>::cur = pol.stor.p;
    st.ext.push_back(ext_buf{pol.stor->buf(), N});
    seq_loop(st, pol, nullptr);
    sstat<N>::cur = nullptr;
}

static void run_static_ndebug(seq_state &st, std::size_t space) {
    struct pol_t {
        using S = ndS;
        ndS s;
        S &sel(std::size_t) { return s; }
        bool has(std::size_t) { return true; }
        void destroy() {
            hk::in_region r;
            ndstat::nd_destroy(ndS::space, ndS::obj);
            ndS::obj = nullptr;
        }
    } pol;
    ndS::space = space;
    ndS::obj = ndstat::nd_make(space);
    st.ext.push_back(ext_buf{ndstat::nd_buf(space, ndS::obj), space});
    seq_loop(st, pol, nullptr);
}

static void run_seq(const std::vector<std::string> &w) {
    // case <id> seq <policy> k=v ...
    hk::reset();
    extra_reg::reset();
    seq_state st;
    auto kv = kv_args(w, 4);
    st.ex = kv.count("ex") ? std::strtoul(kv["ex"].c_str(), nullptr, 10) : 0;
    std::size_t param = kv.count("p") ? std::strtoul(kv["p"].c_str(), nullptr, 10) : 0;
    const std::string &pol = w[3];
    st.single = pol == "reusable" || pol == "placement" || pol == "buffer";
    if (pol == "default") run_maybe_extra<default_storage>(st);
    else if (pol == "reusable" && st.ex == 0) run_reusable_moves(st);
    else if (pol == "reusable") run_maybe_extra<reusable_storage>(st);
    else if (pol == "static") {
        bool asserts = !kv.count("a") || kv["a"] != "0";
        std::size_t space = param <= 64 ? 64 : param <= 256 ? 256 : 2048;
        if (!asserts) run_static_ndebug(st, space);
        else if (space == 64) run_static_asserting<64>(st);
        else if (space == 256) run_static_asserting<256>(st);
        else run_static_asserting<2048>(st);
    }
    else if (pol == "mtsafe") run_maybe_extra<reusable_storage_mtsafe>(st);
    else if (pol == "placement") {
        void *b = std::malloc(param ? param : 1);
        st.ext.push_back(ext_buf{static_cast<char *>(b), param});
        single_policy<placement_alloc> p;
        p.make(b);
        seq_loop(st, p, nullptr);
        std::free(b);
    } else if (pol == "stack") {
        stack_policy p;
        p.state = param;
        seq_loop(st, p, [&](const std::vector<std::string> &ww) -> std::string {
            if (ww[0] == "newobj") {
                // the documented use: stack_storage s(state); s = alloca(s);  (a malloc'ed buffer of exactly that
                // size instead of alloca, so that frames may outlive the op and ASan checks the bounds)
                p.objs.emplace_back(new stack_policy::S(p.state));
                std::size_t n = static_cast<std::size_t>(*p.objs.back());
                void *b = std::malloc(n ? n : 1);
                static_cast<stack_storage &>(*p.objs.back()) = b;
                p.bufs.push_back(b);
                st.ext.push_back(ext_buf{static_cast<char *>(b), n});
                return "obj#" + std::to_string(p.objs.size() - 1) + " size=" + std::to_string(n);
            }
            return "skip";
        });
    } else if (pol == "buffer") {
        // element sizes that are powers of two and others (3, 12, 24 bytes)
        struct e3 { char c[3]; };
        struct e12 { float x, y, z; };
        struct e24 { double a, b, c; };
        static_assert(sizeof(e3) == 3 && sizeof(e12) == 12 && sizeof(e24) == 24);
        if (param == 1) run_buffer<char>(st);
        else if (param == 3) run_buffer<e3>(st);
        else if (param == 4) run_buffer<std::uint32_t>(st);
        else if (param == 12) run_buffer<e12>(st);
        else if (param == 24) run_buffer<e24>(st);
        else run_buffer<std::uint64_t>(st);
    } else {
        std::cout << "bad-policy\n";
        drain_case();
    }
}

// ------------------------------------------------------------------------------------------------
// frame sizes of the coroutine kinds (the generator needs them; they depend on the compiler only)
// ------------------------------------------------------------------------------------------------
template <typename St, typename... A>
static void print_sizes(const char *name, A &&...a) {
    seq_state st;
    hk::reset();
    extra_reg::reset();
    single_policy<St> pol;
    pol.make(std::forward<A>(a)...);
    std::cout << "sizes " << name;
    for (int k = 0; k < 8; ++k) {
        (void)op_alloc(st, pol.sel(0), std::size_t(-2), k);
        std::cout << " " << st.frames.back()->sz;
    }
    std::cout << "\n";
    pol.destroy();
}

// ------------------------------------------------------------------------------------------------
// sel mode: WHICH argument of the coroutine selects the storage (custom_allocator_base's operator new overload set).
// Four storage objects: 0, 1 are lvalues of exactly the Allocator type A, 2, 3 are objects of a class D that owns the
// storage of its coroutines by inheritance (D : A).  A coroutine signature ("shape") is spelled <entry>:<pattern>:
// entry f = free function, m = non-static member of a class unrelated to A, d = non-static member of D, l = lambda;
// pattern = the declared parameters, S = A&, D = D&, O = something not convertible to A& (an int); every coroutine has
// a trailing frame_rec* in addition.  Op: `coro <shape> <ids> <n> <sz> <t>`: ids = objects for `this` (entry d) and the
// S / D parameters in order, n = size class of the locals, sz = the frame size the generator expects (unused here),
// t = the object the caller expects to be used: the request is skipped when a frame lives in t (the one-live-frame
// contract of reusable_storage); `fin|kill <frame>`; `end`.
// Observation: sel=<k> is the object whose alloc() was called (by identity), at= the block the frame was placed in.
// ------------------------------------------------------------------------------------------------
namespace sl {

using A = spy<reusable_storage>;
static constexpr std::size_t SN0 = 24, SN1 = 400;

struct D : A {
    int salt = 7;
    template <std::size_t N> with_allocator<A, async<void>> m(frame_rec *fr) { VH_CORO_BODY(salt) }
    template <std::size_t N> with_allocator<A, async<void>> m_o(int, frame_rec *fr) { VH_CORO_BODY(salt) }
    template <std::size_t N> with_allocator<A, async<void>> m_s(A &, frame_rec *fr) { VH_CORO_BODY(salt) }
    template <std::size_t N> with_allocator<A, async<void>> m_ss(A &, A &, frame_rec *fr) { VH_CORO_BODY(salt) }
    template <std::size_t N> with_allocator<A, async<void>> m_so(A &, int, frame_rec *fr) { VH_CORO_BODY(salt) }
};
struct H {
    int salt = 7;
    template <std::size_t N> with_allocator<A, async<void>> m_s(A &, frame_rec *fr) { VH_CORO_BODY(salt) }
    template <std::size_t N> with_allocator<A, async<void>> m_ss(A &, A &, frame_rec *fr) { VH_CORO_BODY(salt) }
    template <std::size_t N> with_allocator<A, async<void>> m_d(D &, frame_rec *fr) { VH_CORO_BODY(salt) }
    template <std::size_t N> with_allocator<A, async<void>> m_ds(D &, A &, frame_rec *fr) { VH_CORO_BODY(salt) }
    template <std::size_t N> with_allocator<A, async<void>> m_sd(A &, D &, frame_rec *fr) { VH_CORO_BODY(salt) }
};
template <std::size_t N> with_allocator<A, async<void>> f_s(A &, frame_rec *fr) { VH_CORO_BODY(7) }
template <std::size_t N> with_allocator<A, async<void>> f_ss(A &, A &, frame_rec *fr) { VH_CORO_BODY(7) }
template <std::size_t N> with_allocator<A, async<void>> f_d(D &, frame_rec *fr) { VH_CORO_BODY(7) }
template <std::size_t N> with_allocator<A, async<void>> f_ds(D &, A &, frame_rec *fr) { VH_CORO_BODY(7) }
template <std::size_t N> with_allocator<A, async<void>> f_dss(D &, A &, A &, frame_rec *fr) { VH_CORO_BODY(7) }
template <std::size_t N> with_allocator<A, async<void>> f_sd(A &, D &, frame_rec *fr) { VH_CORO_BODY(7) }
template <std::size_t N> with_allocator<A, async<void>> f_os(int, A &, frame_rec *fr) { VH_CORO_BODY(7) }
template <std::size_t N> with_allocator<A, async<void>> f_od(int, D &, frame_rec *fr) { VH_CORO_BODY(7) }
template <std::size_t N> with_allocator<A, async<void>> f_so(A &, int, frame_rec *fr) { VH_CORO_BODY(7) }
template <std::size_t N> static auto lam_s() {
    return [](A &, frame_rec *fr) -> with_allocator<A, async<void>> { VH_CORO_BODY(7) };
}
template <std::size_t N> static auto lam_ds() {
    return [](D &, A &, frame_rec *fr) -> with_allocator<A, async<void>> { VH_CORO_BODY(7) };
}

struct env {
    holder<A> p[2];
    holder<D> d[2];
    H host;
    A &S(int id) { return *p[id & 1]; }
    D &Dd(int id) { return *d[id & 1]; }
    int which(const void *o) {
        for (int i = 0; i < 2; ++i) {
            if (p[i].p && o == static_cast<const void *>(p[i].p)) return i;
            if (d[i].p && o == static_cast<const void *>(static_cast<A *>(d[i].p))) return 2 + i;
        }
        return -1;
    }
};

static const char *const SHAPES[] = {"f:S", "f:SS", "f:D", "f:DS", "f:DSS", "f:SD", "f:OS", "f:OD", "f:SO", "m:S", "m:SS", "m:D",
                                     "m:DS", "m:SD", "d:", "d:O", "d:S", "d:SS", "d:SO", "l:S", "l:DS"};

// number of object ids the shape consumes
static std::size_t arity(const std::string &shape) {
    std::size_t n = shape[0] == 'd' ? 1 : 0;
    for (std::size_t i = 2; i < shape.size(); ++i) n += shape[i] != 'O';
    return n;
}

#define VH_SEL(NAME, ...) return n ? std::optional<async<void>>(NAME<SN1>(__VA_ARGS__)) : std::optional<async<void>>(NAME<SN0>(__VA_ARGS__))
static std::optional<async<void>> make(env &e, const std::string &sh, const std::vector<int> &a, int n, frame_rec *f) {
    if (sh == "f:S") VH_SEL(f_s, e.S(a[0]), f);
    if (sh == "f:SS") VH_SEL(f_ss, e.S(a[0]), e.S(a[1]), f);
    if (sh == "f:D") VH_SEL(f_d, e.Dd(a[0]), f);
    if (sh == "f:DS") VH_SEL(f_ds, e.Dd(a[0]), e.S(a[1]), f);
    if (sh == "f:DSS") VH_SEL(f_dss, e.Dd(a[0]), e.S(a[1]), e.S(a[2]), f);
    if (sh == "f:SD") VH_SEL(f_sd, e.S(a[0]), e.Dd(a[1]), f);
    if (sh == "f:OS") VH_SEL(f_os, 5, e.S(a[0]), f);
    if (sh == "f:OD") VH_SEL(f_od, 5, e.Dd(a[0]), f);
    if (sh == "f:SO") VH_SEL(f_so, e.S(a[0]), 5, f);
    if (sh == "m:S") VH_SEL(e.host.m_s, e.S(a[0]), f);
    if (sh == "m:SS") VH_SEL(e.host.m_ss, e.S(a[0]), e.S(a[1]), f);
    if (sh == "m:D") VH_SEL(e.host.m_d, e.Dd(a[0]), f);
    if (sh == "m:DS") VH_SEL(e.host.m_ds, e.Dd(a[0]), e.S(a[1]), f);
    if (sh == "m:SD") VH_SEL(e.host.m_sd, e.S(a[0]), e.Dd(a[1]), f);
    if (sh == "d:") VH_SEL(e.Dd(a[0]).m, f);
    if (sh == "d:O") VH_SEL(e.Dd(a[0]).m_o, 5, f);
    if (sh == "d:S") VH_SEL(e.Dd(a[0]).m_s, e.S(a[1]), f);
    if (sh == "d:SS") VH_SEL(e.Dd(a[0]).m_ss, e.S(a[1]), e.S(a[2]), f);
    if (sh == "d:SO") VH_SEL(e.Dd(a[0]).m_so, e.S(a[1]), 5, f);
    if (sh == "l:S") {
        if (n) { auto l = lam_s<SN1>(); return std::optional<async<void>>(l(e.S(a[0]), f)); }
        auto l = lam_s<SN0>(); return std::optional<async<void>>(l(e.S(a[0]), f));
    }
    if (sh == "l:DS") {
        if (n) { auto l = lam_ds<SN1>(); return std::optional<async<void>>(l(e.Dd(a[0]), e.S(a[1]), f)); }
        auto l = lam_ds<SN0>(); return std::optional<async<void>>(l(e.Dd(a[0]), e.S(a[1]), f));
    }
    return std::nullopt;
}
#undef VH_SEL

static std::vector<int> ids_of(const std::string &s) {
    std::vector<int> r;
    if (s == "-") return r;
    std::size_t i = 0;
    while (i <= s.size()) {
        std::size_t j = s.find(',', i);
        if (j == std::string::npos) j = s.size();
        r.push_back(std::atoi(s.substr(i, j - i).c_str()) & 3);
        i = j + 1;
    }
    return r;
}

static void run(const std::vector<std::string> &) {
    hk::reset();
    extra_reg::reset();
    seq_state st;
    env e;
    for (int i = 0; i < 2; ++i) { e.p[i].make(); e.d[i].make(); }
    std::vector<int> fobj;       // frame -> object that served it
    bool poisoned = false;       // two live frames in one block: nothing of this case may run any more
    std::string line;
    while (std::getline(std::cin, line)) {
        auto w = vh::split(line);
        if (w.empty()) continue;
        if (w[0] == "end") {
            if (!poisoned)
                for (auto &f : st.frames)
                    if (f->live) (void)op_free<A>(st, f->id, "fin");
            for (int i = 0; i < 2; ++i) e.p[i].destroy();
            for (int i = 0; i < 2; ++i) e.d[i].destroy();
            std::size_t leaked;
            { hk::guard g; leaked = hk::live->size(); }
            out_line("end live=" + std::to_string(leaked));
            return;
        }
        std::string head = "skip";
        if (poisoned) {
            head = "poisoned";
        } else if (w[0] == "coro" && w.size() >= 6) {
            const std::string &sh = w[1];
            bool known = false;
            for (auto s : SHAPES) known = known || sh == s;
            std::vector<int> a = ids_of(w[2]);
            int n = std::atoi(w[3].c_str()) & 1;
            int t = std::atoi(w[5].c_str()) & 3;
            bool occupied = false;
            for (auto &f : st.frames) occupied = occupied || (f->live && fobj[f->id] == t);
            if (known && a.size() == arity(sh) && !occupied) {
                // distinct objects in the S positions / D positions are not required: the same object may be passed twice
                auto fr = std::make_unique<frame_rec>();
                frame_rec &f = *fr;
                f.id = st.frames.size();
                f.pat = static_cast<unsigned char>(0xA0 + (f.id * 7) % 0x5f);
                f.coro = true;
                last_alloc = call_rec{};
                last_alloc_obj = nullptr;
                std::ostringstream os;
                {
                    std::optional<async<void>> c = make(e, sh, a, n, &f);
                    if (last_alloc.seen) { f.ptr = static_cast<char *>(last_alloc.ptr); f.sz = last_alloc.sz; }
                    int k = last_alloc.seen ? e.which(last_alloc_obj) : -1;
                    os << "coro#" << f.id << " sz=" << f.sz << " sel=" << (k < 0 ? std::string("?") : std::to_string(k));
                    if (!last_alloc.seen) os << " noalloc";
                    bool busy = false;
                    for (auto &o : st.frames) busy = busy || (o->live && fobj[o->id] == k);
                    f.live = true;
                    bool ov = overlaps(st, f);
                    os << " at=" << where(st, f.ptr);
                    if (busy || ov) {
                        // the storage handed its block to a second frame while the first one is alive: the older frame is
                        // damaged (or its block was released); the new coroutine is destroyed unstarted, nothing else runs
                        poisoned = true;
                        f.live = false;
                        os << (busy ? " BUSY" : "") << (ov ? " OVERLAP" : "");
                    } else {
                        (void)c->detach();
                        bool in = f.local && reinterpret_cast<char *>(f.local) >= f.ptr &&
                                  reinterpret_cast<char *>(f.local) + f.local_n <= f.ptr + f.sz;
                        os << " in=" << in;
                    }
                    fobj.push_back(k);
                }
                st.frames.push_back(std::move(fr));
                head = os.str();
            }
        } else if ((w[0] == "fin" || w[0] == "kill") && w.size() >= 2) {
            head = op_free<A>(st, std::strtoul(w[1].c_str(), nullptr, 10), w[0] == "kill" ? "kill" : "fin");
        }
        out_line(head);
    }
}

// frame sizes of every shape in both size classes (the generator needs them)
static void print_sizes() {
    hk::reset();
    extra_reg::reset();
    env e;
    for (int i = 0; i < 2; ++i) { e.p[i].make(); e.d[i].make(); }
    std::cout << "selsizes";
    for (auto s : SHAPES)
        for (int n = 0; n < 2; ++n) {
            frame_rec f;
            last_alloc = call_rec{};
            std::vector<int> a(arity(s), 0);
            { std::optional<async<void>> c = make(e, s, a, n, &f); }
            std::cout << " " << s << "/" << n << "=" << last_alloc.sz;
        }
    std::cout << "\n";
    for (int i = 0; i < 2; ++i) { e.p[i].destroy(); e.d[i].destroy(); }
}

}  // namespace sl

// ------------------------------------------------------------------------------------------------
// sched mode: logical threads on one reusable_storage_mtsafe, one step per hooked operation
// ------------------------------------------------------------------------------------------------
namespace sc {

struct worker {
    int id = 0;
    std::thread th;
    // command
    enum cmd_t { NONE, ALLOC, FREE, GO, QUIT } cmd = NONE;
    std::size_t arg = 0;       // size / frame index
    std::size_t fid = 0;
    bool in_op = false;        // paused inside an operation
    std::string pending;       // the hooked operation it is about to perform
    bool skip_pause = false;   // the first hooked operation of a command is performed at once
};

std::mutex mx;
std::condition_variable cv;
int turn = -1;                  // -1: controller, otherwise worker id
thread_local worker *self = nullptr;
std::vector<std::unique_ptr<worker>> workers;
spy<reusable_storage_mtsafe> *stor = nullptr;
seq_state *st = nullptr;
std::string step_result;

void to_controller(std::unique_lock<std::mutex> &lk) {
    turn = -1;
    cv.notify_all();
    cv.wait(lk, [] { return turn == self->id; });
}

void yield_hook(const char *what) {
    worker *w = self;
    if (!w) return;
    if (hk::in_hook) return;
    if (w->skip_pause) { w->skip_pause = false; return; }
    std::unique_lock<std::mutex> lk(mx);
    w->pending = what;
    w->in_op = true;
    step_result = std::string("paused@") + what;
    to_controller(lk);
    w->in_op = false;
}

void body(worker *w) {
    self = w;
    std::unique_lock<std::mutex> lk(mx);
    cv.wait(lk, [&] { return turn == w->id; });
    for (;;) {
        auto c = w->cmd;
        w->cmd = worker::NONE;
        if (c == worker::QUIT) { turn = -1; cv.notify_all(); return; }
        lk.unlock();
        std::string res;
        if (c == worker::ALLOC) {
            w->skip_pause = true;
            auto fr = std::make_unique<frame_rec>();
            frame_rec &f = *fr;
            f.id = w->fid;
            f.pat = static_cast<unsigned char>(0xA0 + (f.id * 7) % 0x5f);
            f.sz = w->arg;
            bool bad = false;
            try { f.ptr = static_cast<char *>(stor->alloc(f.sz)); } catch (const std::bad_alloc &) { bad = true; }
            if (bad) {
                res = "failed f" + std::to_string(f.id);
            } else {
                if (f.ptr && f.sz) std::memset(f.ptr, f.pat, f.sz);
                f.live = true;
                res = "done f" + std::to_string(f.id) + " at=" + where(*st, f.ptr);
                if (overlaps(*st, f)) res += " OVERLAP";
                (*st).frames[f.id] = std::move(fr);
            }
        } else if (c == worker::FREE) {
            w->skip_pause = true;
            frame_rec &f = *(*st).frames[w->arg];
            bool cn = canary_ok(f);
            f.live = false;
            spy<reusable_storage_mtsafe>::dealloc(f.ptr, f.sz);
            res = std::string("freed f") + std::to_string(f.id) + " cn=" + (cn ? "ok" : "bad");
        }
        w->skip_pause = false;
        lk.lock();
        step_result = res;
        to_controller(lk);
    }
}

std::string grant(worker *w) {
    std::unique_lock<std::mutex> lk(mx);
    turn = w->id;
    cv.notify_all();
    cv.wait(lk, [] { return turn == -1; });
    return step_result;
}

}  // namespace sc

static void run_sched(const std::vector<std::string> &w) {
    // case <id> sched <nthreads> [cache=1]
    hk::reset();
    extra_reg::reset();
    seq_state st;
    auto kv = kv_args(w, 4);
    int nt = std::max(1, std::min(8, std::atoi(w[3].c_str())));
    hk::cache_on = !kv.count("cache") || kv["cache"] != "0";
    holder<spy<reusable_storage_mtsafe>> stor;
    stor.make();
    sc::stor = stor.p;
    sc::st = &st;
    sc::turn = -1;
    sc::workers.clear();
    for (int i = 0; i < nt; ++i) {
        sc::workers.emplace_back(new sc::worker());
        sc::workers.back()->id = i;
    }
    for (auto &wk : sc::workers) wk->th = std::thread(sc::body, wk.get());
    hk::yield_hook = sc::yield_hook;
    std::size_t nframes = 0;
    std::string line;
    auto idle = [&](sc::worker &wk) { return !wk.in_op; };
    while (std::getline(std::cin, line)) {
        auto ww = vh::split(line);
        if (ww.empty()) continue;
        if (ww[0] == "end") break;
        // <tid> alloc <sz> | <tid> free <frame> | <tid> go ; a command for a thread that is inside an operation continues it
        std::size_t t = std::strtoul(ww[0].c_str(), nullptr, 10);
        if (ww.size() < 2 || t >= sc::workers.size()) { out_line("skip"); continue; }
        sc::worker &wk = *sc::workers[t];
        std::string head = "t" + std::to_string(t) + " ";
        if (!idle(wk)) {
            // `fail`: the operator new this thread is about to call (if that is what it is about to do) throws bad_alloc
            bool fl = ww[1] == "fail" && wk.pending == "new";
            hk::fail_next = fl;
            std::string r = sc::grant(&wk);
            hk::fail_next = false;
            out_line(head + (fl ? "fail " : "go ") + r);
        } else if (ww[1] == "alloc" && ww.size() >= 3) {
            wk.cmd = sc::worker::ALLOC;
            wk.arg = std::strtoul(ww[2].c_str(), nullptr, 10);
            wk.fid = nframes++;
            st.frames.emplace_back(new frame_rec());   // placeholder until the allocation completes
            st.frames.back()->id = wk.fid;
            out_line(head + "alloc " + sc::grant(&wk));
        } else if (ww[1] == "free" && ww.size() >= 3) {
            std::size_t f = std::strtoul(ww[2].c_str(), nullptr, 10);
            if (f >= st.frames.size() || !st.frames[f]->live) { out_line(head + "skip"); continue; }
            wk.cmd = sc::worker::FREE;
            wk.arg = f;
            out_line(head + "free " + sc::grant(&wk));
        } else {
            out_line(head + "skip");
        }
    }
    // finish: drive every thread that is inside an operation to its end (thread order), free what is live, destroy
    for (auto &wk : sc::workers)
        while (!idle(*wk)) (void)sc::grant(wk.get());
    hk::yield_hook = nullptr;
    for (auto &wk : sc::workers) {
        wk->cmd = sc::worker::QUIT;
        (void)sc::grant(wk.get());
        wk->th.join();
    }
    sc::workers.clear();
    for (auto &f : st.frames)
        if (f->live) {
            f->live = false;
            spy<reusable_storage_mtsafe>::dealloc(f->ptr, f->sz);
        }
    stor.destroy();
    std::size_t leaked;
    { hk::guard g; leaked = hk::live->size(); }
    out_line("end live=" + std::to_string(leaked));
    hk::reset();
}

// ------------------------------------------------------------------------------------------------
// stress mode: real threads create and finish real coroutines on one reusable_storage_mtsafe
// ------------------------------------------------------------------------------------------------
static void run_stress(const std::vector<std::string> &w) {
    // case <id> stress <nthreads> <iters> <seed>
    hk::reset();
    extra_reg::reset();
    int nt = std::max(1, std::min(8, std::atoi(w[3].c_str())));
    std::size_t iters = w.size() > 4 ? std::strtoul(w[4].c_str(), nullptr, 10) : 100;
    unsigned seed = w.size() > 5 ? std::strtoul(w[5].c_str(), nullptr, 10) : 1;
    drain_case();
    using S = spy<reusable_storage_mtsafe>;
    holder<S> stor;
    stor.make();
    hk::stress = true;
    std::mutex reg_mx;
    std::vector<frame_rec *> live;
    std::atomic<long> overlap{0}, canary{0}, unfreed{0}, outside{0}, total{0};
    auto worker = [&](int tid) {
        std::uint64_t x = seed * 2654435761u + tid * 40503u + 17;
        auto rnd = [&] { x ^= x << 13; x ^= x >> 7; x ^= x << 17; return x; };
        std::vector<std::unique_ptr<frame_rec>> mine;
        auto finish = [&](std::size_t i) {
            frame_rec &f = *mine[i];
            {
                std::lock_guard<std::mutex> lk(reg_mx);
                live.erase(std::find(live.begin(), live.end(), &f));
            }
            if (!canary_ok(f)) canary++;
            last_dealloc = call_rec{};
            if (rnd() % 5 == 0) f.g.h.destroy(); else {
                f.g.h.resume();
                if (f.body_check != 1) canary++;
            }
            if (!(last_dealloc.seen && last_dealloc.ptr == f.ptr && last_dealloc.sz == f.sz)) unfreed++;
            mine.erase(mine.begin() + i);
        };
        for (std::size_t it = 0; it < iters; ++it) {
            auto fr = std::make_unique<frame_rec>();
            frame_rec &f = *fr;
            f.coro = true;
            f.pat = static_cast<unsigned char>(0x11 + tid * 16 + it % 13);
            last_alloc = call_rec{};
            auto mk = [&]() -> async<void> {
                switch (rnd() % 4) {
                    case 0: return coro_fn<S, KIND_N[0]>(*stor, &f);
                    case 1: return coro_fn<S, KIND_N[1]>(*stor, &f);
                    case 2: return coro_fn<S, KIND_N[2]>(*stor, &f);
                    default: return coro_fn<S, KIND_N[3]>(*stor, &f);
                }
            };
            async<void> c = mk();
            f.ptr = static_cast<char *>(last_alloc.ptr);
            f.sz = last_alloc.sz;
            {
                std::lock_guard<std::mutex> lk(reg_mx);
                for (frame_rec *o : live)
                    if (f.ptr < o->ptr + o->sz && o->ptr < f.ptr + f.sz) overlap++;
                live.push_back(&f);
            }
            total++;
            (void)c.detach();
            if (!(f.local && reinterpret_cast<char *>(f.local) >= f.ptr && reinterpret_cast<char *>(f.local) + f.local_n <= f.ptr + f.sz)) outside++;
            mine.push_back(std::move(fr));
            while (mine.size() > rnd() % 3) finish(rnd() % mine.size());
            if (rnd() % 4 == 0) std::this_thread::yield();
        }
        while (!mine.empty()) finish(0);
    };
    std::vector<std::thread> ths;
    for (int i = 0; i < nt; ++i) ths.emplace_back(worker, i);
    for (auto &t : ths) t.join();
    stor.destroy();
    long bal = hk::n_new.load() - hk::n_del.load();
    std::cout << "end frames=" << total.load() << " overlap=" << overlap.load() << " canary=" << canary.load()
              << " unfreed=" << unfreed.load() << " outside=" << outside.load() << " heap_balance=" << bal << "\n";
    hk::reset();
}

int main(int argc, char **argv) {
    hk::reset();
    extra_reg::reset();
    if (argc > 1 && std::string(argv[1]) == "--selsizes") {
        sl::print_sizes();
        return 0;
    }
    if (argc > 1 && std::string(argv[1]) == "--sizes") {
        seq_state dummy;
        print_sizes<default_storage>("default");
        std::cout.flush();
        if (argc > 2) return 0;      // `--sizes default`: only the plain policy (the others serve as a cross-check)
        print_sizes<reusable_storage>("reusable");
        print_sizes<reusable_storage_mtsafe>("mtsafe");
        std::uint64_t tag = 0;
        print_sizes<promise_extra_storage<extra_obj<16>, reusable_storage>>("extra", [&] { return extra_obj<16>(tag++); });
        return 0;
    }
    std::string line;
    while (std::getline(std::cin, line)) {
        auto w = vh::split(line);
        if (w.empty() || w[0] != "case") continue;
        std::cout << "case " << w[1] << "\n";
        if (w.size() >= 4 && w[2] == "seq") run_seq(w);
        else if (w.size() >= 3 && w[2] == "sel") sl::run(w);
        else if (w.size() >= 4 && w[2] == "sched") run_sched(w);
        else if (w.size() >= 4 && w[2] == "stress") run_stress(w);
        else { std::cout << "bad-kind\n"; drain_case(); }
        std::cout.flush();
    }
    return 0;
}
