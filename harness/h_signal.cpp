// S-harness for cocls::signal<int> / cocls::signal<void> (C15).
// Reads cases from stdin, prints one canonical line per operation (see lean/Drivers/C15.lean).
//
//   case <id> sig <int|void|obj> [hook]   with `hook` there is no signal at first: the first operation must be
//                             (obj: signal<reading>, a class type whose construction can throw - see `reading` below)
//   hlisten <script> [e:<fl>:<v>]... [keep|drop]
//                             a listener on signal<T>::hook_up(fn): its first co_await creates the signal, subscribes,
//                             then passes the collector to fn.  fn calls the collector synchronously once per e-token
//                             (a generator replaying its current value on registration), then stores the collector as
//                             handle 0 (`keep`, default) or lets it go (`drop`: the signal is gone before the co_await returns)
//   hlisten0 <script> ...     = hlisten ... drop
//   listen <script>           coroutine listener; script over {r,g,x}: what it does after the 1st, 2nd ... value
//                             (r = re-await at once, g = wait at a gate until `wake`, then re-await, x = leave);
//                             "-" = empty script; after the script is used up the listener re-awaits for ever
//   tlisten <s1> <s2> ...     the same, but every listener is created and first subscribes on its own thread
//                             (threads released together by a barrier, joined before the line is printed)
//   listen0 <script>          listener on a default constructed (never connected) emitter (odd ids: on an emitter taken
//                             from a moved-from signal object)
//   alisten <script>          = listen, spelled: default constructed emitter, emitter::operator= from a connected one
//   assign <l> live|none|moved|self|copy <k> [mv]
//                             emitter::operator= on the emitter of listener <l> while it is busy at its gate: from a
//                             connected emitter / a default constructed one / one taken from a moved-from signal /
//                             itself / the emitter of listener <k>;  mv = the (defaulted) move assignment
//   connect0 <n>              connect() on a moved-from signal object (no state): the callback is released at once
//   connect <n>               connect a callback that returns true n times, then false (passed as a temporary)
//   connectl <n>              the same, passed as an lvalue functor which the caller destroys as soon as connect() has
//                             returned; a call on a destroyed functor instance is reported as C<id>:deadcall
//   emit <flavour> <v> [hold] collector call from a normal thread; flavour val|rv|lv|conv; without `hold` the
//                             returned suspend point is discarded (= flushed at once); with `hold` it is kept
//                             val = const lvalue (in-place overload, copy), rv = rvalue overload (move), lv = lvalue
//                             reference overload (no copy), conv = in-place construction from constructor arguments.
//                             obj cases only: valx | rvx | convx = the same call, but the construction of the value
//                             THROWS (copy / move of a poisoned source, validating constructor): the exception reaches
//                             the caller, printed as `emit threw` (`!` in a burst / registration list);
//                             lvx = lvalue reference to a poisoned object: nothing is constructed, nothing can throw.
//                             (int / void cases: the x is ignored)
//   flush                     flush (destroy) the oldest held suspend point
//   burst <tok>...            collector calls made from inside a coroutine: a:<fl>:<v> = co_await col(v),
//                             d:<fl>:<v> = col(v) with the suspend point discarded (deferred: coroutine mode), X = drop
//                             every handle
//   newcol | newsig           one more collector / signal handle
//   drop <k>                  destroy handle k
//   wake <id>                 let the gated listener <id> re-await
//   end                       flush held suspend points, drop every handle, wake every gated listener
//
// Events (appended as ` ; e1 e2`, sorted by listener id, per listener in order of occurrence):
//   L<id>:v<val>  L<id>:canceled  C<id>:v<val>  C<id>:free
//   L<id>:vdead = the listener was handed a reference to a `reading` that had already been destroyed
#include "common.h"
#include <cocls/signal.h>
#include <cocls/async.h>
#include <atomic>
#include <mutex>
#include <thread>
#include <variant>
#include <optional>
#include <set>

using namespace cocls;

// The value type of the `obj` cases: construction can fail.
//   reading(v, true)            validating constructor: throws
//   copy / move of a poisoned   throws (the source stays as it is)
// The destructor marks the object, so that a reference handed out after the object's destruction is recognised
// (`vdead`) instead of silently reading the old bytes.
struct reading {
    static constexpr int ALIVE = 0x5a5a1234, DEAD = 0x0dead0de;
    int v;
    bool poison;
    int magic;
    // a failing construction throws from the initialiser of the FIRST member: not a byte of the object has been written
    static int chk(int x, bool fail, int code) {
        if (fail) throw vh::test_exc(code);
        return x;
    }
    explicit reading(int x, bool fail = false) : v(chk(x, fail, 1)), poison(false), magic(ALIVE) {}
    explicit reading(long x) : v((int)x), poison(false), magic(ALIVE) {}
    reading(const reading &o) : v(chk(o.v, o.poison, 2)), poison(false), magic(ALIVE) {}
    reading(reading &&o) : v(chk(o.v, o.poison, 3)), poison(false), magic(ALIVE) {}
    reading &operator=(const reading &) = delete;
    ~reading() { *(volatile int *)&magic = DEAD; }
    bool alive() const { return *(const volatile int *)&magic == ALIVE; }
};

inline std::string vtxt(const int &v) { return std::to_string(v); }
inline std::string vtxt(const reading &r) { return r.alive() ? std::to_string(r.v) : std::string("dead"); }

struct Ctx {
    std::mutex mx;
    std::vector<std::pair<int, std::string>> evs;    // (listener id, text)
    std::atomic<int> live_frames{0};
    std::atomic<int> live_cbs{0};
    std::map<int, std::coroutine_handle<>> gated;
    void ev(int id, std::string s) {
        std::lock_guard<std::mutex> _(mx);
        evs.emplace_back(id, std::move(s));
    }
    std::vector<std::string> take() {
        std::lock_guard<std::mutex> _(mx);
        std::stable_sort(evs.begin(), evs.end(), [](auto &a, auto &b) { return a.first < b.first; });
        std::vector<std::string> out;
        for (auto &e : evs) out.push_back(e.second);
        evs.clear();
        return out;
    }
};

struct frame_guard {
    Ctx &cx;
    explicit frame_guard(Ctx &c) : cx(c) { ++cx.live_frames; }
    frame_guard(const frame_guard &) = delete;
    ~frame_guard() { --cx.live_frames; }
};

struct gate {
    Ctx &cx;
    int id;
    bool await_ready() const noexcept { return false; }
    void await_suspend(std::coroutine_handle<> h) {
        std::lock_guard<std::mutex> _(cx.mx);
        cx.gated[id] = h;
    }
    void await_resume() const noexcept {}
};

template <typename T>
async<void> listener(Ctx &cx, int id, typename signal<T>::emitter &em, std::string script) {
    // `em` is owned by the case (Case::ems), so that `assign` can reach it while the listener is busy at its gate
    frame_guard g(cx);
    std::size_t pc = 0;
    std::string tag = "L" + std::to_string(id);
    try {
        for (;;) {
            if constexpr (std::is_void_v<T>) {
                co_await em;
                cx.ev(id, tag + ":v0");
            } else {
                T &v = co_await em;
                cx.ev(id, tag + ":v" + vtxt(v));
            }
            char a = pc < script.size() ? script[pc++] : 'r';
            if (a == 'x') break;
            if (a == 'g') co_await gate{cx, id};
        }
    } catch (const await_canceled_exception &) {
        cx.ev(id, tag + ":canceled");
    }
}

// the same listener, but on signal<T>::hook_up(): the first co_await creates the signal, subscribes and only then hands
// the collector to the registration function
template <typename T, typename RegFn>
async<void> hook_listener(Ctx &cx, int id, RegFn reg, std::string script) {
    frame_guard g(cx);
    std::size_t pc = 0;
    std::string tag = "L" + std::to_string(id);
    auto em = signal<T>::hook_up(std::move(reg));
    try {
        for (;;) {
            if constexpr (std::is_void_v<T>) {
                co_await em;
                cx.ev(id, tag + ":v0");
            } else {
                T &v = co_await em;
                cx.ev(id, tag + ":v" + vtxt(v));
            }
            char a = pc < script.size() ? script[pc++] : 'r';
            if (a == 'x') break;
            if (a == 'g') co_await gate{cx, id};
        }
    } catch (const await_canceled_exception &) {
        cx.ev(id, tag + ":canceled");
    }
}

// callback functor with instance counting: `free` is reported when the last instance is destroyed
struct cb_shared {
    Ctx *cx;
    int id;
    int left;      // remaining `true` answers
    int live = 0;
};
// registry of the functor instances that exist (by address): a call on an instance that has been destroyed is
// recognised from the address alone, without touching the dead object, and reported as `C<id>:deadcall`
struct fn_registry {
    std::mutex mx;
    std::set<const void *> live;
    std::map<const void *, std::pair<Ctx *, int>> ever;
    void add(const void *p, Ctx *cx, int id) { std::lock_guard<std::mutex> _(mx); live.insert(p); ever[p] = {cx, id}; }
    void del(const void *p) { std::lock_guard<std::mutex> _(mx); live.erase(p); }
    // returns true when p is a live instance; otherwise reports the call on the dead one
    bool check(const void *p) {
        std::pair<Ctx *, int> who{nullptr, -1};
        {
            std::lock_guard<std::mutex> _(mx);
            if (live.count(p)) return true;
            auto it = ever.find(p);
            if (it != ever.end()) who = it->second;
        }
        if (who.first) who.first->ev(who.second, "C" + std::to_string(who.second) + ":deadcall");
        return false;
    }
    void clear() { std::lock_guard<std::mutex> _(mx); live.clear(); ever.clear(); }
};
static fn_registry g_fns;

struct cb_fn {
    std::shared_ptr<cb_shared> s;
    explicit cb_fn(std::shared_ptr<cb_shared> x) : s(std::move(x)) { inc(); }
    cb_fn(const cb_fn &o) : s(o.s) { inc(); }
    cb_fn(cb_fn &&o) : s(o.s) { inc(); }
    ~cb_fn() {
        g_fns.del(this);
        --s->cx->live_cbs;
        if (--s->live == 0) s->cx->ev(s->id, "C" + std::to_string(s->id) + ":free");
    }
    void inc() { ++s->live; ++s->cx->live_cbs; g_fns.add(this, s->cx, s->id); }
    bool answer() const {
        if (s->left > 0) { --s->left; return true; }
        return false;
    }
    bool operator()(int &v) const {
        if (!g_fns.check(this)) return false;
        s->cx->ev(s->id, "C" + std::to_string(s->id) + ":v" + std::to_string(v));
        return answer();
    }
    bool operator()(reading &v) const {
        if (!g_fns.check(this)) return false;
        s->cx->ev(s->id, "C" + std::to_string(s->id) + ":v" + vtxt(v));
        return answer();
    }
    bool operator()() const {
        if (!g_fns.check(this)) return false;
        s->cx->ev(s->id, "C" + std::to_string(s->id) + ":v0");
        return answer();
    }
};

template <typename T>
struct Case {
    using sig_t = signal<T>;
    using col_t = typename sig_t::collector;
    using em_t = typename sig_t::emitter;
    using handle_t = std::variant<std::monostate, sig_t, col_t>;

    Ctx cx;
    std::deque<handle_t> handles;
    em_t em;
    int next_id = 0;
    std::deque<suspend_point<void>> held;
    std::deque<int> lv_int;     // lvalue-reference emits point here (kept alive for the whole case)
    std::deque<bool> lv_bool;
    std::deque<reading> lv_obj;

    bool hook_pending;

    explicit Case(bool hook) : hook_pending(hook) {
        g_fns.clear();
        if (hook) return;       // the signal is created by the first listener's hook_up()
        sig_t s;
        em = s.get_emitter();
        handles.emplace_back(std::move(s));
    }

    std::optional<col_t> any_collector() {
        for (auto &h : handles) {
            if (auto *s = std::get_if<sig_t>(&h)) return s->get_collector();
            if (auto *c = std::get_if<col_t>(&h)) return *c;
        }
        return std::nullopt;
    }
    std::size_t live_handles() const {
        std::size_t n = 0;
        for (auto &h : handles) n += h.index() != 0;
        return n;
    }

    // one collector call of the requested flavour; returns the suspend point.  obj cases: the x-flavours throw
    // vh::test_exc out of the collector (from the value's constructor)
    suspend_point<void> call(const col_t &col, const std::string &flx, int v) {
        const bool x = !flx.empty() && flx.back() == 'x';
        const std::string fl = x ? flx.substr(0, flx.size() - 1) : flx;
        if constexpr (std::is_void_v<T>) {
            if (fl == "rv") return col(true);
            if (fl == "lv") { bool &b = lv_bool.emplace_back(true); return col(b); }
            return col();
        } else if constexpr (std::is_same_v<T, reading>) {
            if (fl == "rv") {                       // rvalue overload: _value_storage.emplace(std::move(val))
                reading r(v);
                r.poison = x;
                return col(std::move(r));
            }
            if (fl == "lv") {                       // lvalue reference overload: only the address is kept
                reading &r = lv_obj.emplace_back(v);
                r.poison = x;
                return col(r);
            }
            if (fl == "conv") return col(v, x);     // in-place overload: reading(int, bool) inside emplace
            reading r(v);                           // in-place overload with a const lvalue: copy inside emplace
            r.poison = x;
            const reading &cr = r;
            return col(cr);
        } else {
            if (fl == "rv") return col(int(v));
            if (fl == "lv") { int &x = lv_int.emplace_back(v); return col(x); }
            if (fl == "conv") return col(long(v));
            const int cv = v;
            return col(cv);
        }
    }

    struct tok { char mode; std::string fl; int v; };

    async<void> burster(std::vector<tok> toks, std::string &head) {
        bool first = true;
        for (auto &t : toks) {
            head += first ? "" : ",";
            first = false;
            if (t.mode == 'X') {
                handles.clear();
                head += "x";
                continue;
            }
            auto col = any_collector();
            if (!col) { head += "-"; continue; }
            std::optional<suspend_point<void>> osp;
            try {
                osp.emplace(call(*col, t.fl, t.v));
            } catch (const vh::test_exc &) {
                // the value could not be constructed: the collector call failed, the emitting coroutine goes on
            }
            col.reset();
            if (!osp) { head += "!"; continue; }
            if (t.mode == 'a') {
                suspend_point<void> sp = std::move(*osp);
                osp.reset();
                head += std::to_string(sp.size());
                co_await sp;
            } else {
                head += std::to_string(osp->size());
                osp.reset();
                // sp destroyed here: in coroutine mode the listeners are only queued
            }
        }
    }

    // the emitters of the coroutine listeners (node based: stable addresses); entries are created on the main thread
    std::map<int, em_t> ems;

    void start_listener(int id, const std::string &script) {
        std::string sc = script == "-" ? std::string() : script;
        listener<T>(cx, id, ems.at(id), sc).detach();
    }

    // an emitter taken from a `signal` object that has no state (moved-from)
    static em_t stateless_emitter() {
        sig_t x;
        sig_t y(std::move(x));
        return x.get_emitter();
    }

    void run(std::istream &in) {
        std::string line;
        while (std::getline(in, line)) {
            auto w = vh::split(line);
            if (w.empty()) continue;
            std::string head;
            if (hook_pending && w[0] != "end") {
                if ((w[0] == "hlisten" || w[0] == "hlisten0") && w.size() >= 2) {
                    // registration program: e:<fl>:<v> = the registration function calls the collector synchronously
                    // (suspend point discarded; we are inside the listener's await_suspend, i.e. in coroutine mode, so
                    // the listener is only queued), then `keep` (default; `hlisten0`: `drop`) the collector
                    hook_pending = false;
                    bool keep = w[0] == "hlisten";
                    std::vector<tok> toks;
                    for (std::size_t i = 2; i < w.size(); ++i) {
                        if (w[i] == "keep") { keep = true; continue; }
                        if (w[i] == "drop") { keep = false; continue; }
                        auto p1 = w[i].find(':');
                        auto p2 = w[i].find(':', p1 + 1);
                        if (p1 == std::string::npos || p2 == std::string::npos) continue;
                        toks.push_back({w[i][0], w[i].substr(p1 + 1, p2 - p1 - 1), atoi(w[i].substr(p2 + 1).c_str())});
                    }
                    int id = next_id++;
                    std::string sc = w[1] == "-" ? std::string() : w[1];
                    std::string rels;
                    if (!keep) handles.emplace_back(std::monostate{});
                    hook_listener<T>(cx, id, [this, keep, toks, &rels](col_t col) {
                        em = sig_t(col).get_emitter();
                        for (auto &t : toks) {
                            rels += rels.empty() ? "" : ",";
                            try {
                                suspend_point<void> sp = call(col, t.fl, t.v);
                                rels += std::to_string(sp.size());
                            } catch (const vh::test_exc &) {
                                rels += "!";       // the registration function handles the failure itself
                            }
                        }
                        if (keep) handles.emplace_back(std::move(col));
                    }, sc).detach();
                    head = w[0] + " L" + std::to_string(id) + (rels.empty() ? "" : " rel=" + rels);
                } else {
                    head = "bad-op";
                }
                auto evs = cx.take();
                vh::emit(head, evs);
                continue;
            }
            if (w[0] == "end") {
                while (!held.empty()) held.pop_front();
                handles.clear();
                for (;;) {
                    std::coroutine_handle<> h;
                    {
                        std::lock_guard<std::mutex> _(cx.mx);
                        if (cx.gated.empty()) break;
                        h = cx.gated.begin()->second;
                        cx.gated.erase(cx.gated.begin());
                    }
                    coro_queue::resume(h);
                }
                auto evs = cx.take();
                vh::emit("end live=" + std::to_string(cx.live_frames.load()) + " cbs=" + std::to_string(cx.live_cbs.load()), evs);
                return;
            } else if (w[0] == "listen" && w.size() == 2) {
                int id = next_id++;
                ems.emplace(id, em);
                start_listener(id, w[1]);
                head = "listen L" + std::to_string(id);
            } else if (w[0] == "alisten" && w.size() == 2) {
                // default constructed emitter, then emitter::operator= from the connected one, then the first co_await
                int id = next_id++;
                ems[id];
                ems.at(id) = em;
                start_listener(id, w[1]);
                head = "alisten L" + std::to_string(id);
            } else if (w[0] == "listen0" && w.size() == 2) {
                int id = next_id++;
                if (id % 2) ems.emplace(id, stateless_emitter()); else ems[id];
                start_listener(id, w[1]);
                head = "listen0 L" + std::to_string(id);
            } else if (w[0] == "assign" && w.size() >= 3) {
                // emitter::operator= on the emitter of a listener that is busy at its gate (nothing is suspended on it):
                // assign <l> live | none | moved | self | copy <k>   [mv = move assignment]
                int id = atoi(w[1].c_str());
                bool gated;
                {
                    std::lock_guard<std::mutex> _(cx.mx);
                    gated = cx.gated.count(id) != 0;
                }
                auto it = ems.find(id);
                bool mv = w.back() == "mv";
                if (!gated || it == ems.end()) {
                    head = "bad-op";
                } else if (w[2] == "self") {
                    em_t &same = it->second;
                    it->second = same;
                    head = "assign";
                } else if (w[2] == "copy") {
                    auto k = w.size() > 3 ? ems.find(atoi(w[3].c_str())) : ems.end();
                    if (k == ems.end()) head = "bad-op";
                    else { it->second = k->second; head = "assign"; }
                } else if (w[2] == "live" || w[2] == "none" || w[2] == "moved") {
                    em_t src = w[2] == "live" ? em : w[2] == "none" ? em_t() : stateless_emitter();
                    if (mv) it->second = std::move(src); else it->second = src;
                    head = "assign";
                } else {
                    head = "bad-op";
                }
            } else if (w[0] == "connect0" && w.size() == 2) {
                // connect() on a signal object without state (moved-from): initial_reg cannot lock, the awaiter deletes itself
                int id = next_id++;
                auto sh = std::make_shared<cb_shared>(cb_shared{&cx, id, atoi(w[1].c_str())});
                sig_t x;
                sig_t y(std::move(x));
                x.connect(cb_fn(sh));
                head = "connect0 C" + std::to_string(id);
            } else if (w[0] == "tlisten" && w.size() >= 2) {
                std::size_t n = w.size() - 1;
                int first = next_id;
                next_id += (int)n;
                for (std::size_t i = 0; i < n; ++i) ems.emplace(first + (int)i, em);
                std::atomic<std::size_t> arrived{0};
                std::vector<std::thread> thr;
                for (std::size_t i = 0; i < n; ++i) {
                    thr.emplace_back([&, i] {
                        ++arrived;
                        while (arrived.load() < n) std::this_thread::yield();
                        start_listener(first + (int)i, w[1 + i]);
                    });
                }
                for (auto &t : thr) t.join();
                head = "tlisten L" + std::to_string(first) + "..L" + std::to_string(first + (int)n - 1);
            } else if ((w[0] == "connect" || w[0] == "connectl") && w.size() == 2) {
                sig_t *s = nullptr;
                std::optional<sig_t> tmp;
                for (auto &h : handles) {
                    if (auto *p = std::get_if<sig_t>(&h)) { s = p; break; }
                }
                if (!s) {
                    for (auto &h : handles) {
                        if (auto *c = std::get_if<col_t>(&h)) { tmp.emplace(sig_t(*c)); s = &*tmp; break; }
                    }
                }
                if (!s) {
                    head = "bad-op";
                } else {
                    int id = next_id++;
                    auto sh = std::make_shared<cb_shared>(cb_shared{&cx, id, atoi(w[1].c_str())});
                    if (w[0] == "connectl") {
                        // connect with an lvalue callable that the caller destroys right away (before the next collector
                        // call): the connection has to own its callback
                        auto fn = std::make_unique<cb_fn>(sh);
                        s->connect(*fn);
                    } else {
                        s->connect(cb_fn(sh));
                    }
                    head = w[0] + " C" + std::to_string(id);
                }
            } else if (w[0] == "emit" && w.size() >= 3) {
                auto col = any_collector();
                if (!col) {
                    head = "bad-op";
                } else {
                    bool hold = w.size() > 3 && w[3] == "hold";
                    try {
                        suspend_point<void> sp = call(*col, w[1], atoi(w[2].c_str()));
                        col.reset();
                        head = "emit rel=" + std::to_string(sp.size());
                        if (hold) held.emplace_back(std::move(sp));
                        // otherwise sp is destroyed at the end of this block: normal thread => listeners run now
                    } catch (const vh::test_exc &) {
                        head = "emit threw";        // nothing to hold: the call returned no suspend point
                    }
                }
            } else if (w[0] == "flush") {
                if (held.empty()) {
                    head = "flush none";
                } else {
                    head = "flush " + std::to_string(held.front().size());
                    held.pop_front();
                }
            } else if (w[0] == "burst" && w.size() >= 2) {
                std::vector<tok> toks;
                for (std::size_t i = 1; i < w.size(); ++i) {
                    if (w[i] == "X") { toks.push_back({'X', "", 0}); continue; }
                    auto p1 = w[i].find(':');
                    auto p2 = w[i].find(':', p1 + 1);
                    toks.push_back({w[i][0], w[i].substr(p1 + 1, p2 - p1 - 1), atoi(w[i].substr(p2 + 1).c_str())});
                }
                head = "burst rel=";
                burster(std::move(toks), head).detach();
            } else if (w[0] == "newcol" || w[0] == "newsig") {
                auto col = any_collector();
                if (!col) {
                    head = "bad-op";
                } else {
                    if (w[0] == "newcol") handles.emplace_back(*col);
                    else handles.emplace_back(sig_t(*col));
                    head = "handle H" + std::to_string(handles.size() - 1);
                }
            } else if (w[0] == "drop" && w.size() == 2) {
                std::size_t k = (std::size_t)atoi(w[1].c_str());
                if (k >= handles.size() || handles[k].index() == 0) {
                    head = "bad-op";
                } else {
                    head = std::string("drop last=") + (live_handles() == 1 ? "1" : "0");
                    handles[k] = std::monostate{};
                }
            } else if (w[0] == "wake" && w.size() == 2) {
                int id = atoi(w[1].c_str());
                std::coroutine_handle<> h;
                {
                    std::lock_guard<std::mutex> _(cx.mx);
                    auto it = cx.gated.find(id);
                    if (it != cx.gated.end()) { h = it->second; cx.gated.erase(it); }
                }
                if (h) { coro_queue::resume(h); head = "wake"; }
                else head = "bad-op";
            } else {
                head = "bad-op";
            }
            auto evs = cx.take();
            vh::emit(head, evs);
        }
    }
};

// ---------------------------------------------------------------------------------------------------------------
// T-style stress (no model, oracle only): listeners subscribe on their own threads *while* the collector thread
// emits / drops the last handle.
//   case <id> race emit <nsub> <ncb> <extra> <seed>   subscribers start while the collector emits 1,2,3,...; the
//         collector goes on until everybody has subscribed plus <extra> more values, then disconnects
//   case <id> race drop <nsub> <ncb> <seed>           subscribers start while the last handle is destroyed
// The raw observations go to `# ...` lines (ignored by the check: they depend on the schedule); the canonical lines say
// per listener whether its observations are a gap-free, duplicate-free run of the emitted sequence from its first value
// up to the last value emitted, followed by exactly one cancellation.
struct race_listener_log {
    std::vector<int> vals;
    int canceled = 0;
    int after_cancel = 0;
};

async<void> race_listener(std::atomic<int> &live, race_listener_log &log, signal<int>::emitter em) {
    ++live;
    try {
        for (;;) {
            int &v = co_await em;
            if (log.canceled) ++log.after_cancel;
            log.vals.push_back(v);
        }
    } catch (const await_canceled_exception &) {
        ++log.canceled;
    }
    --live;
}

struct race_cb_log {
    std::vector<int> vals;
    std::atomic<int> live{0};
    int frees = 0;
};
struct race_cb {
    race_cb_log *log;
    explicit race_cb(race_cb_log *l) : log(l) { ++log->live; }
    race_cb(const race_cb &o) : log(o.log) { ++log->live; }
    race_cb(race_cb &&o) : log(o.log) { ++log->live; }
    ~race_cb() { if (--log->live == 0) ++log->frees; }
    bool operator()(int &v) const { log->vals.push_back(v); return true; }
};

static std::string run_summary(const std::vector<int> &vals, int last, bool must_reach_last) {
    // gap-free, duplicate-free, increasing by one, ending at `last`
    bool contiguous = true;
    for (std::size_t i = 1; i < vals.size(); ++i) contiguous &= vals[i] == vals[i - 1] + 1;
    bool upto = vals.empty() ? !must_reach_last : vals.back() == last;
    bool inrange = vals.empty() || (vals.front() >= 1 && vals.back() <= last);
    std::string s = std::string("contiguous=") + (contiguous ? "1" : "0") + " upto_last=" + (upto ? "1" : "0") + " inrange=" + (inrange ? "1" : "0");
    return s;
}

static void run_race(const std::vector<std::string> &w, std::istream &in) {
    std::string line;
    while (std::getline(in, line)) {
        auto w2 = vh::split(line);
        if (!w2.empty() && w2[0] == "end") break;
    }
    const bool drop_mode = w.size() > 3 && w[3] == "drop";
    const int nsub = w.size() > 4 ? atoi(w[4].c_str()) : 2;
    const int ncb = w.size() > 5 ? atoi(w[5].c_str()) : 0;
    const int extra = drop_mode ? 0 : (w.size() > 6 ? atoi(w[6].c_str()) : 10);
    unsigned seed = (unsigned)atoi(w.back().c_str());
    std::atomic<int> live{0};
    std::vector<race_listener_log> logs(nsub);
    std::vector<race_cb_log> cblogs(ncb);
    std::atomic<int> started{0}, subscribed{0};
    std::atomic<bool> go{false};
    int last = 0;
    {
        std::optional<signal<int>> sig;
        sig.emplace();
        auto em = sig->get_emitter();
        auto col = sig->get_collector();
        std::vector<std::thread> thr;
        const int nthr = nsub + ncb;
        for (int i = 0; i < nthr; ++i) {
            unsigned spin = (seed = seed * 1103515245u + 12345u) >> 16 & 0x3ff;
            // callbacks need a signal object: each thread gets its own copy (a strong reference it drops itself)
            std::shared_ptr<signal<int>> own = i >= nsub ? std::make_shared<signal<int>>(*sig) : nullptr;
            thr.emplace_back([&, i, spin, own]() mutable {
                ++started;
                while (!go.load()) std::this_thread::yield();
                for (unsigned k = 0; k < spin * 20; ++k) asm volatile("" ::: "memory");
                if (i < nsub) {
                    race_listener(live, logs[i], em).detach();
                } else {
                    own->connect(race_cb(&cblogs[i - nsub]));
                    own.reset();
                }
                ++subscribed;
            });
        }
        while (started.load() < nthr) std::this_thread::yield();
        go.store(true);
        if (drop_mode) {
            unsigned spin = (seed = seed * 1103515245u + 12345u) >> 16 & 0x3ff;
            for (unsigned k = 0; k < spin * 20; ++k) asm volatile("" ::: "memory");
            { auto c = std::move(col); }
            sig.reset();        // the last handle of the collector thread; a subscriber may still hold one for a moment
            for (auto &t : thr) t.join();
        } else {
            int more = extra;
            while (subscribed.load() < nthr || more-- > 0) {
                col(++last);    // suspend point discarded: flushed at once
            }
            for (auto &t : thr) t.join();
            { auto c = std::move(col); }
            sig.reset();
        }
    }
    std::cout << "# emitted " << last << "\n";
    for (int i = 0; i < nsub; ++i) {
        auto &l = logs[i];
        std::cout << "# L" << i << " n=" << l.vals.size();
        if (!l.vals.empty()) std::cout << " first=" << l.vals.front() << " last=" << l.vals.back();
        std::cout << "\n";
        std::cout << "L" << i << " " << run_summary(l.vals, last, !drop_mode && extra > 0) << " canceled=" << l.canceled
                  << " after_cancel=" << l.after_cancel << "\n";
    }
    for (int i = 0; i < ncb; ++i) {
        auto &l = cblogs[i];
        std::cout << "# C" << i << " n=" << l.vals.size() << "\n";
        std::cout << "C" << i << " " << run_summary(l.vals, last, !drop_mode && extra > 0) << " frees=" << l.frees << " live=" << l.live.load() << "\n";
    }
    std::cout << "end live=" << live.load() << "\n";
}

int main() {
    std::string line;
    while (std::getline(std::cin, line)) {
        auto w = vh::split(line);
        if (w.empty() || w[0] != "case") continue;
        std::cout << "case " << w[1] << "\n";
        if (w.size() > 2 && w[2] == "race") { run_race(w, std::cin); std::cout.flush(); continue; }
        const std::string kind = w.size() > 3 ? w[3] : "int";
        const bool hook = w.size() > 4 && w[4] == "hook";
        if (kind == "void") { Case<void> c(hook); c.run(std::cin); }
        else if (kind == "obj") { Case<reading> c(hook); c.run(std::cin); }
        else { Case<int> c(hook); c.run(std::cin); }
        std::cout.flush();
    }
    return 0;
}
