// S-harness for the life cycle of cocls::async<T> (C04): scripted coroutine bodies, every start mode,
// RAII guards on arguments and locals, counting frame storage (with_allocator / coroutine_traits).
// Reads cases from stdin, prints one canonical line per input line (see lean/Drivers/C04.lean).
//
//   case <id> async <int|void|mo|ref|pk> <nExt>   (ref: async<int &>, results are references to cells of a static array;
//                                                   pk: async<picky>, a result type whose construction can THROW - see struct picky)
//   coro <i> <act>...        script of instance i (acts below)                      -> "def"
//   new i | drop i | detach i | start i | fut i | fcoro i | startp i k | startpm i k (rvalue overload) | join i v | pool i
//   startop i   start(promise) into the result future of an operation object (future + completion callback) whose
//               only owner is the coroutine's own frame (held by its argument)
//   set k v | exc k code | dropp k | tset k v | texc k code       (t*: from a second thread)
//   end
// acts: c | w<k> W<k> (await external future k; capital = exception not caught) | a<j> A<j> (co_await child)
//       | s<j> S<j> (child.start() then co_await the future) | f<j> F<j> (future<T> f(child)) | r<j> R<j> (child is a
//       future<T>-coroutine) | d<j> (child.detach() discarded) | D<j> (co_await child.detach()) | u<j> (child dropped
//       unstarted) | t<code> (throw) | v<val> (co_return val + sum of awaited values; for pk the operand is a long: the
//       result is constructed inside the bound future by the converting constructor) | k<val> (same value, but the operand
//       is a const object of the result type: the result is COPY-constructed inside the bound future; = v for the other types)
//   The `r<i>=` event is what the body ended with: its value, or the exception that left it - including the exception thrown
//   by the construction of the result value at co_return (it propagates out of `co_return` through the body).
#include "common.h"
#include <cocls/async.h>
#include <cocls/thread_pool.h>
#include <atomic>
#include <mutex>
#include <thread>
#include <optional>
#include <unistd.h>

using namespace cocls;
using vh::test_exc;

struct mo {   // move-only result type
    std::unique_ptr<long> p;
    explicit mo(long v) : p(new long(v)) {}
    mo(mo &&) = default;
    mo &operator=(mo &&) = default;
    long get() const { return p ? *p : -777; }
};

// result type whose construction can throw: the converting constructor throws for v % 4 == 1, the copy constructor for
// v % 4 == 2 (lean/Drivers/C04.lean: pickyExc); moving never throws and empties the source; pk_raw builds any value
struct pk_raw_t {};
static constexpr pk_raw_t pk_raw{};
struct picky {
    std::unique_ptr<long> p;
    picky(long v) : p(new long(v)) {
        if (v % 4 == 1) throw test_exc(20 + (int)(v % 3));
    }
    picky(pk_raw_t, long v) : p(new long(v)) {}
    picky(const picky &o) : p(new long(o.get())) {
        if (o.get() % 4 == 2) throw test_exc(30 + (int)(o.get() % 3));
    }
    picky(picky &&) noexcept = default;
    picky &operator=(picky &&) noexcept = default;
    long get() const { return p ? *p : -777; }
};

struct act_t {
    char kind;
    long n;
};

struct holder {   // lives in the frame (member of the argument guard); may own an operation object
    std::shared_ptr<void> op;
};

struct ctx {
    std::mutex mx;
    std::map<int, std::weak_ptr<holder>> holders;
    std::vector<std::pair<std::pair<int, long>, std::string>> evs;   // ((kind, key), text)
    std::map<int, std::vector<act_t>> scripts;
    std::map<int, int> inst;   // 0 absent, 1 unstarted at top level, 2 consumed
    void ev(int kind, long key, const std::string &s) {
        std::lock_guard _(mx);
        evs.push_back({{kind, key}, s});
    }
    std::vector<act_t> script(int id) {
        std::lock_guard _(mx);
        auto it = scripts.find(id);
        return it == scripts.end() ? std::vector<act_t>() : it->second;
    }
    bool take_absent(int id) {   // claim an instance id for creation
        std::lock_guard _(mx);
        int &s = inst[id];
        if (s != 0) return false;
        s = 2;
        return true;
    }
};
static ctx *g_cx = nullptr;

// counting frame storage: header in front of the block remembers the instance
struct cstorage {
    int id;
    void *alloc(std::size_t sz) {
        char *p = static_cast<char *>(::operator new(sz + 16));
        *reinterpret_cast<int *>(p) = id;
        *reinterpret_cast<std::size_t *>(p + 8) = sz;
        g_cx->ev(0, id, "+f" + std::to_string(id));
        if (getenv("H_ASYNC_SZ")) fprintf(stderr, "frame %d size %zu (mod 16: %zu)\n", id, sz, sz % 16);
        return p + 16;
    }
    static void dealloc(void *ptr, std::size_t sz) {
        char *p = static_cast<char *>(ptr) - 16;
        int id = *reinterpret_cast<int *>(p);
        std::size_t s0 = *reinterpret_cast<std::size_t *>(p + 8);
        g_cx->ev(6, id, (s0 == sz ? "-f" : "-f?") + std::to_string(id));
        ::operator delete(p);
    }
};
static std::deque<cstorage> g_stores;
static std::mutex g_stores_mx;
static cstorage &store_for(int id) {
    std::lock_guard _(g_stores_mx);
    g_stores.push_back(cstorage{id});
    return g_stores.back();
}

struct guard {   // RAII guard; only the object that currently owns the token reports its destruction
    int id;
    char tag;
    bool owner;
    std::shared_ptr<holder> keep;   // destroyed after the destructor body: with the frame
    guard(int i, char t) : id(i), tag(t), owner(true) {
        if (t == 'a') {
            keep = std::make_shared<holder>();
            std::lock_guard _(g_cx->mx);
            g_cx->holders[i] = keep;
        }
    }
    guard(guard &&o) : id(o.id), tag(o.tag), owner(std::exchange(o.owner, false)), keep(std::move(o.keep)) {}
    guard(const guard &) = delete;
    ~guard() {
        if (owner) g_cx->ev(tag == 'a' ? 5 : 4, id, std::string("~") + tag + std::to_string(id));
    }
};

template <typename T> using async_t = with_allocator<cstorage, async<T>>;

// future<T>-returning coroutines (promise_type = async_promise<T>) allocated through the same counting storage
template <typename T, typename... Args>
struct std::coroutine_traits<cocls::future<T>, cstorage &, Args...> {
    using promise_type = custom_allocator_base<cstorage, async_promise<T>>;
};

static std::string classify(std::exception_ptr ep) {
    try {
        std::rethrow_exception(ep);
    } catch (const await_canceled_exception &) {
        return "canceled";
    } catch (const test_exc &e) {
        return "exc:" + std::to_string(e.code);
    } catch (const value_not_ready_exception &) {
        return "notready";
    } catch (...) {
        return "other";
    }
}

template <typename T> struct ext_t {
    std::unique_ptr<future<T>> fut;
    std::unique_ptr<promise<T>> prom;
    bool reported = false;
};
template <typename T> struct world {
    std::vector<ext_t<T>> ext;
    static world *cur;
};
template <typename T> world<T> *world<T>::cur = nullptr;

// result type `int &` ("ref"): the coroutine returns a reference to cell k of a static array (cell k holds k); the
// receiving party checks the IDENTITY of what it got (-1: not the named object / dangling, -2: right object, wrong content)
static constexpr long NCELLS = 1L << 20;
static int g_cells[NCELLS];
inline long cell_index(int &r) {
    int *p = &r;
    if (p < g_cells || p >= g_cells + NCELLS) return -1;
    long k = p - g_cells;
    return r == k ? k : -2;
}
template <typename T> long peek(std::remove_reference_t<T> &v) {
    if constexpr (std::is_reference_v<T>) return cell_index(v);
    else if constexpr (std::is_same_v<T, mo> || std::is_same_v<T, picky>) return v.get();
    else return v;
}
template <typename T> long take(std::remove_reference_t<T> &v) {
    if constexpr (std::is_same_v<T, mo>) { mo m(std::move(v)); return m.get(); }
    else if constexpr (std::is_same_v<T, picky>) { picky m(std::move(v)); return m.get(); }
    else return peek<T>(v);
}
inline std::string vstr(long v) { return v == -1 ? "v:dangling" : v == -2 ? "v:corrupt" : "v:" + std::to_string(v); }
template <typename T> decltype(auto) mk(long v) {
    if constexpr (std::is_reference_v<T>) return (g_cells[v < 0 ? 0 : v % NCELLS]);
    else if constexpr (std::is_same_v<T, picky>) return picky(pk_raw, v);
    else return T(v);
}

// frame sizes of both residues mod 16 for every result type: the coroutine functions take a padding argument (kept in the
// frame) of 8 or 16 bytes, chosen by the parity of the instance id (a size-sensitive storage sees frames that are and frames
// that are not a multiple of alignof(max_align_t)); H_ASYNC_SZ=1 prints the sizes
template <int N> struct pad_t { char b[N]; };
static volatile long g_pad_sink = 0;
template <typename T, int P> async_t<T> coro_fn(cstorage &st, int id, guard g, std::vector<act_t> sc, pad_t<P> padv);
template <typename T, int P> future<T> fcoro_fn(cstorage &st, int id, guard g, std::vector<act_t> sc, pad_t<P> padv);

template <typename T> async_t<T> make(int id) {
    if (id % 2) return coro_fn<T, 8>(store_for(id), id, guard(id, 'a'), g_cx->script(id), pad_t<8>{});
    return coro_fn<T, 16>(store_for(id), id, guard(id, 'a'), g_cx->script(id), pad_t<16>{});
}
template <typename T> future<T> make_f(int id) {
    if (id % 2) return fcoro_fn<T, 8>(store_for(id), id, guard(id, 'a'), g_cx->script(id), pad_t<8>{});
    return fcoro_fn<T, 16>(store_for(id), id, guard(id, 'a'), g_cx->script(id), pad_t<16>{});
}

// `co_await EXPR`, value extracted with GET; exceptions caught iff the act says so; SRC names the awaited party
#define SAW(O) g_cx->ev(2, id * 1000L + nsaw, "s" + std::to_string(id) + "." + std::to_string(nsaw) + ":" + (SRCV) + "=" + (O)), ++nsaw
#define AWAIT_STEP(EXPR, GET, SRC)                                                         \
    do {                                                                                   \
        const std::string SRCV = SRC;                                                      \
        if (caught) {                                                                      \
            std::string o;                                                                 \
            try {                                                                          \
                if constexpr (std::is_void_v<T>) { co_await EXPR; o = "ok"; }              \
                else { long v = GET<T>(co_await EXPR); if (v > 0) acc += v; o = vstr(v); }    \
            } catch (...) { o = classify(std::current_exception()); }                      \
            SAW(o);                                                                        \
        } else {                                                                           \
            std::string o;                                                                 \
            if constexpr (std::is_void_v<T>) { co_await EXPR; o = "ok"; }                  \
            else { long v = GET<T>(co_await EXPR); if (v > 0) acc += v; o = vstr(v); }     \
            SAW(o);                                                                        \
        }                                                                                  \
    } while (0)

// reports what the body ended with when the body's scope is left (normally or by an exception): at `co_return` the value
// named there - unless constructing the result from it throws, then that exception (set by the handler below)
struct result_reporter {
    int id;
    std::string o;
    ~result_reporter() { if (o != "?") g_cx->ev(3, id, "r" + std::to_string(id) + "=" + o); }   // "?": frame destroyed while suspended
};
#define RESULT(O) rr.o = (O)
#define VALSTR(V) (std::is_void_v<T> ? std::string("ok") : "v:" + std::to_string(V))
// the three spellings of co_return: nothing / an operand the result is converted from (pk: long -> picky(long) inside the
// bound future; others: a prvalue of T moved there) / a const object of the result type (copied there)
#define CO_RETURN(COPY, V)                                                                 \
    if constexpr (std::is_void_v<T>) co_return;                                            \
    else if constexpr (std::is_same_v<T, picky>) {                                         \
        if (COPY) { picky tmp(pk_raw, (V)); co_return std::as_const(tmp); }                \
        else co_return (long)(V);                                                          \
    } else co_return mk<T>(V)

#define CORO_BODY()                                                                        \
    g_cx->ev(1, id, "b" + std::to_string(id));                                             \
    guard local(id, 'l');                                                                  \
    result_reporter rr{id, "?"};                                                           \
    struct pad_use { pad_t<P> &p; ~pad_use() { g_pad_sink = g_pad_sink + p.b[0]; } } pu{padv};  \
    long acc = 0;                                                                          \
    int nsaw = 0;                                                                          \
    try {                                                                                  \
    for (std::size_t pc = 0; pc < sc.size(); ++pc) {                                       \
        const char kind = sc[pc].kind;                                                     \
        const long n = sc[pc].n;                                                           \
        const bool caught = kind >= 'a' && kind <= 'z';                                    \
        const std::string cn = "c" + std::to_string(n);                                    \
        switch (kind) {                                                                    \
            case 'c': acc += 0; break;                                                     \
            case 'w': case 'W':                                                            \
                if (n >= 0 && n < (long)world<T>::cur->ext.size()) {                       \
                    AWAIT_STEP(*world<T>::cur->ext[n].fut, peek, "x" + std::to_string(n)); \
                }                                                                          \
                break;                                                                     \
            case 'a': case 'A':                                                            \
                if (g_cx->take_absent((int)n)) { AWAIT_STEP(make<T>((int)n), take, cn); }  \
                break;                                                                     \
            case 's': case 'S':                                                            \
                if (g_cx->take_absent((int)n)) {                                           \
                    auto child = make<T>((int)n);                                          \
                    future<T> f = child.start();                                           \
                    AWAIT_STEP(f, take, cn);                                               \
                }                                                                          \
                break;                                                                     \
            case 'f': case 'F':                                                            \
                if (g_cx->take_absent((int)n)) {                                           \
                    auto child = make<T>((int)n);                                          \
                    future<T> f(child);                                                    \
                    AWAIT_STEP(f, take, cn);                                               \
                }                                                                          \
                break;                                                                     \
            case 'r': case 'R':                                                            \
                if (g_cx->take_absent((int)n)) {                                           \
                    AWAIT_STEP(make_f<T>((int)n), take, cn);                               \
                }                                                                          \
                break;                                                                     \
            case 'd':                                                                      \
                if (g_cx->take_absent((int)n)) { make<T>((int)n).detach(); }               \
                break;                                                                     \
            case 'D':                                                                      \
                if (g_cx->take_absent((int)n)) { co_await make<T>((int)n).detach(); }      \
                break;                                                                     \
            case 'u':                                                                      \
                if (g_cx->take_absent((int)n)) { auto child = make<T>((int)n); (void)child; } \
                break;                                                                     \
            case 't': throw test_exc((int)n);                                              \
            case 'v': case 'k':                                                            \
                RESULT(VALSTR(n + acc));                                                   \
                CO_RETURN(kind == 'k', n + acc);                                           \
            default: break;                                                                \
        }                                                                                  \
    }                                                                                      \
    RESULT(VALSTR(acc));                                                                   \
    CO_RETURN(false, acc);                                                                 \
    } catch (...) {                                                                        \
        RESULT(classify(std::current_exception()));                                        \
        throw;                                                                             \
    }

template <typename T, int P> async_t<T> coro_fn(cstorage &, int id, guard, std::vector<act_t> sc, pad_t<P> padv) { CORO_BODY() }
template <typename T, int P> future<T> fcoro_fn(cstorage &, int id, guard, std::vector<act_t> sc, pad_t<P> padv) { CORO_BODY() }

template <typename T> std::string outcome_of(future<T> &f) {
    if (!f.ready()) return "pending";
    try {
        if constexpr (std::is_void_v<T>) { f.value(); return "ok"; }
        else return vstr(peek<T>(f.value()));
    } catch (...) {
        return classify(std::current_exception());
    }
}

// An "operation": result future + completion callback (an awaiter subscribed to that future). The coroutine's frame is
// its only owner (through the holder in the argument guard), so it dies with the frame.
static std::vector<void *> &g_orphans = *new std::vector<void *>;   // (never destroyed) cores whose owner died while the future was pending: kept reachable, never freed
template <typename T> struct opcore : awaiter {
    future<T> result;
    int id;
    bool orphan = false;
    explicit opcore(int i) : id(i) { VN_awaiter_set_resume_fn(&opcore::done); }
    static suspend_point<void> done(awaiter *me, void *) noexcept {
        auto self = static_cast<opcore *>(me);
        g_cx->ev(10, self->id, "O" + std::to_string(self->id) + "=" + outcome_of(self->result) + (self->orphan ? "!late" : ""));
        return {};
    }
};
template <typename T> struct operation {
    opcore<T> *core;
    explicit operation(opcore<T> *c) : core(c) {}
    operation(const operation &) = delete;
    ~operation() {
        bool rdy = core->result.ready();
        g_cx->ev(11, core->id, "~o" + std::to_string(core->id) + (rdy ? "=ready" : "=pending"));
        if (rdy) delete core;
        else { core->orphan = true; g_orphans.push_back(core); }   // a pending future cannot be destroyed
    }
};

static std::vector<act_t> parse_script(const std::vector<std::string> &w, std::size_t from) {
    std::vector<act_t> r;
    for (std::size_t i = from; i < w.size(); ++i) {
        act_t a{w[i][0], 0};
        if (w[i].size() > 1) a.n = atol(w[i].c_str() + 1);
        r.push_back(a);
    }
    return r;
}

template <typename T> void run_case(std::istream &in, int next) {
    ctx cx;
    g_cx = &cx;
    world<T> wd;
    world<T>::cur = &wd;
    wd.ext.resize(next);
    for (auto &e : wd.ext) {
        e.fut.reset(new future<T>());
        e.prom.reset(new promise<T>(e.fut->get_promise()));
    }
    std::map<int, std::unique_ptr<async_t<T>>> held;   // unstarted instances owned by the driver
    struct slot { std::unique_ptr<future<T>> f; bool reported = false; };
    std::deque<slot> slots;
    std::unique_ptr<thread_pool> pool;
    alarm(15);

    auto set_val = [&](int k, long v) -> bool {
        if constexpr (std::is_void_v<T>) return (*wd.ext[k].prom)();
        else return (*wd.ext[k].prom)(mk<T>(v));
    };
    auto set_exc = [&](int k, int code) -> bool { return (*wd.ext[k].prom)(std::make_exception_ptr(test_exc(code))); };
    auto flush_events = [&](const std::string &head) {
        std::vector<std::pair<std::pair<int, long>, std::string>> e;
        {
            std::lock_guard _(cx.mx);
            e.swap(cx.evs);
        }
        for (std::size_t i = 0; i < slots.size(); ++i)
            if (!slots[i].reported && slots[i].f->ready()) {
                slots[i].reported = true;
                e.push_back({{7, (long)i}, "F" + std::to_string(i) + "=" + outcome_of(*slots[i].f)});
            }
        for (std::size_t k = 0; k < wd.ext.size(); ++k)
            if (!wd.ext[k].reported && wd.ext[k].fut->ready()) {
                wd.ext[k].reported = true;
                e.push_back({{8, (long)k}, "X" + std::to_string(k) + "=" + outcome_of(*wd.ext[k].fut)});
            }
        std::stable_sort(e.begin(), e.end(), [](auto &a, auto &b) { return a.first < b.first; });
        std::vector<std::string> evs;
        for (auto &x : e) evs.push_back(x.second);
        vh::emit(head, evs);
    };
    // obtain the unstarted instance i (creating it when absent); nullptr when it was already consumed
    auto obtain = [&](int i) -> async_t<T> * {
        int st;
        {
            std::lock_guard _(cx.mx);
            st = cx.inst[i];
            if (st == 0) cx.inst[i] = 1;
        }
        if (st == 2) return nullptr;
        if (st == 0) held[i].reset(new async_t<T>(make<T>(i)));
        return held[i].get();
    };
    auto consume = [&](int i) {
        std::lock_guard _(cx.mx);
        cx.inst[i] = 2;
    };

    std::string line;
    while (std::getline(in, line)) {
        auto w = vh::split(line);
        if (w.empty()) continue;
        const std::string &op = w[0];
        auto arg = [&](std::size_t i) -> long { return i < w.size() ? atol(w[i].c_str()) : 0; };
        std::string head = op;
        if (op == "end") {
            // resolve what is left: drop every unresolved promise, destroy every unstarted instance
            for (auto &e : wd.ext) e.prom.reset();
            held.clear();
            if (pool) {
                std::atomic<bool> done{false};
                pool->run_detached([&] { done.store(true); done.notify_all(); });
                done.wait(false);
                pool.reset();
            }
            for (std::size_t i = 0; i < slots.size(); ++i)
                if (!slots[i].f->ready()) {
                    cx.ev(9, (long)i, "hang:F" + std::to_string(i));
                    slots[i].f.release();   // a pending future cannot be destroyed
                    slots[i].reported = true;
                    slots[i].f.reset(new future<T>());
                }
            flush_events("end");
            alarm(0);
            g_cx = nullptr;
            return;
        } else if (op == "coro") {
            std::lock_guard _(cx.mx);
            cx.scripts[(int)arg(1)] = parse_script(w, 2);
            head = "def";
        } else if (op == "new") {
            int i = (int)arg(1);
            bool absent;
            { std::lock_guard _(cx.mx); absent = cx.inst[i] == 0; }
            if (!absent) head = "bad-op"; else obtain(i);
        } else if (op == "drop" || op == "detach" || op == "start" || op == "fut" || op == "startp" || op == "startpm" || op == "startop" || op == "join" || op == "pool") {
            int i = (int)arg(1);
            async_t<T> *a = obtain(i);
            if (!a) head = "bad-op";
            else if (op == "drop") {
                held.erase(i); consume(i);
            } else if (op == "detach") {
                a->detach(); held.erase(i); consume(i);
            } else if (op == "start") {
                slots.push_back({std::unique_ptr<future<T>>(new future<T>([&] { return a->start(); }))});
                held.erase(i); consume(i);
            } else if (op == "fut") {
                slots.push_back({std::unique_ptr<future<T>>(new future<T>(*a))});
                held.erase(i); consume(i);
            } else if (op == "pool") {
                if (!pool) pool.reset(new thread_pool(1));
                slots.push_back({std::unique_ptr<future<T>>(new future<T>([&] { return pool->run(static_cast<async<T> &>(*a)); }))});
                held.erase(i); consume(i);
                std::atomic<bool> done{false};
                pool->run_detached([&] { done.store(true); done.notify_all(); });
                done.wait(false);
            } else if (op == "startp" || op == "startpm") {
                long k = arg(2);
                if (k < 0 || k >= (long)wd.ext.size()) head = "bad-op";
                else {
                    // the two overloads of async::start(promise): lvalue and rvalue reference
                    bool r = op == "startp" ? bool(a->start(*wd.ext[k].prom)) : bool(a->start(std::move(*wd.ext[k].prom)));
                    head = op + (r ? " 1" : " 0");
                    if (r) { held.erase(i); consume(i); }
                }
            } else if (op == "startop") {
                std::shared_ptr<holder> h;
                { std::lock_guard _(cx.mx); h = cx.holders[i].lock(); }
                auto core = new opcore<T>(i);
                promise<T> p = core->result.get_promise();
                core->result.subscribe(core);
                h->op = std::make_shared<operation<T>>(core);   // the frame's argument is the only owner
                h.reset();
                bool r = a->start(p);
                head = std::string("startop ") + (r ? "1" : "0");
                held.erase(i); consume(i);
            } else {   // join: a second thread resolves every still unresolved external future with value v
                long v = arg(2);
                std::thread helper([&] {
                    for (std::size_t k = 0; k < wd.ext.size(); ++k) set_val((int)k, v);
                });
                std::string o;
                try {
                    if constexpr (std::is_void_v<T>) { a->join(); o = "ok"; }
                    else if constexpr (std::is_reference_v<T>) { long r = a->join(); o = "v:" + std::to_string(r); }   // join() returns a copy
                    else { auto r = a->join(); o = vstr(peek<T>(r)); }
                } catch (...) { o = classify(std::current_exception()); }
                helper.join();
                held.erase(i); consume(i);
                head = "join " + o;
            }
        } else if (op == "fcoro") {
            int i = (int)arg(1);
            if (!cx.take_absent(i)) head = "bad-op";
            else slots.push_back({std::unique_ptr<future<T>>(new future<T>([&] { return make_f<T>(i); }))});
        } else if (op == "set" || op == "exc" || op == "dropp" || op == "tset" || op == "texc") {
            long k = arg(1);
            if (k < 0 || k >= (long)wd.ext.size()) head = "bad-op";
            else if (op == "set") head = std::string("set ") + (set_val((int)k, arg(2)) ? "1" : "0");
            else if (op == "exc") head = std::string("exc ") + (set_exc((int)k, (int)arg(2)) ? "1" : "0");
            else if (op == "dropp") wd.ext[k].prom.reset(new promise<T>());
            else {
                bool r = false;
                std::thread t([&] { r = op == "tset" ? set_val((int)k, arg(2)) : set_exc((int)k, (int)arg(2)); });
                t.join();
                head = op + (r ? " 1" : " 0");
            }
        } else {
            head = "bad-op";
        }
        flush_events(head);
    }
}

int main() {
    for (long k = 0; k < NCELLS; ++k) g_cells[k] = (int)k;
    std::string line;
    while (std::getline(std::cin, line)) {
        auto w = vh::split(line);
        if (w.empty() || w[0] != "case") continue;
        std::cout << "case " << w[1] << "\n";
        std::string ty = w.size() > 3 ? w[3] : "int";
        int next = w.size() > 4 ? atoi(w[4].c_str()) : 0;
        if (next < 0 || next > 64) next = 0;
        if (ty == "int") run_case<int>(std::cin, next);
        else if (ty == "void") run_case<void>(std::cin, next);
        else if (ty == "mo") run_case<mo>(std::cin, next);
        else if (ty == "ref") run_case<int &>(std::cin, next);
        else if (ty == "pk") run_case<picky>(std::cin, next);
        else std::cout << "bad-kind\n";
        std::cout.flush();
    }
    return 0;
}
