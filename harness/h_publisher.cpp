// S-harness (+ a small thread stress) for cocls::publisher<int> / cocls::subscriber<int> (C16).
// Reads cases from stdin, prints one canonical line per operation (see lean/Drivers/C16.lean).
//
// A subscriber's next() is driven either as its three public steps through the awaiter
//   rdy = next().await_ready()   sus = next().subscribe(awaiter*)   res = next().await_resume()
// (so that other operations can be placed between them from one thread = any interleaving of the lock
// regions of publisher::queue), or as a whole: poll = next_ready(), co = `co_await sub.next()` in a real
// coroutine, blk = `bool(sub.next())` in a helper thread (blocking; the main thread continues as soon as
// the helper is parked in the queue or has finished, both of which are stable states).
#include "common.h"
#include <cocls/publisher.h>
#include <atomic>
#include <coroutine>
#include <thread>
#include <chrono>
#include <mutex>
#include <optional>
#include <iterator>
#include <csignal>
#include <unistd.h>

using namespace cocls;
using pub_t = publisher<int>;
using sub_t = subscriber<int>;
using queue_t = pub_t::queue;

// read-only peeks at protected members through pointers to members (well-defined; nothing is modified)
struct q_peek : queue_t {
    using queue_t::VN_publisher_queue__q;
    using queue_t::VN_publisher_queue__mx;
    using queue_t::VN_publisher_queue__regs;
};
struct s_peek : sub_t {
    using sub_t::VN_subscriber__h;
    using sub_t::VN_subscriber__val;
};

static std::size_t q_len(queue_t &q) {
    std::lock_guard g(q.*(&q_peek::VN_publisher_queue__mx));
    return (q.*(&q_peek::VN_publisher_queue__q)).size();
}
static bool q_parked(queue_t &q, std::size_t h) {
    std::lock_guard g(q.*(&q_peek::VN_publisher_queue__mx));
    return (q.*(&q_peek::VN_publisher_queue__regs))[h].VN_publisher_queue_subreg_t__awt != nullptr;
}
static std::size_t s_handle(sub_t &s) { return s.*(&s_peek::VN_subscriber__h); }
static bool s_has_val(sub_t &s) { return (s.*(&s_peek::VN_subscriber__val)).has_value(); }

enum phase_t { IDLE, FETCH, PARKED, BLOCKED, COPARKED, LOOPING, DONE, GONE };

struct sub_ent;
struct wake_awaiter : awaiter {
    sub_ent *owner = nullptr;
    wake_awaiter() { VN_awaiter_set_resume_fn(&wake_awaiter::fn, nullptr); }
    static suspend_point<void> fn(awaiter *me, void *) noexcept;
};

// storage of one subscriber object: constructed in place and never handed back to the allocator before the case
// ends, so the object's address identifies this sid for the whole case — also after the subscriber has left
// (publisher::kick documents that its pointer may be stale: `kick <sid>` of a left subscriber uses exactly that)
struct sub_slot {
    alignas(sub_t) unsigned char buf[sizeof(sub_t)];
    sub_t *p = nullptr;
    template <typename... A> void make(A &&...a) { p = new (buf) sub_t(std::forward<A>(a)...); }
    void reset() { if (p) { p->~sub_t(); p = nullptr; } }
    sub_t *operator->() { return p; }
    sub_t &operator*() { return *p; }
    sub_t *get() { return p; }
    const sub_t *address() const { return reinterpret_cast<const sub_t *>(buf); }
    sub_slot() = default;
    sub_slot(const sub_slot &) = delete;
    ~sub_slot() { reset(); }
};

struct sub_ent {
    int sid = -1;
    sub_slot s;
    phase_t phase = GONE;
    wake_awaiter awt;
    bool woken = false;              // manual: wake-up callback ran
    std::thread thr;                 // blocking next
    std::atomic<bool> finished{false};
    std::string result;              // result of a blocking / coroutine next
    bool co_done = false;
    bool report = false;             // coroutine: completion is reported as an event (not in the head of the op line)
    std::optional<sub_t::iterator> it;  // iterator consumer (`blk <sid> it|itpost`)
    std::mutex rec_mx;               // range-for consumer thread: what it has seen so far
    std::vector<std::string> recs;
    std::size_t recs_seen = 0;
    bool done0 = false;              // coroutine finished inside the operation that started it
    std::string result0, pos0;       // ... with this result / position
};

suspend_point<void> wake_awaiter::fn(awaiter *me, void *) noexcept {
    static_cast<wake_awaiter *>(me)->owner->woken = true;
    return {};
}

static std::string fetch_str(sub_t &s, bool b) {
    if (!b) return "eof";
    if (!s_has_val(s)) return "v:?";     // "true" without a fetched value (blocking path of the pinned code)
    // the value is read through both overloads of value(); they must agree
    int v = s.value();
    int cv = static_cast<const sub_t &>(s).value();
    if (v != cv) return "v:?const";
    return "v:" + std::to_string(v);
}

// one blocking next() in one of its spellings (the model step is the same; the spelling comes from the input line):
//   bool    `bool(sub.next())`                      not     `if (!sub.next()) ...`        (next_awt::operator!)
//   it      `it = sub.begin()` the first time, then `++it`; continue while `it != sub.end()`; value through `*it`, `it->`
//   itpost  `it++` (returns the previous value in a `storage`)
using iter_t = sub_t::iterator;
static std::string blocking_next(sub_t &s, std::optional<iter_t> &it, const std::string &style) {
    if (style == "not") {
        if (!s.next()) return "eof";
        return fetch_str(s, true);
    }
    if (style == "it" || style == "itpost") {
        if (!it) {
            // first use: `sub.begin()`, or the iterator's own one-argument constructor (it performs the first next() too)
            if (style == "it") it.emplace(s.begin()); else it.emplace(s);
        } else if (style == "itpost" && s_has_val(s)) {
            int before = s.value();
            auto st = (*it)++;
            // (storage::operator* / operator-> do not compile when instantiated: const members returning `_v` as a
            //  non-const reference / pointer — dead code in iterator.h; the member is read directly)
            if (st._v != before) return "v:?postfix";
        } else {
            ++*it;
        }
        bool more = *it != s.end();
        if (more == (*it == s.end())) return "v:?cmp";
        if (!more) return "eof";
        std::string r = fetch_str(s, true);
        if (s_has_val(s) && (**it != s.value() || *it->operator->() != s.value())) return "v:?deref";
        return r;
    }
    return fetch_str(s, bool(s.next()));
}

struct fire {
    struct promise_type {
        fire get_return_object() { return {}; }
        std::suspend_never initial_suspend() noexcept { return {}; }
        std::suspend_never final_suspend() noexcept { return {}; }
        void return_void() {}
        void unhandled_exception() { std::terminate(); }
    };
};

struct ctx_t;
static void co_finished(ctx_t *c, sub_ent *e, bool b);
static void co_follow(ctx_t *c, int sid);

// a listener coroutine: awaits next() of one subscriber and — `follow` >= 0 — as soon as it is resumed (by publish,
// close or kick, i.e. *inside* their wake-up pass, outside the lock) goes straight into next() of another (or the
// same) subscriber
static fire co_next(ctx_t *c, sub_ent *e, int follow, bool negated = false) {
    bool b;
    if (negated) {
        // `if (!co_await sub.next())` spelling
        if (!co_await e->s->next()) b = false; else b = true;
    } else {
        b = co_await e->s->next();
    }
    co_finished(c, e, b);
    if (follow >= 0) co_follow(c, follow);
}

struct ctx_t {
    std::unique_ptr<pub_t> pub;
    std::shared_ptr<queue_t> q;
    std::deque<sub_ent> subs;       // index = sid (deque: stable addresses)
    std::size_t npub = 0;
    std::vector<std::pair<int, std::string>> pev;   // events in the order they happened
    std::vector<int> in_pass;       // subscribers that were waiting when the current queue-wide operation began
    void begin_pass() {
        in_pass.clear();
        for (auto &e : subs)
            if (e.phase == PARKED || e.phase == BLOCKED || e.phase == COPARKED || e.phase == LOOPING) in_pass.push_back(e.sid);
    }
    std::vector<std::string> evs;
    int dummy_target = 0;

    // canonical order = by sid, events of one sid in the order they happened
    void flush_events() {
        // (rejected follow-ups last: their place among the others depends on the order of resumptions in one pass)
        auto bad = [](const std::string &t) { return t.size() > 4 && t.compare(t.size() - 4, 4, "=bad") == 0; };
        std::stable_sort(pev.begin(), pev.end(), [&](const auto &a, const auto &b) {
            if (a.first != b.first) return a.first < b.first;
            return !bad(a.second) && bad(b.second);
        });
        for (auto &e : pev) evs.push_back(e.second);
        pev.clear();
    }

    sub_ent *get(int sid) {
        if (sid < 0 || (std::size_t)sid >= subs.size()) return nullptr;
        if (subs[sid].phase == GONE) return nullptr;
        return &subs[sid];
    }
    sub_ent *fresh(int sid) {
        if (sid < 0 || sid > 4096) return nullptr;
        while (subs.size() <= (std::size_t)sid) subs.emplace_back();
        if (subs[sid].sid != -1) return nullptr;      // every sid is used once per case
        return &subs[sid];
    }
    std::string pos(sub_ent &e) { return " pos=" + std::to_string(e.s->position()); }
    void done_or_idle(sub_ent &e, const std::string &r) { e.phase = (r == "eof") ? DONE : IDLE; }

    // collect what became visible after an operation, canonical order = by sid
    void poll() {
        for (auto &e : subs) {
            if (e.phase == PARKED && e.woken) {
                e.woken = false;
                e.phase = FETCH;
                pev.emplace_back(e.sid, "w" + std::to_string(e.sid));
            } else if (e.phase == BLOCKED && !q_parked(*q, s_handle(*e.s))) {
                e.thr.join();
                pev.emplace_back(e.sid, "b" + std::to_string(e.sid) + "=" + e.result + "@" + std::to_string(e.s->position()));
                done_or_idle(e, e.result);
            }
        }
        // range-for consumers: wait until the thread is parked again (or has left the loop), then report what it saw
        for (auto &e : subs) {
            if (e.phase != LOOPING) continue;
            std::size_t h = s_handle(*e.s);
            while (!e.finished.load() && !q_parked(*q, h)) std::this_thread::yield();
            bool fin = e.finished.load();
            if (fin) e.thr.join();
            {
                std::lock_guard g(e.rec_mx);
                for (; e.recs_seen < e.recs.size(); ++e.recs_seen)
                    pev.emplace_back(e.sid, "b" + std::to_string(e.sid) + "=" + e.recs[e.recs_seen]);
            }
            if (fin) e.phase = DONE;
        }
        flush_events();
    }
};

// the coroutine of `e` got its result: the subscriber is free again at once (a follow-up next() may come right now)
static void co_finished(ctx_t *c, sub_ent *e, bool b) {
    e->result = fetch_str(*e->s, b);
    e->co_done = true;
    if (e->report) {
        c->pev.emplace_back(e->sid, "c" + std::to_string(e->sid) + "=" + e->result + "@" + std::to_string(e->s->position()));
    } else {
        e->done0 = true;
        e->result0 = e->result;
        e->pos0 = c->pos(*e);
    }
    c->done_or_idle(*e, e->result);
}

static void co_follow(ctx_t *c, int sid) {
    sub_ent *f = c->get(sid);
    // canonical rule (independent of the order in which one pass resumes its awaiters): a subscriber that was itself
    // waiting when the operation began is not taken for a follow-up
    bool waiting_before = std::find(c->in_pass.begin(), c->in_pass.end(), sid) != c->in_pass.end();
    if (!f || f->phase != IDLE || waiting_before) {
        c->pev.emplace_back(sid, "c" + std::to_string(sid) + "=bad");
        return;
    }
    f->co_done = false;
    f->report = true;
    f->phase = COPARKED;        // until it finishes (co_finished resets it)
    co_next(c, f, -1);
    if (!f->co_done)
        c->pev.emplace_back(sid, "c" + std::to_string(sid) + "=parked@" + std::to_string(f->s->position()));
}

static const char *mode_ok = "abr";
static subscribtion_type mode_of(char c) {
    return c == 'b' ? subscribtion_type::skip_if_behind : c == 'r' ? subscribtion_type::skip_to_recent
                                                                    : subscribtion_type::all_values;
}

static void run_case(std::istream &in, std::size_t maxlen, std::size_t minlen) {
    ctx_t c;
    if (maxlen == 0) c.pub.reset(new pub_t());
    else c.pub.reset(new pub_t(maxlen, minlen));
    c.q = c.pub->get_queue();
    std::string line;
    while (std::getline(in, line)) {
        auto w = vh::split(line);
        if (w.empty()) continue;
        std::ostringstream head;
        const std::string &op = w[0];
        int a1 = w.size() > 1 ? atoi(w[1].c_str()) : -1;
        if (op == "pub" || op == "pubn" || op == "pubi" || op == "close" || op == "destroy" || op == "kick" || op == "kickme" || op == "end")
            c.begin_pass();
        else
            c.in_pass.clear();
        if (op == "end") {
            c.pub.reset();          // closes the queue: everybody still waiting is released
            c.poll();
            vh::emit("end", c.evs);
            // anybody still parked now was not released by close (reported by the oracle as close-no-wake);
            // release blocked threads / coroutines by hand so that the process can go on
            for (auto &e : c.subs) {
                if (e.phase != BLOCKED && e.phase != COPARKED && e.phase != LOOPING) continue;
                awaiter *a = nullptr;
                {
                    std::lock_guard g((*c.q).*(&q_peek::VN_publisher_queue__mx));
                    auto &reg = ((*c.q).*(&q_peek::VN_publisher_queue__regs))[s_handle(*e.s)];
                    a = reg.VN_publisher_queue_subreg_t__awt;
                    reg.VN_publisher_queue_subreg_t__awt = nullptr;
                }
                if (a) a->resume();
            }
            for (auto &e : c.subs) {
                if (e.thr.joinable()) e.thr.join();   // cannot happen after close; defensive
                e.s.reset();
            }
            return;
        } else if (op == "sub" || op == "subat") {
            bool at = op == "subat";
            sub_ent *e = c.fresh(a1);
            char m = w.size() > 2 ? w[2][0] : '?';
            std::size_t p = at && w.size() > 3 ? (std::size_t)atoll(w[3].c_str()) : 0;
            if (!e || !c.pub || !strchr(mode_ok, m) || (at && (w.size() < 4 || p > c.npub))) {
                head << "bad";
            } else {
                e->sid = a1;
                e->awt.owner = e;
                if (at) e->s.make(*c.pub, p, mode_of(m));
                else e->s.make(*c.pub, mode_of(m));
                e->phase = IDLE;
                head << op << " " << a1 << c.pos(*e);
            }
        } else if (op == "copy") {
            int src = w.size() > 2 ? atoi(w[2].c_str()) : -1;
            sub_ent *s = c.get(src);
            // the source may be anywhere inside next() (waiting, woken, ended): the copy constructor only reads it
            sub_ent *e = s ? c.fresh(a1) : nullptr;
            if (!e) {
                head << "bad";
            } else {
                e->sid = a1;
                e->awt.owner = e;
                e->s.make(*s->s);
                e->phase = IDLE;
                head << "copy " << a1 << c.pos(*e);
            }
        } else if (op == "rdy") {
            sub_ent *e = c.get(a1);
            if (!e || e->phase != IDLE) head << "bad";
            else {
                bool r = e->s->next().await_ready();
                if (r) e->phase = FETCH;
                head << "rdy " << a1 << " " << r << c.pos(*e);
            }
        } else if (op == "sus") {
            sub_ent *e = c.get(a1);
            if (!e || e->phase != IDLE) head << "bad";
            else {
                e->woken = false;
                bool r = e->s->next().subscribe(&e->awt);
                e->phase = r ? PARKED : FETCH;
                head << "sus " << a1 << " " << r << c.pos(*e);
            }
        } else if (op == "res") {
            sub_ent *e = c.get(a1);
            if (!e || e->phase != FETCH) head << "bad";
            else {
                bool b = e->s->next().await_resume();
                std::string r = fetch_str(*e->s, b);
                c.done_or_idle(*e, r);
                head << "res " << a1 << " " << r << c.pos(*e);
            }
        } else if (op == "poll") {
            sub_ent *e = c.get(a1);
            if (!e || e->phase != IDLE) head << "bad";
            else {
                // next_ready() cannot tell "nothing yet" from "end of stream"; do its two steps to tell them apart
                auto awt = e->s->next();
                std::string r = "none";
                if (awt.await_ready()) {
                    r = fetch_str(*e->s, awt.await_resume());
                    c.done_or_idle(*e, r);
                }
                head << "poll " << a1 << " " << r << c.pos(*e);
            }
        } else if (op == "pollr") {
            // the library's own next_ready(): true = a value, false = nothing now or end of stream
            sub_ent *e = c.get(a1);
            if (!e || e->phase != IDLE) head << "bad";
            else {
                std::size_t before = e->s->position();
                bool b = e->s->next_ready();
                // false after the position moved = end of stream was fetched (false without a move = nothing yet)
                if (!b && e->s->position() != before) e->phase = DONE;
                head << "pollr " << a1 << " " << (b ? fetch_str(*e->s, true) : std::string("no")) << c.pos(*e);
            }
        } else if (op == "blk") {
            sub_ent *e = c.get(a1);
            if (!e || e->phase != IDLE) head << "bad";
            else {
                e->finished.store(false);
                std::string style = w.size() > 2 ? w[2] : "bool";
                e->thr = std::thread([e, style] {
                    e->result = blocking_next(*e->s, e->it, style);
                    e->finished.store(true);
                });
                std::size_t h = s_handle(*e->s);
                while (!e->finished.load() && !q_parked(*c.q, h)) std::this_thread::yield();
                if (e->finished.load()) {
                    e->thr.join();
                    c.done_or_idle(*e, e->result);
                    head << "blk " << a1 << " " << e->result << c.pos(*e);
                } else {
                    e->phase = BLOCKED;
                    head << "blk " << a1 << " parked" << c.pos(*e);
                }
            }
        } else if (op == "rfor") {
            // a consumer thread running `for (int &x : sub) ...` (begin / != end / * / ++ of generator_iterator) until
            // end of stream; everything it sees is reported as events, in order
            sub_ent *e = c.get(a1);
            if (!e || e->phase != IDLE) head << "bad";
            else {
                e->finished.store(false);
                e->phase = LOOPING;
                e->thr = std::thread([e] {
                    sub_t &s = *e->s;
                    auto note = [e, &s](const std::string &t) {
                        std::string r = t + "@" + std::to_string(s.position());
                        std::lock_guard g(e->rec_mx);
                        e->recs.push_back(r);
                    };
                    for (int &x : s) {
                        note(s_has_val(s) && x == s.value() ? "v:" + std::to_string(x) : std::string("v:?"));
                    }
                    note("eof");
                    e->finished.store(true);
                });
                head << "rfor " << a1;
            }
        } else if (op == "co" || op == "chain") {
            // chain <sid> <sid2>: coroutine awaiting next() of sid and then, at once, next() of sid2
            sub_ent *e = c.get(a1);
            int follow = op == "chain" ? (w.size() > 2 ? atoi(w[2].c_str()) : -2) : -1;
            if (!e || e->phase != IDLE || follow == -2) head << "bad";
            else {
                e->co_done = false;
                e->report = false;
                e->done0 = false;
                // a result that is there at once belongs to the head of this line (taken right then: the follow-up
                // may move the same subscriber on before co_next returns)
                co_next(&c, e, follow, op == "co" && w.size() > 2 && w[2] == "not");
                if (e->done0) {
                    head << op << " " << a1 << " " << e->result0 << e->pos0;
                } else {
                    e->phase = COPARKED;
                    e->report = true;
                    head << op << " " << a1 << " parked" << c.pos(*e);
                }
            }
        } else if (op == "pub") {
            int v = a1;
            if (c.pub) c.pub->publish(v); else c.q->push(v);
            c.npub++;
            head << "pub q=" << q_len(*c.q);
        } else if (op == "pubn") {
            std::vector<int> vals;
            for (std::size_t i = 1; i < w.size(); ++i) vals.push_back(atoi(w[i].c_str()));
            if (c.pub) c.pub->publish(vals.begin(), vals.end()); else c.q->push(vals.begin(), vals.end());
            c.npub += vals.size();
            head << "pubn q=" << q_len(*c.q);
        } else if (op == "pubi") {
            // the batch publish fed from a single-pass input iterator (std::istream_iterator): the range can be walked once
            std::string text;
            for (std::size_t i = 1; i < w.size(); ++i) text += w[i] + " ";
            std::istringstream is(text);
            std::istream_iterator<int> from(is), to;
            if (c.pub) c.pub->publish(from, to); else c.q->push(from, to);
            c.npub += w.size() - 1;
            head << "pubi q=" << q_len(*c.q);
        } else if (op == "close") {
            if (c.pub) c.pub->close(); else c.q->close();
            head << "close q=" << q_len(*c.q);
        } else if (op == "destroy") {
            c.pub.reset();
            head << "destroy q=" << q_len(*c.q);
        } else if (op == "kick" || op == "kickme") {
            sub_ent *e = c.get(a1);
            if (op == "kickme") {
                if (!e) head << "bad";
                else { e->s->kick_me(); head << "kickme " << a1; }
            } else {
                // a live subscriber; or the stale address of one that has left; or (sid never used) nobody's address
                const sub_t *target = reinterpret_cast<const sub_t *>(&c.dummy_target);
                if (a1 >= 0 && (std::size_t)a1 < c.subs.size() && c.subs[a1].sid != -1) target = c.subs[a1].s.address();
                if (c.pub) c.pub->kick(target); else c.q->kick(target);
                head << "kick " << a1;
            }
        } else if (op == "leave") {
            sub_ent *e = c.get(a1);
            if (!e || (e->phase != IDLE && e->phase != DONE)) head << "bad";
            else {
                e->s.reset();
                e->phase = GONE;
                head << "leave " << a1;
            }
        } else {
            head << "bad";
        }
        c.poll();
        vh::emit(head.str(), c.evs);
    }
}

// ---------------------------------------------------------------------------------------------------
// thread stress: one publisher thread against subscriber threads (blocking next()), free-running.
// The trace depends on timing, so the harness evaluates the property itself and prints a verdict line
// that is deterministic whenever the property holds.
//   case <id> thr <max> <min> <nvalues> <batch> <modes...>      (modes: a b r, one subscriber thread each)
// ---------------------------------------------------------------------------------------------------
static void run_threads(std::istream &in, std::size_t maxlen, std::size_t minlen, int nvalues, int batch,
                        const std::string &modes) {
    std::string line;
    while (std::getline(in, line)) {
        auto w = vh::split(line);
        if (!w.empty() && w[0] == "end") break;
    }
    std::unique_ptr<pub_t> pub(maxlen ? new pub_t(maxlen, minlen) : new pub_t());
    struct rec {
        char mode;
        std::size_t start;
        std::vector<std::pair<std::size_t, int>> got;   // (position(), value)
        bool eof_closed_drained = false;
        std::size_t eof_pos = 0;
    };
    std::vector<rec> recs(modes.size());
    std::vector<std::unique_ptr<sub_t>> subs;
    for (std::size_t i = 0; i < modes.size(); ++i) {
        subs.emplace_back(new sub_t(*pub, mode_of(modes[i])));
        recs[i].mode = modes[i];
        recs[i].start = subs[i]->position();
    }
    std::atomic<bool> closed{false};
    std::atomic<bool> go{false};
    std::atomic<int> at_start{0};
    std::vector<std::thread> thr;
    for (std::size_t i = 0; i < modes.size(); ++i) {
        thr.emplace_back([&, i] {
            sub_t &s = *subs[i];
            at_start.fetch_add(1);
            while (!go.load()) std::this_thread::yield();
            auto note = [&] { recs[i].got.emplace_back(s.position(), s_has_val(s) ? s.value() : -1); };
            // consumer style by thread index: bool(next()) / !next() / range-for / explicit iterator with postfix ++ / polling next_ready()
            switch (i % 5) {
                case 4:
                    // polling consumer: next_ready() until the stream has ended
                    // (false after the position moved = end of stream was fetched; false without a move = nothing yet)
                    for (;;) {
                        std::size_t before = s.position();
                        if (s.next_ready()) { note(); continue; }
                        if (s.position() != before) break;
                        std::this_thread::yield();
                    }
                    break;
                case 0:
                    while (s.next()) note();
                    break;
                case 1:
                    while (true) {
                        if (!s.next()) break;
                        note();
                    }
                    break;
                case 2:
                    for (int &x : s) {
                        if (s_has_val(s) && x != static_cast<const sub_t &>(s).value()) recs[i].got.emplace_back(s.position(), -1);
                        else note();
                    }
                    break;
                default:
                    for (auto it = s.begin(); it != s.end(); it++) note();
                    break;
            }
            recs[i].eof_closed_drained = closed.load();
            recs[i].eof_pos = s.position();
        });
    }
    // value published at stream position p (1-based) is 1000+p
    while (at_start.load() != (int)modes.size()) std::this_thread::yield();
    go.store(true);
    int p = 1;
    while (p <= nvalues) {
        int k = std::min(batch > 1 ? 1 + (p * 7 + 3) % batch : 1, nvalues - p + 1);
        if (k == 1) pub->publish(1000 + p);
        else {
            std::vector<int> v;
            for (int j = 0; j < k; ++j) v.push_back(1000 + p + j);
            pub->publish(v.begin(), v.end());
        }
        p += k;
        if (p % 3 == 0) std::this_thread::yield();
        if (p % 64 == 0) std::this_thread::sleep_for(std::chrono::microseconds(50));
    }
    closed.store(true);
    pub->close();
    for (auto &t : thr) t.join();      // "closing wakes every waiting subscriber": a hang here is a lost wake-up
    std::vector<std::string> bad;
    for (std::size_t i = 0; i < recs.size(); ++i) {
        rec &r = recs[i];
        std::string id = std::string(1, r.mode) + std::to_string(i);
        std::size_t prev = r.start;
        for (auto &g : r.got) {
            if (g.first <= prev) bad.push_back(id + ":position-not-increasing");
            if (g.second == -1) bad.push_back(id + ":true-without-value");
            if (r.mode == 'a') {
                if (g.first != prev + 1) bad.push_back(id + ":gap");
                if (g.second != 1000 + (int)g.first) bad.push_back(id + ":wrong-value");
            } else {
                // skipping modes: the value is one published at or after the position moved to
                if (g.second < 1000 + (int)g.first || g.second > 1000 + nvalues) bad.push_back(id + ":stale-value");
            }
            prev = g.first;
        }
        if (r.mode == 'a' && maxlen == 0) {
            if ((int)r.got.size() != nvalues) bad.push_back(id + ":unlimited-queue-lost-values");
        }
        if (r.mode == 'a' && (int)r.got.size() != nvalues) {
            // early end of stream: only legal by lag (nobody kicks here); it needs a bounded queue
            if (maxlen == 0) bad.push_back(id + ":early-eof");
        }
    }
    if (getenv("C16_THR_STATS")) {
        for (std::size_t i = 0; i < recs.size(); ++i) {
            int rep = 0;
            for (std::size_t k = 1; k < recs[i].got.size(); ++k) rep += recs[i].got[k].second == recs[i].got[k - 1].second;
            fprintf(stderr, "thrstat consumer %zu mode %c style %zu values %zu same-value-twice %d\n", i, recs[i].mode, i % 5,
                    recs[i].got.size(), rep);
        }
    }
    std::sort(bad.begin(), bad.end());
    bad.erase(std::unique(bad.begin(), bad.end()), bad.end());
    std::vector<std::string> evs;
    if (bad.empty()) vh::emit("thr ok", evs);
    else { vh::emit("thr viol", bad); }
    vh::emit("end", evs);
}

// a lost wake-up makes a helper thread wait forever: turn that into a fast, attributable failure
static void on_alarm(int) {
    static const char msg[] = "hang: watchdog expired (a waiting subscriber was never resumed)\n";
    ssize_t r = write(1, msg, sizeof(msg) - 1);
    (void)r;
    _exit(3);
}

int main() {
    std::cout << std::unitbuf;
    signal(SIGALRM, on_alarm);
    std::string line;
    while (std::getline(std::cin, line)) {
        auto w = vh::split(line);
        if (w.empty() || w[0] != "case") continue;
        alarm(w.size() > 2 && w[2] == "thr" ? 12 : 6);
        std::cout << "case " << w[1] << "\n";
        const std::string kind = w.size() > 2 ? w[2] : "";
        std::size_t mx = w.size() > 3 ? (std::size_t)atoll(w[3].c_str()) : 0;
        std::size_t mn = w.size() > 4 ? (std::size_t)atoll(w[4].c_str()) : 1;
        if (kind == "pub") run_case(std::cin, mx, mn);
        else if (kind == "thr") run_threads(std::cin, mx, mn, w.size() > 5 ? atoi(w[5].c_str()) : 10,
                                            w.size() > 6 ? atoi(w[6].c_str()) : 1, w.size() > 7 ? w[7] : "a");
        else std::cout << "bad-kind\n";
        alarm(0);
        std::cout.flush();
    }
    return 0;
}
