// Shared helpers for the sequential (S-style) harnesses: line reader, outcome
// classification of cocls futures, canonical event printing.
#pragma once
#include <cstdio>
#include <cstdlib>
#include <cstring>
#include <exception>
#include <iostream>
#include <sstream>
#include <string>
#include <vector>
#include <algorithm>
#include <memory>
#include <deque>
#include <map>

#include <cocls/future.h>
#include <cocls/exceptions.h>

namespace vh {

struct test_exc : std::exception {
    int code;
    explicit test_exc(int c = 0) : code(c) {}
    const char *what() const noexcept override { return "test_exc"; }
};

inline std::vector<std::string> split(const std::string &s) {
    std::vector<std::string> out;
    std::istringstream is(s);
    std::string t;
    while (is >> t) out.push_back(t);
    return out;
}

// classify a ready future
template <typename T>
std::string outcome(cocls::future<T> &f) {
    if (!f.ready()) return "pending";
    try {
        if constexpr (std::is_void_v<T>) {
            f.value();
            return "ok";
        } else {
            auto &v = f.value();
            std::ostringstream os;
            os << "v:" << v;
            return os.str();
        }
    } catch (const cocls::await_canceled_exception &) {
        return "canceled";
    } catch (const test_exc &e) {
        return "exc:" + std::to_string(e.code);
    } catch (const cocls::value_not_ready_exception &) {
        return "notready";
    } catch (const cocls::no_more_values_exception &) {
        return "nomore";
    } catch (...) {
        return "other";
    }
}

// a set of outstanding futures, polled after every operation; each future is reported
// exactly once, when it first becomes ready.
template <typename T>
struct fut_set {
    struct ent {
        std::unique_ptr<cocls::future<T>> f;
        bool reported = false;
    };
    std::deque<ent> v;
    const char *tag;
    explicit fut_set(const char *t) : tag(t) {}
    template <typename Fn>
    std::size_t add(Fn &&fn) {
        v.push_back(ent{std::unique_ptr<cocls::future<T>>(new cocls::future<T>(std::forward<Fn>(fn))), false});
        return v.size() - 1;
    }
    // status string of entry i right now; marks reported when ready
    std::string now(std::size_t i) {
        auto s = outcome(*v[i].f);
        if (s != "pending") v[i].reported = true;
        return s;
    }
    void poll(std::vector<std::string> &evs) {
        for (std::size_t i = 0; i < v.size(); ++i) {
            if (!v[i].reported && v[i].f->ready()) {
                v[i].reported = true;
                evs.push_back(std::string(tag) + "#" + std::to_string(i) + "=" + outcome(*v[i].f));
            }
        }
    }
    bool all_ready() const {
        for (auto &e : v)
            if (!e.f->ready()) return false;
        return true;
    }
};

inline void emit(const std::string &head, std::vector<std::string> &evs) {
    std::cout << head;
    if (!evs.empty()) {
        std::cout << " ;";
        for (auto &e : evs) std::cout << " " << e;
    }
    std::cout << "\n";
    evs.clear();
}

}  // namespace vh
