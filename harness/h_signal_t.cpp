// T-harness for cocls::signal<int> (C15): real threads under the baton scheduler (harness/shim/verif_shim.h), one
// scheduling point after every atomic operation of the unmodified headers (the chain's CAS / exchange).
//
//   case <id> sigt
//   t col <tok>...     collector thread; tokens: e = collector call with the next value (1,2,3,...), suspend point
//                      discarded at once; d = destroy the thread's handles (signal + collector)
//   t sub <script>     subscriber thread: starts a coroutine listener (script over r,x as in h_signal.cpp; - = empty)
//   t cb <n>           subscriber thread: copies the signal, connects a callback answering true n times, drops the copy
//   sched <tid>...     the schedule (see the shim)
// `case <id> sigt hook`: there is no signal at first; exactly one thread is
//   t hook <script>    a coroutine listener on signal<int>::hook_up(fn): its first co_await creates the signal, subscribes,
//                      then calls fn, which hands the collector to the other threads (store to an interposed atomic =
//                      a scheduling point right after the hand-over); every other thread waits for that hand-over first
//   end
//
// Output: the shim's operation log (`s <tid> [a<listener>] cas+|cas-|xchg chain <seen>><desired>`, `s <tid> fin`),
// interleaved with `op <tid> emit <v>` / `ret <tid> emit <v> rel=<n>` / `op <tid> drop` markers and the observations
// `obs L<tid> v<k> | canceled`, `obs C<tid> v<k> | free`, then `final live=<frames> cbs=<instances>`.
// Everything is a function of the input (the baton makes the run deterministic).
#include "shim/verif_shim.h"
#include "shim/rename_on.h"
#include <cocls/signal.h>
#include <cocls/async.h>
#include "shim/rename_off.h"
#include <sys/wait.h>

using namespace cocls;
using isig = cocls::signal<int>;
using vshim::S;

static std::vector<std::string> split(const std::string &s) {
    std::vector<std::string> o;
    std::istringstream is(s);
    std::string t;
    while (is >> t) o.push_back(t);
    return o;
}

static int live_frames = 0;
static int live_cbs = 0;

static void log(const std::string &s) { S().log_line(s); }

static async<void> listener(int id, isig::emitter em, std::string script) {
    ++live_frames;
    std::size_t pc = 0;
    S().name_ptr(static_cast<awaiter *>(&em), "L" + std::to_string(id));
    try {
        for (;;) {
            vshim::Sched::tag() = id;
            int &v = co_await em;
            vshim::Sched::tag() = id;
            log("obs L" + std::to_string(id) + " v" + std::to_string(v));
            char a = pc < script.size() ? script[pc++] : 'r';
            if (a == 'x') break;
        }
    } catch (const await_canceled_exception &) {
        log("obs L" + std::to_string(id) + " canceled");
    }
    --live_frames;
}

template <typename RegFn>
static async<void> hook_listener(int id, RegFn reg, std::string script) {
    ++live_frames;
    std::size_t pc = 0;
    auto em = isig::hook_up(std::move(reg));
    S().name_ptr((awaiter *)&em, "L" + std::to_string(id));     // C-style cast: the base is protected
    try {
        for (;;) {
            vshim::Sched::tag() = id;
            int &v = co_await em;
            vshim::Sched::tag() = id;
            log("obs L" + std::to_string(id) + " v" + std::to_string(v));
            char a = pc < script.size() ? script[pc++] : 'r';
            if (a == 'x') break;
        }
    } catch (const await_canceled_exception &) {
        log("obs L" + std::to_string(id) + " canceled");
    }
    --live_frames;
}

struct cb_shared {
    int id;
    int left;
    int live = 0;
};
// `free` = the last instance *held by the library* is destroyed (the caller's temporary lives until connect() returns,
// which under the baton can be long after the callback was released)
struct cb_fn {
    std::shared_ptr<cb_shared> s;
    bool temp;
    explicit cb_fn(std::shared_ptr<cb_shared> x) : s(std::move(x)), temp(true) {}
    cb_fn(const cb_fn &o) : s(o.s), temp(false) { ++s->live; ++live_cbs; }
    cb_fn(cb_fn &&o) : s(o.s), temp(false) { ++s->live; ++live_cbs; }
    ~cb_fn() {
        if (temp) return;
        --live_cbs;
        if (--s->live == 0) log("obs C" + std::to_string(s->id) + " free");
    }
    bool operator()(int &v) const {
        vshim::Sched::tag() = s->id;
        log("obs C" + std::to_string(s->id) + " v" + std::to_string(v));
        if (s->left > 0) { --s->left; return true; }
        return false;
    }
};

static void run_case(const std::vector<std::string> &hdr, const std::vector<std::vector<std::string>> &lines) {
    const bool hook = hdr.size() > 3 && hdr[3] == "hook";
    std::vector<std::vector<std::string>> threads;
    std::vector<int> sched;
    for (auto &w : lines) {
        if (w[0] == "t") threads.push_back(w);
        else if (w[0] == "sched") for (std::size_t i = 1; i < w.size(); i++) sched.push_back(atoi(w[i].c_str()));
    }
    std::optional<isig> sig;
    std::optional<isig::collector> col;
    isig::emitter em;
    std::verif_atomic<bool> published{false};
    S().name_obj(&published, "pub");
    // callbacks need a signal object of their own: copied here, before the run (hook: by the thread, after the hand-over)
    std::vector<std::shared_ptr<isig>> own(threads.size());
    if (!hook) {
        sig.emplace();
        col = sig->get_collector();
        em = sig->get_emitter();
        S().name_obj(&col->_state->VN_signal_state__chain, "chain");
        for (std::size_t i = 0; i < threads.size(); i++)
            if (threads[i][1] == "cb") own[i] = std::make_shared<isig>(*sig);
    }
    auto wait_pub = [&] {
        if (hook && !published.raw()) {
            S().log_op("wait-block pub");
            S().block([&] { return published.raw(); });
        }
    };
    int next_val = 0;
    int tid = 0;
    for (auto &t : threads) {
        if (t[1] == "col") {
            S().spawn([&, t, tid] {
                wait_pub();
                for (std::size_t k = 2; k < t.size(); k++) {
                    vshim::Sched::tag() = -1;
                    if (t[k] == "e") {
                        if (!col) { log("op " + std::to_string(tid) + " emit-without-handle"); continue; }
                        int v = ++next_val;
                        log("op " + std::to_string(tid) + " emit " + std::to_string(v));
                        {
                            suspend_point<void> sp = (*col)(int(v));
                            vshim::Sched::tag() = -1;
                            log("ret " + std::to_string(tid) + " emit " + std::to_string(v) + " rel=" + std::to_string(sp.size()));
                        }
                    } else if (t[k] == "d") {
                        log("op " + std::to_string(tid) + " drop");
                        col.reset();
                        sig.reset();
                    }
                }
                vshim::Sched::tag() = -1;
            });
        } else if (t[1] == "sub") {
            std::string sc = t.size() > 2 && t[2] != "-" ? t[2] : std::string();
            S().spawn([&, sc, tid] {
                wait_pub();
                vshim::Sched::tag() = tid;
                listener(tid, em, sc).detach();
                vshim::Sched::tag() = -1;
            });
        } else if (t[1] == "hook" && hook) {
            std::string sc = t.size() > 2 && t[2] != "-" ? t[2] : std::string();
            S().spawn([&, sc, tid] {
                vshim::Sched::tag() = tid;
                hook_listener(tid, [&, tid](isig::collector c) {
                    log("op " + std::to_string(tid) + " reg");
                    S().name_obj(&c._state->VN_signal_state__chain, "chain");
                    em = isig(c).get_emitter();
                    col = std::move(c);
                    published.store(true);      // a scheduling point: the other threads may use the collector at once
                }, sc).detach();
                vshim::Sched::tag() = -1;
            });
        } else if (t[1] == "cb") {
            int n = t.size() > 2 ? atoi(t[2].c_str()) : 0;
            S().spawn([&, n, tid] {
                wait_pub();
                if (hook) {
                    if (!col) { log("op " + std::to_string(tid) + " no-signal"); return; }
                    own[tid] = std::make_shared<isig>(isig(*col));
                }
                vshim::Sched::tag() = tid;
                auto sh = std::make_shared<cb_shared>(cb_shared{tid, n});
                own[tid]->connect(cb_fn(sh));
                vshim::Sched::tag() = -1;
                own[tid].reset();
            });
        }
        tid++;
    }
    bool ok = S().run(sched);
    if (!ok) {
        log("deadlock");
        log("end");
        std::cout.flush();
        _exit(0);
    }
    // whatever is left is destroyed by the controller (not scheduled, not logged as thread ops)
    own.clear();
    if (col || sig) log("op ctl drop");
    col.reset();
    sig.reset();
    log("final live=" + std::to_string(live_frames) + " cbs=" + std::to_string(live_cbs));
}

int main() {
    std::string line;
    std::vector<std::string> hdr;
    std::vector<std::vector<std::string>> lines;
    while (std::getline(std::cin, line)) {
        auto w = split(line);
        if (w.empty()) continue;
        if (w[0] == "case") { hdr = w; lines.clear(); continue; }
        if (w[0] != "end") { lines.push_back(w); continue; }
        std::cout << "case " << hdr[1] << std::endl;
        int ep[2];
        if (pipe(ep) != 0) return 2;
        pid_t pid = fork();
        if (pid == 0) {
            close(ep[0]);
            dup2(ep[1], 2);     // the sanitizer report of the child: its SUMMARY line is added to the `crash` line
            close(ep[1]);
            alarm(20);
            run_case(hdr, lines);
            S().log_line("end");
            std::cout.flush();
            _exit(0);
        }
        close(ep[1]);
        std::string err;
        {
            char buf[4096];
            ssize_t n;
            while ((n = read(ep[0], buf, sizeof buf)) > 0) err.append(buf, (std::size_t)n);
            close(ep[0]);
        }
        int st = 0;
        waitpid(pid, &st, 0);
        if (!(WIFEXITED(st) && WEXITSTATUS(st) == 0)) {
            if (WIFEXITED(st) && WEXITSTATUS(st) == 3) { /* assertion already reported */ }
            else {
                std::string sum;
                auto p = err.find("SUMMARY:");
                if (p != std::string::npos) sum = " " + err.substr(p, err.find('\n', p) - p);
                std::cout << "crash " << (WIFSIGNALED(st) ? "signal " + std::to_string(WTERMSIG(st)) : "exit " + std::to_string(WEXITSTATUS(st))) << sum << "\n";
                std::cout << "end" << std::endl;
            }
        }
    }
    return 0;
}
