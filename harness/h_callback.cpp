// T-harness for the callback adapters (C18): callback_await / callback_await_alloc, make_promise (heap / storage),
// discard, future_conv (all converter shapes), call_fn_future_awaiter -- on the unmodified headers, real threads under
// the baton scheduler.  Only the two shared atomics of the awaited operation are scheduling points (`slot` = the
// source future's awaiter slot, `owner` = the shared promise's owner pointer; shim `track_only` mode): every other
// atomic the adapters touch (moved promises, the outer future of a converter) is private to one thread at a time, so
// behaviour-preserving rewrites of that plumbing do not change the trace.
//
// Input:  case <id> cb <adapter> <T> <alloc> [<conv-shape> <To> <behaviour> [hlp]]
//           adapter: cbawait | cbref | cbawt | cbwrap | mkprom | mkcb | discard | conv | callfn | callawt
//                    (cbawt: callback_await on an awaiter object obtained with retrieve_awaiter(); cbwrap: on an
//                     awaiter_wrapper around it; callawt: call_fn_awaiter subscribed by hand: ready() / subscribe / resume;
//                     mkcb: a heap / storage future_with_cb attached to the factory's future with future_with_cb::operator<<)
//           T: int | void | intref (the adapter awaits a future<int>, but the source factory returns a future<int&>, which
//              ReturnsFuture admits and which is constructed in place inside the adapter's future<int>)
//           alloc: heap | stor | none
//           conv-shape: m (member, returns To) | p (member, gets the promise) | f (free fn) | c (free fn + context)
//           behaviour: ok | throw | leave (p only: neither resolves nor throws)
//         g [self value <v> | self exc <c> | self drop]      thread 0: registers, then (self) invokes the promise itself
//         pre value <v> | pre exc <c> | pre drop             the factory resolves the promise before it returns
//         imm value <v> | imm exc <c> | imm drop             the factory returns future<T>::set_value/.. (no promise)
//         fthrow <c>                                         the factory THROWS instead of returning a future.  conv, callfn, mkcb: future<T>::result_of
//                                                            catches, re-creates the future and resolves it with the exception (not traced, like imm);
//                                                            cbawait: the awaitable is constructed inside the helper coroutine's try block, the callback
//                                                            receives the exception from its catch branch (no future ever exists)
//         r value <v> | r exc <c> | r drop                   resolver thread: invokes the shared promise
//         d                                                  thread destroying the promise after all invocations
//         read get|star|bool|not                             how the callback_await callback inspects its await_result:
//                                                            get() | operator* | operator bool first | operator! first
//         ctx coro                                           (cbawait) the registration is made from inside a running coroutine:
//                                                            the helper coroutine is only queued and starts after the caller's full
//                                                            expression; `caller-continues` marks the caller carrying on, `dead-arg` an
//                                                            awaited operation constructed from an argument that no longer exists
//         cbthrow                                            the callback_await callback throws after it has looked at its result (first call): the
//                                                            exception is ignored like any result of a detached coroutine, the callback is NOT called again
//         sched ...
//         round                                              the next awaited operation on the SAME helper object (future_conv and
//                                                            call_fn_future_awaiter are re-armed with <<); own g/r/d/pre/imm/sched lines
//         end
// Output: op lines `s <tid> <op> slot|owner ...`, semantic lines `alloc heap|stor`, `free heap|stor`, `cb <obs>`,
//         `conv <in>`, `ret t<k> <b>`, then `promise-destroyed`, `outer ...` (conv), `final cb= conv= allocs= frees=`
//         (counters per operation); `round` separates the operations.
#include "shim/verif_shim.h"
#include "shim/rename_on.h"
#include <cocls/future.h>
#include <cocls/async.h>
#include <cocls/callback_awaiter.h>
#include <cocls/future_conv.h>
#include "shim/rename_off.h"
#include <sys/wait.h>

using namespace cocls;
using vshim::S;

struct test_exc : std::exception {
    int code;
    explicit test_exc(int c) : code(c) {}
};

static std::vector<std::string> split(const std::string &s) {
    std::vector<std::string> o;
    std::istringstream is(s);
    std::string t;
    while (is >> t) o.push_back(t);
    return o;
}

// ---- helper-block accounting -----------------------------------------------------------------------------------
// Global operator new/delete are replaced.  An allocation made while `trk::on` is set on the calling thread (= adapter
// code running a registration; the harness's own factory / callback code switches it off) is a *helper block*; its
// release is reported whichever thread performs it.
namespace trk {
thread_local bool on = false;
static void *blocks[16];
static std::atomic<int> nblocks{0};
static int allocs = 0, frees = 0;
static std::atomic_flag lk = ATOMIC_FLAG_INIT;   // frees also come from exiting threads (outside the baton)
struct Lock {
    Lock() { while (lk.test_and_set(std::memory_order_acquire)) {} }
    ~Lock() { lk.clear(std::memory_order_release); }
};
struct Off {
    bool prev;
    Off() : prev(on) { on = false; }
    ~Off() { on = prev; }
};
struct On {
    bool prev;
    On() : prev(on) { on = true; }
    ~On() { on = prev; }
};
static void note_alloc(void *p) {
    Off o;
    {
        Lock l;
        if (nblocks < 16) blocks[nblocks++] = p;
        allocs++;
    }
    S().log_line("alloc heap");
}
static bool note_free(void *p) {
    bool hit = false;
    {
        Lock l;
        for (int i = 0; i < nblocks; i++)
            if (blocks[i] == p) {
                blocks[i] = blocks[--nblocks];
                frees++;
                hit = true;
                break;
            }
    }
    if (hit) {
        Off o;
        S().log_line("free heap");
    }
    return hit;
}
}  // namespace trk

void *operator new(std::size_t sz) {
    void *p = malloc(sz ? sz : 1);
    if (!p) throw std::bad_alloc();
    if (trk::on && !vshim::in_shim) trk::note_alloc(p);
    return p;
}
void operator delete(void *p) noexcept {
    if (!p) return;
    if (trk::nblocks) trk::note_free(p);
    free(p);
}
void operator delete(void *p, std::size_t) noexcept { operator delete(p); }

// counting storage (the `Storage` concept of cocls: alloc member, static dealloc)
struct cstor {
    static inline int allocs = 0, frees = 0;
    void *alloc(std::size_t sz) {
        trk::Off o;
        allocs++;
        S().log_line("alloc stor");
        return malloc(sz);
    }
    static void dealloc(void *p, std::size_t) {
        trk::Off o;
        frees++;
        S().log_line("free stor");
        free(p);
    }
};

// ---- scenario ----------------------------------------------------------------------------------------------------
struct Env {
    std::string behav = "ok";
    bool cb_throws = false;
    bool ref_src = false;              // the source is a reference future: what is handed out must be the referenced cell itself
    static inline int ref_cells[64];
    void note_ref(const int *p) {
        if (ref_src && !(p >= ref_cells && p < ref_cells + 64)) { trk::Off o; log("badref"); }
    }
    void note_ref(const void *) {}
    std::string read = "get";
    int cb_calls = 0, conv_calls = 0;
    void log(const std::string &s) { S().log_line(s); }
    // the converter body shared by all shapes: logs its input, throws or converts
    int convert(std::optional<int> in) {
        trk::Off o;
        conv_calls++;
        log(std::string("conv ") + (in ? std::to_string(*in) : std::string("-")));
        if (behav == "throw") throw test_exc(77);
        return in ? *in + 1000 : 7000;
    }
};
static Env *g_env = nullptr;

template <typename Fn>
static std::string observe_void(Fn &&fn) {
    try {
        fn();
        return "v";
    } catch (const await_canceled_exception &) {
        return "canceled";
    } catch (const test_exc &e) {
        return "exc:" + std::to_string(e.code);
    } catch (const value_not_ready_exception &) {
        return "notready";
    } catch (...) {
        return "other";
    }
}
template <typename Fn>
static std::string observe_int(Fn &&fn) {
    try {
        int r = fn();
        return "v:" + std::to_string(r);
    } catch (const await_canceled_exception &) {
        return "canceled";
    } catch (const test_exc &e) {
        return "exc:" + std::to_string(e.code);
    } catch (const value_not_ready_exception &) {
        return "notready";
    } catch (...) {
        return "other";
    }
}
template <typename T>
static std::string observe_future(future<T> &f, bool source = true) {
    if constexpr (std::is_void_v<T>) return observe_void([&] { f.value(); });
    else return observe_int([&] { int &r = f.value(); if (source) g_env->note_ref(&r); return r; });
}
// what the callback sees in its await_result, read in the spelling chosen by the input (`read` line)
template <typename T>
static std::string observe_result(await_result<T> &r, const std::string &style = "get") {
    auto by_get = [&]() -> std::string {
        if constexpr (std::is_void_v<T>) return observe_void([&] { r.get(); });
        else return observe_int([&] { int &x = r.get(); g_env->note_ref(&x); return x; });
    };
    auto by_star = [&]() -> std::string {
        if constexpr (std::is_void_v<T>) return observe_void([&] { r.get(); });   // await_result<void> has no operator*
        else return observe_int([&] { int &x = *r; g_env->note_ref(&x); return x; });
    };
    if (style == "star") return by_star();
    if (style == "bool" || style == "not") {
        bool has = style == "bool" ? static_cast<bool>(r) : !(!r);
        std::string s = (style == "bool") ? by_get() : by_star();
        // the test must agree with what reading the result does
        if (has != (s[0] == 'v')) return std::string(style == "bool" ? "badbool:" : "badnot:") + s;
        return s;
    }
    return by_get();
}

// T = what the adapter awaits (future<PT>); PT = what the source factory's future carries: T, or T& (reference flavour)
template <typename T, typename PT = T>
struct Src {
    static constexpr bool is_ref = std::is_reference_v<PT>;
    Env &env;
    std::optional<promise<PT>> prom;
    bool published = false;
    std::vector<std::string> pre, imm, fthrow;   // empty = not used

    explicit Src(Env &e) : env(e) {}

    void publish(promise<PT> &&p) {
        prom.emplace(std::move(p));
        S().name_obj(&prom->VN_promise__owner, "owner");
        published = true;
    }
    static void invoke(promise<PT> &p, const std::vector<std::string> &a, std::size_t at, bool &r) {
        if (a[at] == "value") {
            if constexpr (std::is_void_v<T>) { auto sp = p(); r = sp; }
            else if constexpr (is_ref) {
                int &cell = Env::ref_cells[(at * 31 + a.size() * 7 + (std::size_t)atoi(a[at + 1].c_str())) % 64];
                cell = atoi(a[at + 1].c_str());
                auto sp = p(cell);            // promise<int&>: future::set_ref
                r = sp;
            }
            else { auto sp = p(atoi(a[at + 1].c_str())); r = sp; }
        } else if (a[at] == "exc") {
            auto sp = p(std::make_exception_ptr(test_exc(atoi(a[at + 1].c_str()))));
            r = sp;
        } else {
            auto sp = p(drop);
            r = sp;
        }
        // a coroutine collected by the suspend point (callback_await) is resumed here, when `sp` dies
    }
    // the awaited operation: called by the adapter under test on the registering thread
    future<PT> make() {
        trk::Off off;
        if (!fthrow.empty()) {
            // starting the operation itself fails: the function that is supposed to return the future throws
            publish(promise<PT>());
            throw test_exc(atoi(fthrow[1].c_str()));
        }
        if (!imm.empty()) {
            publish(promise<PT>());
            if (imm[1] == "value") {
                if constexpr (std::is_void_v<T>) return future<PT>::set_value();
                else if constexpr (is_ref) {
                    int &cell = Env::ref_cells[63];
                    cell = atoi(imm[2].c_str());
                    return future<PT>::set_value(cell);   // already resolved reference future (static factory)
                }
                else return future<PT>::set_value(atoi(imm[2].c_str()));
            }
            if (imm[1] == "exc") return future<PT>::set_exception(std::make_exception_ptr(test_exc(atoi(imm[2].c_str()))));
            return future<PT>::set_not_value();
        }
        return future<PT>([&](promise<PT> p) {
            future<PT> *f = p.VN_promise__owner.raw();
            if (!pre.empty()) {
                bool r;
                invoke(p, pre, 1, r);          // resolved before registration (nothing is tracked yet)
                publish(promise<PT>());
            } else {
                publish(std::move(p));
            }
            S().name_obj(&f->VN_future_common__awaiter, "slot");
        });
    }
    void resolver_body(const std::vector<std::string> &a, std::size_t at, int tid) {
        if (!published) {
            S().log_op("wait-block reg");
            S().block([this] { return published; });
        }
        bool r = false;
        invoke(*prom, a, at, r);
        env.log("ret t" + std::to_string(tid) + " " + (r ? "1" : "0"));
    }
};

// ---- converter shapes (future_conv) --------------------------------------------------------------------------------
struct CvCtx {
    int m_ii(int &x) { g_env->note_ref(&x); return g_env->convert(x); }
    void m_iv(int &x) { g_env->note_ref(&x); g_env->convert(x); }
    int m_vi() { return g_env->convert(std::nullopt); }
    void m_vv() { g_env->convert(std::nullopt); }
    suspend_point<void> p_ii(int &x, promise<int> &p) {
        g_env->note_ref(&x);
        int r = g_env->convert(x);
        if (g_env->behav == "leave") return {};
        return p(r);
    }
    suspend_point<void> p_iv(int &x, promise<void> &p) {
        g_env->convert(x);
        if (g_env->behav == "leave") return {};
        return p();
    }
    suspend_point<void> p_vi(promise<int> &p) {
        int r = g_env->convert(std::nullopt);
        if (g_env->behav == "leave") return {};
        return p(r);
    }
    suspend_point<void> p_vv(promise<void> &p) {
        g_env->convert(std::nullopt);
        if (g_env->behav == "leave") return {};
        return p();
    }
};
static int f_ii(int &x) { g_env->note_ref(&x); return g_env->convert(x); }
static void f_iv(int &x) { g_env->convert(x); }
static int c_ii(int &x, CvCtx *) { return g_env->convert(x); }

template <typename T>
struct CfObj {
    Env *env;
    suspend_point<void> done(future<T> &f) noexcept {
        trk::Off o;
        env->cb_calls++;
        env->log("cb " + observe_future(f));
        return {};
    }
};

// The argument that constructs the awaited operation of callback_await: a *stateful temporary* functor that records its
// own liveness in a registry of live addresses (no dead memory is ever touched: the verdict needs no sanitizer).
template <typename T, typename PT = T>
struct ProbeFactory {
    static std::set<const void *> &live() { static std::set<const void *> s; return s; }
    static inline Src<T, PT> *src = nullptr;
    ProbeFactory() { trk::Off o; live().insert(this); }
    ProbeFactory(const ProbeFactory &) { trk::Off o; live().insert(this); }
    ProbeFactory(ProbeFactory &&) { trk::Off o; live().insert(this); }
    ~ProbeFactory() { trk::Off o; live().erase(this); }
    future<PT> operator()() const {
        {
            trk::Off o;
            if (!live().count(this)) S().log_line("dead-arg");
        }
        return src->make();
    }
};

// the calling context "inside a running coroutine": the thread's coroutine queue is active while `reg` runs
static async<void> caller_coro(std::function<void()> reg, Env *env) {
    reg();
    env->log("caller-continues");
    co_return;
}

// call_fn_awaiter (awaiter.h): an awaiter that calls a member function; the user subscribes it by hand
template <typename T>
struct CaObj {
    Env *env;
    std::optional<future<T>> fut;
    explicit CaObj(Env *e) : env(e) {}
    suspend_point<void> done(awaiter *) noexcept {
        trk::Off o;
        env->cb_calls++;
        env->log("cb " + observe_future(*fut));
        return {};
    }
    call_fn_awaiter<CaObj, &CaObj::done> awt{this};
};

struct Round {
    std::vector<std::vector<std::string>> threads;   // g / r / d lines in order
    std::vector<std::string> pre, imm, fthrow;
    std::vector<int> sched;
    bool cbthrow = false;
    bool coro = false;
    std::string read = "get";
};
struct Case {
    std::vector<std::string> hdr;
    std::vector<Round> rounds;
};

template <typename T, typename PT = T>
struct Runner {
    Env env;
    Src<T, PT> src{env};
    cstor stor;
    std::function<void()> reg;        // the registration (runs on thread 0)
    std::function<void()> report;     // extra final lines
    std::function<void()> cleanup;

    template <typename Fn>
    void register_tracked(Fn &&fn) {
        trk::On on;
        fn();
    }

    std::function<void()> round_end;  // between two operations on the same helper
    bool coro_ok = false;             // the adapter supports `ctx coro` (callback_await with an owned awaitable)

    void run(const Case &cs) {
        g_env = &env;
        for (std::size_t k = 0; k < cs.rounds.size(); k++) {
            if (k) {
                env.log("round");
                S().reset();
            }
            run_round(cs.rounds[k]);
            if (round_end) round_end();
        }
        if (cleanup) cleanup();
    }

    void run_round(const Round &c) {
        env.cb_throws = c.cbthrow;
        env.read = c.read;
        env.cb_calls = env.conv_calls = 0;
        int allocs0 = trk::allocs + cstor::allocs, frees0 = trk::frees + cstor::frees;
        src.prom.reset();
        src.published = false;
        src.pre = c.pre;
        src.imm = c.imm;
        src.fthrow = c.fthrow;
        S().track_only = true;
        S().name_ptr(&awaiter::instance, "inst");
        S().name_ptr(&awaiter::disabled, "ready");
        int tid = 0;
        std::vector<int> resolvers;
        bool self = false;
        const bool in_coro = c.coro && coro_ok;
        for (std::size_t i = 0; i < c.threads.size(); i++) {
            if (c.threads[i][0] == "r") resolvers.push_back((int)i);
            if (c.threads[i][0] == "g" && c.threads[i].size() > 1) self = true;
        }
        for (auto &t : c.threads) {
            if (t[0] == "g") S().spawn([this, t, tid, in_coro] {
                // construct this thread's coroutine ready queue (a thread_local std::deque) before anything is measured:
                // per-thread infrastructure, not a helper block (its allocation behaviour is C20's subject)
                coro_queue::install_queue_and_call([] {});
                if (in_coro) caller_coro(reg, &env).detach();   // the helper starts when the caller coroutine is done
                else reg();
                if (t.size() > 1) src.resolver_body(t, 2, tid);
            });
            else if (t[0] == "r") S().spawn([this, t, tid] { src.resolver_body(t, 1, tid); });
            else if (t[0] == "d") S().spawn([this, resolvers, self] {
                // ~promise, sequenced after every invocation of the promise
                auto pred = [this, resolvers, self] {
                    if (!src.published) return false;
                    if (self && S().ts[0].st != vshim::Sched::FINISHED) return false;
                    for (int r : resolvers) if (S().ts[r].st != vshim::Sched::FINISHED) return false;
                    return true;
                };
                if (!pred()) { S().log_op("wait-block resolvers"); S().block(pred); }
                src.prom.reset();
            });
            tid++;
        }
        bool ok = S().run(c.sched);
        if (!ok) {
            env.log("deadlock");
            env.log("end");
            std::cout.flush();
            _exit(0);
        }
        src.prom.reset();
        env.log("promise-destroyed");
        if (report) report();
        env.log("final cb=" + std::to_string(env.cb_calls) + " conv=" + std::to_string(env.conv_calls) +
                " allocs=" + std::to_string(trk::allocs + cstor::allocs - allocs0) +
                " frees=" + std::to_string(trk::frees + cstor::frees - frees0));
    }
};

// ---- adapters ------------------------------------------------------------------------------------------------------
template <typename T, typename PT>
static void setup_simple(Runner<T, PT> &R, const std::string &adapter, const std::string &alloc) {
    Env *env = &R.env;
    auto factory = [&R] { return R.src.make(); };
    if (adapter == "cbawait") {
        R.coro_ok = true;
        R.reg = [&R, env, factory, alloc] {
            auto cb = [env](await_result<T> r) {
                trk::Off o;
                env->cb_calls++;
                env->log("cb " + observe_result(r, env->read));
                if (env->cb_throws && env->cb_calls == 1) throw test_exc(88);
            };
            // rvalues: callback_await stores an lvalue callback by reference (the caller would have to keep it alive);
            // the factory is a stateful temporary of the call's full expression
            ProbeFactory<T, PT>::src = &R.src;
            R.register_tracked([&] {
                if (alloc == "stor") callback_await_alloc<cstor, future<T>>(R.stor, std::move(cb), ProbeFactory<T, PT>());
                else callback_await<future<T>>(std::move(cb), ProbeFactory<T, PT>());
            });
        };
    } else if (adapter == "cbref") {
        // callback_await on a reference to an awaitable owned by the caller (the way scheduler.h uses it)
        auto ext = std::make_shared<std::optional<future<T>>>();
        R.reg = [&R, env, factory, alloc, ext] {
            auto cb = [env](await_result<T> r) {
                trk::Off o;
                env->cb_calls++;
                env->log("cb " + observe_result(r, env->read));
                if (env->cb_throws && env->cb_calls == 1) throw test_exc(88);
            };
            ext->emplace(factory);
            R.register_tracked([&] {
                if (alloc == "stor") callback_await_alloc<cstor, future<T> &>(R.stor, std::move(cb), **ext);
                else callback_await<future<T> &>(std::move(cb), **ext);
            });
        };
        R.round_end = [ext] { ext->reset(); };
    } else if (adapter == "cbawt" || adapter == "cbwrap") {
        // callback_await on an awaiter object (no operator co_await): the awaiter retrieve_awaiter() hands out for the
        // caller-owned future, awaited by reference; or (cbwrap) the awaiter_wrapper retrieve_awaiter() builds around it
        using AW = co_awaiter<future<T>>;
        using WR = decltype(retrieve_awaiter(std::declval<AW &>()));
        auto ext = std::make_shared<std::optional<future<T>>>();
        auto aw = std::make_shared<std::optional<AW>>();
        auto wr = std::make_shared<std::optional<WR>>();
        bool wrap = adapter == "cbwrap";
        R.reg = [&R, env, factory, alloc, ext, aw, wr, wrap] {
            auto cb = [env](await_result<T> r) {
                trk::Off o;
                env->cb_calls++;
                env->log("cb " + observe_result(r, env->read));
                if (env->cb_throws && env->cb_calls == 1) throw test_exc(88);
            };
            {
                trk::Off o;
                ext->emplace(factory);
                aw->emplace(retrieve_awaiter(**ext));
                if (wrap) wr->emplace(retrieve_awaiter(**aw));
            }
            R.register_tracked([&] {
                if (wrap) {
                    if (alloc == "stor") callback_await_alloc<cstor, WR &>(R.stor, std::move(cb), **wr);
                    else callback_await<WR &>(std::move(cb), **wr);
                } else {
                    if (alloc == "stor") callback_await_alloc<cstor, AW &>(R.stor, std::move(cb), **aw);
                    else callback_await<AW &>(std::move(cb), **aw);
                }
            });
        };
        R.round_end = [ext, aw, wr] { wr->reset(); aw->reset(); ext->reset(); };
    } else if (adapter == "callawt") {
        auto obj = std::make_shared<CaObj<T>>(env);
        R.reg = [&R, obj, factory] {
            R.register_tracked([&] {
                obj->fut.emplace(factory);
                auto a = obj->fut->operator co_await();
                // the subscription protocol of co_awaiter::subscribe: refused = already resolved, the caller completes
                if (a.await_ready() || !a.subscribe(&obj->awt)) obj->awt.resume();
            });
        };
        R.round_end = [obj] { obj->fut.reset(); };
        R.cleanup = [obj]() mutable { obj.reset(); };
    } else if (adapter == "mkprom") {
      if constexpr (!std::is_reference_v<PT>) {   // make_promise has no source factory: no reference flavour
        R.reg = [&R, env, alloc] {
            auto cb = [env](future<T> &f) {
                trk::Off o;
                env->cb_calls++;
                env->log("cb " + observe_future(f));
            };
            std::optional<promise<T>> p;
            R.register_tracked([&] {
                if (alloc == "stor") p.emplace(make_promise<T>(std::move(cb), R.stor));
                else p.emplace(make_promise<T>(std::move(cb)));
            });
            future<T> *f = p->VN_promise__owner.raw();
            S().name_obj(&f->VN_future_common__awaiter, "slot");
            R.src.publish(std::move(*p));
        };
      }
    } else if (adapter == "mkcb") {
        // future_with_cb driven directly: the callback object is created first and then attached to the future a source
        // factory returns, `*obj << factory` (future_with_cb::operator<<).  The object owns itself: its resume function
        // calls the callback and deletes it, so nothing is touched after the registration.
        R.reg = [&R, env, alloc, factory] {
            auto cb = [env](future<T> &f) {
                trk::Off o;
                env->cb_calls++;
                env->log("cb " + observe_future(f));
            };
            using CB = decltype(cb);
            R.register_tracked([&] {
                if (alloc == "stor") {
                    auto *f = new (R.stor) future_with_cb_no_alloc<T, cstor, CB>(std::move(cb));
                    (*f) << factory;
                } else {
                    auto *f = new future_with_cb<T, CB>(std::move(cb));
                    (*f) << factory;
                }
            });
        };
    } else if (adapter == "discard") {
        R.reg = [&R, factory] { R.register_tracked([&] { discard(factory); }); };
    } else if (adapter == "callfn") {
        auto obj = std::make_shared<CfObj<T>>(CfObj<T>{env});
        auto cfa = std::make_shared<call_fn_future_awaiter<&CfObj<T>::done>>(*obj);
        R.reg = [&R, cfa, factory] { R.register_tracked([&] { (*cfa) << factory; }); };
        R.cleanup = [cfa, obj]() mutable { cfa.reset(); obj.reset(); };
    }
}

template <typename From, typename To, typename PT, typename Conv>
static void setup_conv(Runner<From, PT> &R, std::shared_ptr<Conv> conv, bool hlp) {
    auto outer = std::make_shared<std::optional<future<To>>>();
    auto factory = [&R] { return R.src.make(); };
    R.reg = [&R, conv, outer, factory, hlp] {
        R.register_tracked([&] {
            if (hlp) outer->emplace([&](promise<To> p) { (*conv)(std::move(p)) << factory; });
            else outer->emplace([&] { return (*conv) << factory; });
        });
    };
    R.report = [&R, outer] {
        future<To> &f = **outer;
        if (!f.ready()) { R.env.log("outer pending"); return; }
        R.env.log("outer " + observe_future(f, false) + " hv=" + (f.VN_future_common__state != future_common::State::not_value ? "1" : "0"));
    };
    R.round_end = [outer] { outer->reset(); };
    R.cleanup = [conv, outer]() mutable { outer->reset(); conv.reset(); };
}

static CvCtx g_cvctx;

template <typename From, typename PT>
static bool setup_conv_shape(Runner<From, PT> &R, const std::string &shape, const std::string &to, bool hlp) {
    CvCtx *cx = &g_cvctx;
    if constexpr (std::is_void_v<From>) {
        if (shape == "m" && to == "int") { setup_conv<void, int, PT>(R, std::make_shared<future_conv<&CvCtx::m_vi>>(cx), hlp); return true; }
        if (shape == "m" && to == "void") { setup_conv<void, void, PT>(R, std::make_shared<future_conv<&CvCtx::m_vv>>(cx), hlp); return true; }
        if (shape == "p" && to == "int") { setup_conv<void, int, PT>(R, std::make_shared<future_conv<&CvCtx::p_vi>>(cx), hlp); return true; }
        if (shape == "p" && to == "void") { setup_conv<void, void, PT>(R, std::make_shared<future_conv<&CvCtx::p_vv>>(cx), hlp); return true; }
    } else {
        if (shape == "m" && to == "int") { setup_conv<int, int, PT>(R, std::make_shared<future_conv<&CvCtx::m_ii>>(cx), hlp); return true; }
        if (shape == "m" && to == "void") { setup_conv<int, void, PT>(R, std::make_shared<future_conv<&CvCtx::m_iv>>(cx), hlp); return true; }
        if (shape == "p" && to == "int") { setup_conv<int, int, PT>(R, std::make_shared<future_conv<&CvCtx::p_ii>>(cx), hlp); return true; }
        if (shape == "p" && to == "void") { setup_conv<int, void, PT>(R, std::make_shared<future_conv<&CvCtx::p_iv>>(cx), hlp); return true; }
        if (shape == "f" && to == "int") { setup_conv<int, int, PT>(R, std::make_shared<future_conv<&f_ii>>(), hlp); return true; }
        if (shape == "f" && to == "void") { setup_conv<int, void, PT>(R, std::make_shared<future_conv<&f_iv>>(), hlp); return true; }
        if (shape == "c" && to == "int") { setup_conv<int, int, PT>(R, std::make_shared<future_conv<&c_ii>>(cx), hlp); return true; }
    }
    return false;
}

template <typename T, typename PT = T>
static void run_typed(const Case &c) {
    Runner<T, PT> R;
    R.env.ref_src = std::is_reference_v<PT>;
    const std::string adapter = c.hdr[3];
    const std::string alloc = c.hdr.size() > 5 ? c.hdr[5] : "heap";
    if (adapter == "conv") {
        std::string shape = c.hdr.size() > 6 ? c.hdr[6] : "m";
        std::string to = c.hdr.size() > 7 ? c.hdr[7] : "int";
        R.env.behav = c.hdr.size() > 8 ? c.hdr[8] : "ok";
        bool hlp = c.hdr.size() > 9 && c.hdr[9] == "hlp";
        if (!setup_conv_shape<T, PT>(R, shape, to, hlp)) { S().log_line("bad-conv-shape"); return; }
    } else {
        setup_simple<T, PT>(R, adapter, alloc);
        if (!R.reg) { S().log_line("bad-adapter"); return; }
    }
    R.run(c);
}

static void run_case(const Case &c) {
    std::string T = c.hdr.size() > 4 ? c.hdr[4] : "int";
    if (T == "void") run_typed<void>(c);
    else if (T == "intref") run_typed<int, int &>(c);
    else run_typed<int>(c);
    S().log_line("end");
}

int main() {
    std::string line;
    Case c;
    while (std::getline(std::cin, line)) {
        auto w = split(line);
        if (w.empty()) continue;
        if (w[0] == "case") { c = Case(); c.hdr = w; c.rounds.emplace_back(); continue; }
        if (c.rounds.empty()) continue;
        Round &rd = c.rounds.back();
        if (w[0] == "round") { c.rounds.emplace_back(); continue; }
        if (w[0] == "g" || w[0] == "r" || w[0] == "d") { rd.threads.push_back(w); continue; }
        if (w[0] == "pre") { rd.pre = w; continue; }
        if (w[0] == "imm") { rd.imm = w; continue; }
        if (w[0] == "fthrow" && w.size() > 1) { rd.fthrow = w; continue; }
        if (w[0] == "cbthrow") { rd.cbthrow = true; continue; }
        if (w[0] == "read" && w.size() > 1) { rd.read = w[1]; continue; }
        if (w[0] == "ctx" && w.size() > 1) { rd.coro = w[1] == "coro"; continue; }
        if (w[0] == "sched") { for (std::size_t i = 1; i < w.size(); i++) rd.sched.push_back(atoi(w[i].c_str())); continue; }
        if (w[0] != "end") continue;
        std::cout << "case " << c.hdr[1] << std::endl;
        pid_t pid = fork();
        if (pid == 0) {
            alarm(20);
            std::cout.setf(std::ios::unitbuf);   // keep the trace of a crashing case
            run_case(c);
            std::cout.flush();
            _exit(0);
        }
        int st = 0;
        waitpid(pid, &st, 0);
        if (!(WIFEXITED(st) && WEXITSTATUS(st) == 0)) {
            if (WIFEXITED(st) && WEXITSTATUS(st) == 3) { /* assertion already reported */ }
            else {
                std::cout << "crash " << (WIFSIGNALED(st) ? "signal " + std::to_string(WTERMSIG(st)) : "exit " + std::to_string(WEXITSTATUS(st))) << "\n";
                std::cout << "end" << std::endl;
            }
        }
    }
    return 0;
}
