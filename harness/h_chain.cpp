// T-harness for the promise/future/awaiter-chain core (C01, C02): real threads under the baton scheduler,
// one scheduling point after every atomic operation of the unmodified headers.
#include "shim/verif_shim.h"
#include "shim/rename_on.h"
#include <cocls/future.h>
#include <cocls/async.h>
#include "shim/rename_off.h"
#include <sys/wait.h>

using namespace cocls;
using vshim::S;

struct test_exc : std::exception {
    int code;
    explicit test_exc(int c) : code(c) {}
};

static std::vector<std::string> split(const std::string &s) {
    std::vector<std::string> o;
    std::istringstream is(s);
    std::string t;
    while (is >> t) o.push_back(t);
    return o;
}

// ---- payload types --------------------------------------------------------------------------
struct counted {
    static inline int ctor = 0, dtor = 0;
    int v;
    counted(int x) : v(x) { ++ctor; }
    counted(const counted &o) : v(o.v) { ++ctor; }
    counted(counted &&o) : v(o.v) { ++ctor; }
    counted &operator=(const counted &o) { v = o.v; return *this; }
    counted &operator=(counted &&o) { v = o.v; return *this; }
    ~counted() { ++dtor; }
};
// a payload whose construction from a negative int throws (inside future::set, after the promise was claimed)
// It counts its instances and carries a marker, so that a "value" that was never constructed (or is destroyed without
// having been constructed) is visible in the output instead of being garbage.
struct thrower {
    static inline int ctor = 0, dtor = 0;
    static constexpr unsigned long long MAGIC = 0x7468726f77657221ULL;
    unsigned long long magic;
    int v;
    thrower(int x) : magic(0), v(x) { if (x < 0) throw std::runtime_error("negative"); magic = MAGIC; ++ctor; }
    thrower(const thrower &o) : magic(MAGIC), v(o.v) { ++ctor; }
    thrower(thrower &&o) : magic(MAGIC), v(o.v) { ++ctor; }
    thrower &operator=(const thrower &o) { v = o.v; return *this; }
    ~thrower() { ++dtor; magic = 0; }
};
template <typename T> struct P;
template <> struct P<thrower> {
    static int make(int v) { return v; }      // constructed in place from the int
    static std::string show(thrower &v) { return v.magic == thrower::MAGIC ? "v:" + std::to_string(v.v) : std::string("v:raw-storage"); }
};
// a payload with an initializer_list constructor, resolved by in-place multi-argument construction: (2, v) must give {v, v}
using vec = std::vector<int>;
template <> struct P<vec> {
    static vec make(int v) { return vec(2, v); }
    static std::string show(vec &x) {
        if (x.size() == 2 && x[0] == x[1]) return "v:" + std::to_string(x[0]);
        std::string s = "v:bad[";
        for (std::size_t i = 0; i < x.size() && i < 8; i++) s += (i ? "," : "") + std::to_string(x[i]);
        return s + "]";
    }
};
template <> struct P<int> {
    static int make(int v) { return v; }
    static std::string show(int &v) { return "v:" + std::to_string(v); }
};
template <> struct P<counted> {
    static counted make(int v) { return counted(v); }
    static std::string show(counted &v) { return "v:" + std::to_string(v.v); }
};
template <> struct P<std::unique_ptr<int>> {
    static std::unique_ptr<int> make(int v) { return std::make_unique<int>(v); }
    static std::string show(std::unique_ptr<int> &v) { return "v:" + std::to_string(*v); }
};

static int ref_cells[64];

// promise_with_default_v / _vp need compile-time defaults: the input must name exactly these values
constexpr int PWD_V = 77;
extern const int pwd_vp_cell;
const int pwd_vp_cell = 78;

// the protected static entry points of promise<T> (meant for derived promise classes): set() / resolve()
template <typename T>
struct derived_promise : promise<T> {
    template <typename... A> static void do_set(future<T> *f, A &&...a) { promise<T>::VN_promise_set(f, std::forward<A>(a)...); }
    static void do_resolve(future<T> *f) { promise<T>::VN_promise_resolve(f); }
};

// an argument for promise::bind() whose decay-copy into the bound tuple throws (bind-end throw)
struct throwing_arg {
    throwing_arg() = default;
    throwing_arg(const throwing_arg &) { throw test_exc(99); }
    operator int() const { return 0; }
};

static int g_bind_end = 0;   // 0 none, 1 call, 2 move+call, 3 drop, 4 throw (see Scn::bind_end)
static int g_bind_val = 0;

// ---- pointer-level digest (case kind `chainp`; lean/CoclsModel/ChainPtr.lean, lean/Drivers/C02P.lean) ---------------------------
// After every operation line (`s ...`) one more line `p head=<ptr> n<i>=<ptr> ...` shows the REAL pointer state: the future's awaiter
// slot and the `_next` field of every waiter node the harness knows to be alive (canonical names null / ready / w<i>, never
// addresses); after every `obs w<i>` of a non-blocking waiter a line `po w<i> n=<ptr>` shows that waiter's own `_next` at the moment
// it reads the result.  Nothing of this is printed for case kind `chain`, whose output is unchanged.
static bool g_ptr = false;
static std::function<void(const std::string &)> g_after_line;
// the shim's log stream, line by line: every line goes to std::cout unchanged, then the hook may add lines
struct LineTap : std::streambuf {
    std::string buf;
    int overflow(int ch) override {
        if (ch == traits_type::eof()) return 0;
        if (ch == '\n') {
            std::string l;
            l.swap(buf);
            std::cout << l << "\n";
            if (g_after_line) g_after_line(l);
        } else buf.push_back((char)ch);
        return ch;
    }
};

template <typename T>
struct Scn {
    using FT = future<T>;
    std::optional<FT> fut;
    promise<T> *prom = nullptr;            // the (base sub-)object every call goes through
    std::function<void()> prom_deleter;    // destroys the real object: promise<T> or one of the promise_with_default classes
    std::string pwd_kind;                  // "" (plain promise), "def", "defv", "defvp"
    int pwd_val = 0;
    std::vector<int> obs_count;

    // pointer-level bookkeeping (case kind `chainp` only)
    std::vector<awaiter *> node_ptr;       // coroutine / has_value / callback waiters: their awaiter node from construction until the result is read
    std::vector<std::string> wkind;        // "" for non-waiters
    std::vector<char> passed, refused;     // blocking waiters: passed flag.wait / saw `ready` in the CAS (the stack node is about to go)
    std::vector<awaiter *> ever;           // the address each waiter's node has / had: only to NAME a (possibly stale) pointer, never dereferenced
    void reg(int w, awaiter *a) { if (g_ptr) { node_ptr[w] = a; ever[w] = a; } }
    // the stack sync_awaiter of blocking waiter w, while it exists: found through the shim's registry of live atomics (its flag is `a<w>.0`)
    awaiter *sync_node(int w) {
        static sync_awaiter probe;
        static const std::ptrdiff_t off = reinterpret_cast<char *>(&probe.flag) - reinterpret_cast<char *>(static_cast<awaiter *>(&probe));
        std::string nm = "a" + std::to_string(w) + ".0";
        for (auto &kv : S().obj_names)
            if (kv.second == nm) {
                auto a = reinterpret_cast<awaiter *>(const_cast<char *>(static_cast<const char *>(kv.first)) - off);
                if (w < (int)ever.size()) ever[w] = a;
                return a;
            }
        return nullptr;
    }
    std::string pname(awaiter *a) {
        if (!a) return "null";
        if (a == &awaiter::disabled) return "ready";
        for (std::size_t i = 0; i < wkind.size(); i++) {
            if (wkind[i].empty()) continue;
            awaiter *n = wkind[i] == "sync" ? sync_node((int)i) : node_ptr[i];
            if (n && n == a) return "w" + std::to_string(i);
        }
        // a stale pointer (the expected value a failed CAS left in an unpublished node may name a waiter that is gone by now)
        for (std::size_t i = 0; i < ever.size(); i++)
            if (ever[i] == a) return "w" + std::to_string(i);
        return "?";
    }
    void after_line(const std::string &l) {
        if (l.size() < 2 || l[0] != 's' || l[1] != ' ') return;
        auto w = split(l);
        if (w.size() >= 3) {
            int t = atoi(w[1].c_str());
            if (t >= 0 && t < (int)wkind.size() && wkind[t] == "sync") {
                if (w[2] == "wait-pass") passed[t] = 1;
                if (w.size() >= 5 && w[2] == "cas-" && w[3] == "slot" && w[4].rfind("ready>", 0) == 0) refused[t] = 1;
            }
        }
        std::string d = "p head=" + pname(fut->VN_future_common__awaiter.raw());
        for (std::size_t i = 0; i < wkind.size(); i++) {
            if (wkind[i].empty()) continue;
            awaiter *n = nullptr;
            if (wkind[i] == "sync") { if (!passed[i] && !refused[i]) n = sync_node((int)i); }
            else n = node_ptr[i];
            if (n) d += " n" + std::to_string(i) + "=" + pname(n->_next);
        }
        std::cout << d << "\n";
    }

    void kill_prom() {
        if (prom) { auto d = std::move(prom_deleter); prom = nullptr; d(); }
    }
    template <typename PT, typename... A>
    void make_prom(A &&...a) {
        auto *o = new PT(std::forward<A>(a)...);
        prom = o;
        prom_deleter = [o] { delete o; };
    }
    static constexpr bool pwd_ok = !std::is_void_v<T> && !std::is_reference_v<T> && !std::is_same_v<T, thrower>;
    void create_promise() {
        if constexpr (pwd_ok) {
            if (pwd_kind == "def") { make_prom<promise_with_default<T>>(fut->get_promise(), P<T>::make(pwd_val)); return; }
            if constexpr (std::is_same_v<T, int>) {
                if (pwd_kind == "defv") { make_prom<promise_with_default_v<int, PWD_V>>(fut->get_promise()); return; }
                if (pwd_kind == "defvp") { make_prom<promise_with_default_vp<int, &pwd_vp_cell>>(fut->get_promise()); return; }
            }
        }
        make_prom<promise<T>>(fut->get_promise());
    }
    // a = std::move(b) into a fresh object with default `va`, then both objects die (b first, it owns nothing any more)
    void assign_from(int va) {
        if constexpr (pwd_ok) {
            if (pwd_kind == "def") {
                promise_with_default<T> a(promise<T>(), P<T>::make(va));
                a = std::move(*static_cast<promise_with_default<T> *>(prom));
                kill_prom();
                return;
            }
            if constexpr (std::is_same_v<T, int>) {
                if (pwd_kind == "defv") {
                    promise_with_default_v<int, PWD_V> a;
                    a = std::move(*static_cast<promise_with_default_v<int, PWD_V> *>(prom));
                    kill_prom();
                    return;
                }
                if (pwd_kind == "defvp") {
                    promise_with_default_vp<int, &pwd_vp_cell> a;
                    a = std::move(*static_cast<promise_with_default_vp<int, &pwd_vp_cell> *>(prom));
                    kill_prom();
                    return;
                }
            }
        }
        kill_prom();
    }

    void log(const std::string &s) { S().log_line(s); }

    template <typename Fn>
    std::string observe(Fn &&fn) {
        try {
            if constexpr (std::is_void_v<T>) {
                fn();
                return "v";
            } else if constexpr (std::is_reference_v<T>) {
                int &r = fn();
                return "v:" + std::to_string(r);
            } else {
                auto &r = fn();
                return P<T>::show(r);
            }
        } catch (const await_canceled_exception &) {
            return "canceled";
        } catch (const test_exc &e) {
            return "exc:" + std::to_string(e.code);
        } catch (const value_not_ready_exception &) {
            return "notready";
        } catch (...) {
            return "other";
        }
    }
    void obs(int w, const std::string &what) {
        obs_count[w]++;
        log("obs w" + std::to_string(w) + " " + what);
        if (g_ptr && node_ptr[w]) {
            log("po w" + std::to_string(w) + " n=" + pname(node_ptr[w]->_next));
            node_ptr[w] = nullptr;     // from here on the frame / closure that holds the node may go
        }
    }

    async<void> coro_waiter(int w) {
        auto awt = fut->operator co_await();
        reg(w, &awt);
        if constexpr (std::is_void_v<T>) {
            std::string r;
            try { co_await awt; r = "v"; }
            catch (const await_canceled_exception &) { r = "canceled"; }
            catch (const test_exc &e) { r = "exc:" + std::to_string(e.code); }
            obs(w, r);
        } else {
            std::string r;
            try { auto &v = co_await awt; r = observe([&]() -> decltype(auto) { return (v); }); }
            catch (const await_canceled_exception &) { r = "canceled"; }
            catch (const test_exc &e) { r = "exc:" + std::to_string(e.code); }
            obs(w, r);
        }
    }
    async<void> hasv_waiter(int w) {
        if (g_ptr) {
            // the same awaiter as a named local, so that the harness can look at its `_next`
            auto awt = fut->has_value();
            reg(w, &awt);
            bool b = co_await awt;
            obs(w, std::string("hv:") + (b ? "1" : "0"));
            co_return;
        }
        bool b = co_await fut->has_value();
        obs(w, std::string("hv:") + (b ? "1" : "0"));
    }

    struct cb_ctx {
        Scn *self;
        int w;
        co_awaiter<FT> awt;
    };
    static suspend_point<void> cb_fn(awaiter *, void *ctx) noexcept {
        auto c = static_cast<cb_ctx *>(ctx);
        c->self->obs(c->w, c->self->observe([&]() -> decltype(auto) { return c->awt.await_resume(); }));
        delete c;
        return {};
    }

    void waiter_body(const std::string &kind, int w) {
        if (kind == "coro") {
            coro_waiter(w).detach();
        } else if (kind == "hasv") {
            hasv_waiter(w).detach();
        } else if (kind == "sync") {
            // every blocking spelling is the same op sequence (ready() load, subscribe CAS loop, flag.wait, value()):
            // which one is used depends on the waiter's index only
            switch (w % 6) {
                case 0: obs(w, observe([&]() -> decltype(auto) { return fut->wait(); })); break;
                case 1: obs(w, observe([&]() -> decltype(auto) { return fut->force_wait(); })); break;
                case 2: fut->sync(); obs(w, observe([&]() -> decltype(auto) { return fut->value(); })); break;
                case 3: fut->force_sync(); obs(w, observe([&]() -> decltype(auto) { return fut->value(); })); break;
                case 4: obs(w, observe([&]() -> decltype(auto) { return fut->join(); })); break;
                default: obs(w, observe([&]() -> decltype(auto) { return **fut; })); break;
            }
        } else if (kind == "cb") {
            auto c = new cb_ctx{this, w, fut->operator co_await()};
            reg(w, &c->awt);
            if (c->awt.await_ready() || !c->awt.await_suspend(&cb_fn, c)) {
                obs(w, observe([&]() -> decltype(auto) { return c->awt.await_resume(); }));
                delete c;
            }
        }
    }

    void resolver_body(const std::vector<std::string> &a, int tid) {
        bool r = false;
        if (a[1] == "value" && atoi(a[2].c_str()) % 3 == 2) {
            // a derived promise class resolving by hand: claim(), static set(), static resolve() (the suspend point is flushed inside)
            int v = atoi(a[2].c_str());
            if (auto m = prom->claim()) {
                if constexpr (std::is_void_v<T>) derived_promise<T>::do_set(m);
                else if constexpr (std::is_reference_v<T>) { ref_cells[tid] = v; derived_promise<T>::do_set(m, ref_cells[tid]); }
                else if constexpr (std::is_same_v<T, vec>) derived_promise<T>::do_set(m, 2, v);
                else derived_promise<T>::do_set(m, P<T>::make(v));
                derived_promise<T>::do_resolve(m);
                r = true;
            }
        } else if (a[1] == "value") {
            int v = atoi(a[2].c_str());
            if constexpr (std::is_void_v<T>) { auto sp = (*prom)(); r = sp; }
            else if constexpr (std::is_reference_v<T>) { ref_cells[tid] = v; auto sp = (*prom)(ref_cells[tid]); r = sp; }
            else if constexpr (std::is_same_v<T, vec>) { auto sp = (*prom)(2, v); r = sp; }   // in place: two copies of v
            else { auto sp = (*prom)(P<T>::make(v)); r = sp; }
        } else if (a[1] == "exc") {
            // every way the API accepts an exception is the same model step; which spelling is used depends on the code only
            // (a named exception_ptr goes through overload resolution against the value-constructing set(Args&&...): used where
            // the payload type would also accept it, so that a change of the overload set shows as behaviour, not as a compile error)
            int code = atoi(a[2].c_str());
            constexpr bool named_ok = std::is_void_v<T> || std::is_constructible_v<std::conditional_t<std::is_void_v<T>, int, std::remove_reference_t<T>>, std::exception_ptr &>;
            int form = code % 5;
            if (!named_ok && (form == 1 || form == 2)) form = 3;
            switch (form) {
                case 0: { auto sp = (*prom)(std::make_exception_ptr(test_exc(code))); r = sp; break; }
                case 1: if constexpr (named_ok) { std::exception_ptr e = std::make_exception_ptr(test_exc(code)); auto sp = (*prom)(e); r = sp; } break;
                case 2: if constexpr (named_ok) { const std::exception_ptr e = std::make_exception_ptr(test_exc(code)); auto sp = prom->set_value(e); r = sp; } break;
                case 3: { std::exception_ptr e = std::make_exception_ptr(test_exc(code)); auto sp = prom->set_exception(e); r = sp; break; }
                default: { try { throw test_exc(code); } catch (...) { r = prom->unhandled_exception(); } break; }
            }
        } else if (a[1] == "throwv") {
            // the value's constructor throws inside set_value(): the call reports the exception, the future must not stay pending
            if constexpr (std::is_same_v<T, thrower>) {
                try { auto sp = (*prom)(-1); r = sp; }
                catch (const std::runtime_error &) { log("ret t" + std::to_string(tid) + " threw"); return; }
            } else { auto sp = (*prom)(drop); r = sp; }
        } else {
            auto sp = (*prom)(drop);
            r = sp;
        }
        log("ret t" + std::to_string(tid) + " " + (r ? "1" : "0"));
    }

    // `r <kind> [<v>] aw`: the resolver is a coroutine that resolves and awaits the returned suspend point in one expression,
    // `bool won = co_await promise(args...)`.  Claim, set, the exchange on the slot and the walk are those of every other call;
    // what differs is how the collected coroutine waiters are resumed: suspend_point::await_suspend transfers to the LAST handle,
    // queues the others (in order) and then the awaiting coroutine itself, which learns the result after all of them have run.
    async<void> resolver_coro(std::vector<std::string> a, int tid) {
        bool r = false;
        if (a[1] == "value") {
            int v = atoi(a[2].c_str());
            if constexpr (std::is_void_v<T>) r = co_await (*prom)();
            else if constexpr (std::is_reference_v<T>) { ref_cells[tid] = v; r = co_await (*prom)(ref_cells[tid]); }
            else if constexpr (std::is_same_v<T, vec>) r = co_await (*prom)(2, v);   // in place: two copies of v
            else r = co_await (*prom)(P<T>::make(v));
        } else if (a[1] == "exc") {
            int code = atoi(a[2].c_str());
            if (code % 2 == 0) r = co_await (*prom)(std::make_exception_ptr(test_exc(code)));
            else { std::exception_ptr e = std::make_exception_ptr(test_exc(code)); r = co_await prom->set_exception(e); }
        } else if (a[1] == "throwv") {
            if constexpr (std::is_same_v<T, thrower>) {
                bool threw = false;
                try { r = co_await (*prom)(-1); }
                catch (const std::runtime_error &) { threw = true; }
                if (threw) { log("ret t" + std::to_string(tid) + " threw"); co_return; }
            } else r = co_await (*prom)(drop);
        } else if (a.size() > 2 && a[2] == "aw" && tid % 2 == 1) {
            r = co_await prom->set_value(drop);
        } else {
            r = co_await (*prom)(drop);
        }
        log("ret t" + std::to_string(tid) + " " + (r ? "1" : "0"));
    }

    // the static factories build an already resolved future: same observations as a future resolved through a promise
    void factories() {
        {
            FT f = FT::set_exception(std::make_exception_ptr(test_exc(5)));
            if (!f.ready() || observe([&]() -> decltype(auto) { return f.value(); }) != "exc:5") anomaly("future::set_exception factory");
        }
        {
            FT f = FT::set_not_value();
            if (!f.ready() || observe([&]() -> decltype(auto) { return f.value(); }) != "canceled") anomaly("future::set_not_value factory");
        }
        if constexpr (std::is_void_v<T>) {
            FT f = FT::set_value();
            if (!f.ready() || observe([&]() -> decltype(auto) { return f.value(); }) != "v") anomaly("future::set_value factory");
        } else if constexpr (std::is_reference_v<T>) {
            ref_cells[63] = 9;
            FT f = FT::set_value(ref_cells[63]);      // future(__SetReferenceTag, ...)
            if (!f.ready() || &f.value() != &ref_cells[63]) anomaly("future::set_value factory (reference)");
        } else {
            FT f = FT::set_value(P<T>::make(9));
            if (!f.ready() || observe([&]() -> decltype(auto) { return f.value(); }) != "v:9") anomaly("future::set_value factory");
        }
    }

    // `bind-end <call|move|drop> <v>`: the controller ends the promise's life through promise::bind(): the promise moves into the
    // returned function object; `call` invokes it (a resolver call sequenced after all others), `move` moves the function object
    // first and invokes the new one (the moved-from one and a second call must lose), `drop` destroys it uncalled (= ~promise);
    // `throw` (int / void payload; `drop` for the others): copying the bound argument into the function object throws — the promise
    // has already moved into the half-built function object, which is destroyed again: the promise's life ends there (= ~promise)
    // and bind() reports the exception
    void bind_end(int nthreads) {
        if constexpr (std::is_reference_v<T> || std::is_same_v<T, thrower>) {
            (void)nthreads;
        } else {
            if constexpr (std::is_same_v<T, int> || std::is_void_v<T>) {
                if (g_bind_end == 4) {
                    bool threw = false;
                    try {
                        auto fn = prom->bind(throwing_arg());
                        (void)fn;
                    } catch (const test_exc &e) {
                        threw = e.code == 99;
                    }
                    if (!threw) anomaly("bind() did not report the exception thrown by the copy of its argument");
                    return;
                }
            }
            auto fn = [&] {
                if constexpr (std::is_void_v<T>) return prom->bind();
                else if constexpr (std::is_same_v<T, vec>) return prom->bind(2, g_bind_val);
                else return prom->bind(P<T>::make(g_bind_val));
            }();
            if (prom->get_id() != nullptr || static_cast<bool>(*prom)) anomaly("bind() left the promise non-empty");
            if (g_bind_end == 1) {
                bool r = false;
                { auto sp = fn(); r = sp; }
                log("ret t" + std::to_string(nthreads) + " " + (r ? "1" : "0"));
                { auto sp = fn(); if (sp) anomaly("second call of a bound function resolved again"); }
            } else if (g_bind_end == 2) {
                auto fn2 = std::move(fn);
                bool r = false;
                { auto sp = fn2(); r = sp; }
                log("ret t" + std::to_string(nthreads) + " " + (r ? "1" : "0"));
                { auto sp = fn(); if (sp) anomaly("moved-from bound function resolved"); }
                { auto sp = fn2(); if (sp) anomaly("second call of a bound function resolved again"); }
            }
            // `drop`: fn is destroyed here without a call
        }
    }

    // what a client may do with a pending future / its promise before anybody resolves it, without any effect on them:
    // value() (both overloads) reports value_not_ready_exception; a self move-assignment of the promise (through the operator= of
    // its own class and through the base class's) keeps the promise the owner of the future
    void pending_accessors() {
        if (observe([&]() -> decltype(auto) { return fut->value(); }) != "notready") anomaly("value() of a pending future");
        std::string cval = observe([&]() -> decltype(auto) {
            if constexpr (std::is_void_v<T>) return std::as_const(*fut).value();
            else return const_cast<typename FT::reference>(std::as_const(*fut).value());
        });
        if (cval != "notready") anomaly("const value() of a pending future");
        if (!fut->pending() || fut->ready()) anomaly("pending() / ready() of a pending future");
        {
            promise<T> &p = *prom;
            promise<T> &q = *prom;
            p = std::move(q);
        }
        if constexpr (pwd_ok) {
            if (pwd_kind == "def") {
                auto &p = *static_cast<promise_with_default<T> *>(prom);
                auto &q = *static_cast<promise_with_default<T> *>(prom);
                p = std::move(q);
            }
            if constexpr (std::is_same_v<T, int>) {
                if (pwd_kind == "defv") {
                    auto &p = *static_cast<promise_with_default_v<int, PWD_V> *>(prom);
                    auto &q = *static_cast<promise_with_default_v<int, PWD_V> *>(prom);
                    p = std::move(q);
                }
                if (pwd_kind == "defvp") {
                    auto &p = *static_cast<promise_with_default_vp<int, &pwd_vp_cell> *>(prom);
                    auto &q = *static_cast<promise_with_default_vp<int, &pwd_vp_cell> *>(prom);
                    p = std::move(q);
                }
            }
        }
        if (prom->get_id() != static_cast<const void *>(&*fut) || !fut->pending()) anomaly("self move-assignment of the owning promise");
    }

    bool assign_end = false;   // the controller overwrites the promise by move-assignment instead of destroying it
    int assign_from_val = -1;  // >= 0: the controller move-assigns the promise_with_default into a fresh one with this default
    int anomalies = 0;
    void anomaly(const std::string &s) { anomalies++; log("anomaly " + s); }

    void run(const std::vector<std::vector<std::string>> &threads, const std::vector<int> &sched, bool destroy_promise) {
        fut.emplace();
        if (!fut->initialized()) anomaly("initialized() of a fresh future");   // (as coded: true exactly in the fresh state)
        create_promise();
        if (fut->initialized()) anomaly("initialized() after get_promise()");
        if (prom->get_id() != static_cast<const void *>(&*fut)) anomaly("get_id() of the owning promise");
        if (!*prom || !static_cast<bool>(*prom)) anomaly("operator bool / operator! of the owning promise");
        pending_accessors();
        S().name_obj(&fut->VN_future_common__awaiter, "slot");
        S().name_obj(&prom->VN_promise__owner, "owner");
        S().name_ptr(&awaiter::instance, "inst");
        S().name_ptr(&awaiter::disabled, "ready");
        obs_count.assign(threads.size(), 0);
        static LineTap tap;
        static std::ostream tap_stream(&tap);
        if (g_ptr) {
            node_ptr.assign(threads.size(), nullptr);
            ever.assign(threads.size(), nullptr);
            passed.assign(threads.size(), 0);
            refused.assign(threads.size(), 0);
            wkind.clear();
            for (auto &t : threads) wkind.push_back(t[0] == "w" ? t[1] : std::string());
            (void)sync_node(0);     // construct the probe before the run starts
            g_after_line = [this](const std::string &l) { after_line(l); };
            S().out = &tap_stream;
        }
        int tid = 0;
        std::vector<int> resolvers;
        for (std::size_t i = 0; i < threads.size(); i++)
            if (threads[i][0] == "r") resolvers.push_back((int)i);
        for (auto &t : threads) {
            if (t[0] == "r" && t.back() == "aw") S().spawn([this, t, tid] { resolver_coro(t, tid).detach(); });
            else if (t[0] == "r") S().spawn([this, t, tid] { resolver_body(t, tid); });
            else if (t[0] == "d") S().spawn([this, resolvers] {
                // ~promise, sequenced after every invocation of the promise
                auto pred = [resolvers] {
                    for (int r : resolvers) if (S().ts[r].st != vshim::Sched::FINISHED) return false;
                    return true;
                };
                if (!pred()) { S().log_op("wait-block resolvers"); S().block(pred); }
                kill_prom();
            });
            else S().spawn([this, t, tid] { waiter_body(t[1], tid); });
            tid++;
        }
        bool ok = S().run(sched);
        if (!ok) {
            log("deadlock");
            log("end");
            std::cout.flush();
            _exit(0);
        }
        if (destroy_promise) {
            if (g_bind_end && prom && pwd_kind.empty() && !assign_end && assign_from_val < 0) bind_end((int)threads.size());
            // move-assignment over a promise that may still own the future must drop that future first
            if (assign_end && prom) {
                bool done = false;
                if constexpr (pwd_ok) {
                    // move-assignment over a promise_with_default* that still owns the future (through the class's own operator=):
                    // the replaced promise ends as if destroyed, its future gets the default value
                    if (pwd_kind == "def") {
                        *static_cast<promise_with_default<T> *>(prom) = promise_with_default<T>(promise<T>(), P<T>::make(pwd_val + 1));
                        done = true;
                    }
                    if constexpr (std::is_same_v<T, int>) {
                        if (pwd_kind == "defv") {
                            *static_cast<promise_with_default_v<int, PWD_V> *>(prom) = promise_with_default_v<int, PWD_V>();
                            done = true;
                        }
                        if (pwd_kind == "defvp") {
                            *static_cast<promise_with_default_vp<int, &pwd_vp_cell> *>(prom) = promise_with_default_vp<int, &pwd_vp_cell>();
                            done = true;
                        }
                    }
                }
                if (!done) *prom = promise<T>();
                if (prom->get_id() != nullptr) anomaly("get_id() of an emptied promise");
                if (!!*prom || static_cast<bool>(*prom)) anomaly("operator bool / operator! of an emptied promise");
            }
            if (assign_from_val >= 0 && prom) assign_from(assign_from_val);
            kill_prom();
            log("promise-destroyed");
        }
        std::string st = fut->ready() ? "ready" : "pending";
        std::string val = "-";
        if (fut->ready()) {
            val = observe([&]() -> decltype(auto) { return fut->value(); });
            // the const accessor and the negated has_value() are spellings of the same observation
            std::string cval = observe([&]() -> decltype(auto) {
                if constexpr (std::is_void_v<T>) return std::as_const(*fut).value();
                else return const_cast<typename FT::reference>(std::as_const(*fut).value());
            });
            if (cval != val) anomaly("const value() " + cval + " vs value() " + val);
            bool hv = fut->VN_future_common__state != future_common::State::not_value;
            if (!*fut != !hv) anomaly("operator! disagrees with the state");
            if (static_cast<bool>(*fut) != hv) anomaly("operator bool disagrees with the state");
            if (fut->initialized()) anomaly("initialized() of a resolved future");
        }
        factories();
        log("final " + st + " " + val + " hv=" + (fut->ready() ? (fut->VN_future_common__state != future_common::State::not_value ? "1" : "0") : "-"));
        for (std::size_t i = 0; i < threads.size(); i++)
            if (threads[i][0] == "w") log("waiter w" + std::to_string(i) + " released=" + std::to_string(obs_count[i]));
        if (fut->pending()) { log("end"); std::cout.flush(); _exit(0); }   // cannot destroy a pending future
        fut.reset();
        if constexpr (std::is_same_v<T, counted>) log("counted ctor-dtor=" + std::to_string(counted::ctor - counted::dtor));
        if constexpr (std::is_same_v<T, thrower>) log("thrower ctor-dtor=" + std::to_string(thrower::ctor - thrower::dtor));
    }
};

static void run_case(const std::vector<std::string> &hdr, const std::vector<std::vector<std::string>> &lines) {
    g_bind_end = 0;
    std::vector<std::vector<std::string>> threads;
    std::vector<int> sched;
    bool destroy = true;
    bool assign_end = false;
    int assign_from = -1;
    std::string pwd_kind;
    int pwd_val = 0;
    for (auto &w : lines) {
        if (w[0] == "assign-end") assign_end = true;
        if (w[0] == "bind-end" && w.size() > 2) { g_bind_end = w[1] == "call" ? 1 : w[1] == "move" ? 2 : w[1] == "throw" ? 4 : 3; g_bind_val = atoi(w[2].c_str()); }
        if (w[0] == "assign-from" && w.size() > 1) assign_from = atoi(w[1].c_str());
        if (w[0] == "pwd" && w.size() > 2) { pwd_kind = w[1]; pwd_val = atoi(w[2].c_str()); }
        if (w[0] == "r" || w[0] == "w" || w[0] == "d") threads.push_back(w);
        else if (w[0] == "sched") for (std::size_t i = 1; i < w.size(); i++) sched.push_back(atoi(w[i].c_str()));
        else if (w[0] == "keep-promise") destroy = false;
    }
    g_ptr = hdr.size() > 2 && hdr[2] == "chainp";
    std::string T = hdr.size() > 3 ? hdr[3] : "int";
    if (T == "int") { Scn<int> s; s.assign_end = assign_end; s.assign_from_val = assign_from; s.pwd_kind = pwd_kind; s.pwd_val = pwd_val; s.run(threads, sched, destroy); }
    else if (T == "void") { Scn<void> s; s.assign_end = assign_end; s.assign_from_val = assign_from; s.pwd_kind = pwd_kind; s.pwd_val = pwd_val; s.run(threads, sched, destroy); }
    else if (T == "uptr") { Scn<std::unique_ptr<int>> s; s.assign_end = assign_end; s.assign_from_val = assign_from; s.pwd_kind = pwd_kind; s.pwd_val = pwd_val; s.run(threads, sched, destroy); }
    else if (T == "ref") { Scn<int &> s; s.assign_end = assign_end; s.assign_from_val = assign_from; s.pwd_kind = pwd_kind; s.pwd_val = pwd_val; s.run(threads, sched, destroy); }
    else if (T == "counted") { Scn<counted> s; s.assign_end = assign_end; s.assign_from_val = assign_from; s.pwd_kind = pwd_kind; s.pwd_val = pwd_val; s.run(threads, sched, destroy); }
    else if (T == "vec") { Scn<vec> s; s.assign_end = assign_end; s.assign_from_val = assign_from; s.pwd_kind = pwd_kind; s.pwd_val = pwd_val; s.run(threads, sched, destroy); }
    else if (T == "thrower") { Scn<thrower> s; s.assign_end = assign_end; s.assign_from_val = assign_from; s.pwd_kind = pwd_kind; s.pwd_val = pwd_val; s.run(threads, sched, destroy); }
    S().log_line("end");
}

int main() {
    std::string line;
    std::vector<std::string> hdr;
    std::vector<std::vector<std::string>> lines;
    while (std::getline(std::cin, line)) {
        auto w = split(line);
        if (w.empty()) continue;
        if (w[0] == "case") { hdr = w; lines.clear(); continue; }
        if (w[0] != "end") { lines.push_back(w); continue; }
        std::cout << "case " << hdr[1] << std::endl;
        pid_t pid = fork();
        if (pid == 0) {
            alarm(20);
            run_case(hdr, lines);
            std::cout.flush();
            _exit(0);
        }
        int st = 0;
        waitpid(pid, &st, 0);
        if (!(WIFEXITED(st) && WEXITSTATUS(st) == 0)) {
            if (WIFEXITED(st) && WEXITSTATUS(st) == 3) { /* assertion already reported */ }
            else {
                std::cout << "crash " << (WIFSIGNALED(st) ? "signal " + std::to_string(WTERMSIG(st)) : "exit " + std::to_string(WEXITSTATUS(st))) << "\n";
                std::cout << "end" << std::endl;
            }
        }
    }
    return 0;
}
