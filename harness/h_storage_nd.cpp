// Second translation unit of the C19 harness: cocls::static_storage compiled with NDEBUG (the `assert` in
// static_storage::alloc is gone, the heap fall-back behind it becomes reachable).  The whole library is renamed to
// namespace cocls_nd for this unit so that the two builds of the same class do not collide.
#define NDEBUG 1
#include <atomic>
#include <cstdint>
#include <cstddef>
#include <cstdlib>
#include <new>
#define cocls cocls_nd
#include <cocls/future.h>
#include <cocls/coro_storage.h>
#undef cocls

namespace ndstat {

template <std::size_t N>
struct ndx : cocls_nd::static_storage<N> {
    char *buf() { return this->VN_static_storage__buffer; }
};

template <typename Fn>
static auto with_space(std::size_t space, Fn &&fn) {
    if (space == 64) return fn(static_cast<ndx<64> *>(nullptr));
    if (space == 256) return fn(static_cast<ndx<256> *>(nullptr));
    return fn(static_cast<ndx<2048> *>(nullptr));
}

void *nd_make(std::size_t space) {
    return with_space(space, [](auto *t) -> void * {
        using X = std::remove_pointer_t<decltype(t)>;
        void *raw = std::malloc(sizeof(X));
        return new (raw) X();
    });
}
void nd_destroy(std::size_t space, void *obj) {
    with_space(space, [&](auto *t) -> int {
        using X = std::remove_pointer_t<decltype(t)>;
        static_cast<X *>(obj)->~X();
        std::free(obj);
        return 0;
    });
}
void *nd_alloc(std::size_t space, void *obj, std::size_t sz) {
    return with_space(space, [&](auto *t) -> void * {
        using X = std::remove_pointer_t<decltype(t)>;
        return static_cast<X *>(obj)->alloc(sz);
    });
}
void nd_dealloc(std::size_t space, void *obj, void *p, std::size_t sz) {
    with_space(space, [&](auto *t) -> int {
        using X = std::remove_pointer_t<decltype(t)>;
        static_cast<X *>(obj)->dealloc(p, sz);
        return 0;
    });
}
char *nd_buf(std::size_t space, void *obj) {
    return with_space(space, [&](auto *t) -> char * {
        using X = std::remove_pointer_t<decltype(t)>;
        return static_cast<X *>(obj)->buf();
    });
}

}  // namespace ndstat
