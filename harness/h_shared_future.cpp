// T-harness for cocls::shared_future (C17): real threads under the baton scheduler, one scheduling point after
// every interposed atomic operation of the unmodified headers. libstdc++'s shared_ptr counter is NOT interposed:
// copying / dropping a handle is part of the thread's current plain segment.
//
//   case <id> sf <T> <mode> [<arg>]      T = int | counted (instance counters; its move marks the source: a moved-from value prints `moved`) | void
//                                        mode = pf  shared_future(fn(promise))          -- promise handed to the resolver inside the constructor
//                                               ff  shared_future(fn -> future<T>)      -- fn returns a pending future
//                                               gp  shared_future(); get_promise()      -- late initialisation of a default-constructed object
//                                               ip  shared_future(); init_if_needed(); copies for the `h` threads; get_promise()
//                                               ls  shared_future(); init_if_needed(); operator<<(fn -> pending future)
//                                               sv <v> / se <c>   fn returns future<T>::set_value(v) / set_exception(c)  (what the static factories do)
//   t c <act>...                         thread 0: constructs the object (mode), hands one copy to every `h` thread, then runs its program
//   t h <act>...                         handle thread; act = copy | drop | peek | coro | sync | cb   (first await only; needs a handle)
//                                        spellings: sync = wait(); fwait = force_wait(); ssync = sync()+value(); fsync = force_sync()+value();
//                                        join = join()+value(); conv = operator Base&, then future::wait(); cpeek = peek through operator Base&
//   t r value <v> | exc <c> | drop | dtor   the resolver thread (promise called / promise destroyed)
//   sched <tid>...
//   end
//
// Every thread's handles are locals: they are dropped when its program ends. The step that releases the shared state
// (one make_shared block, found through the sanitizer's malloc/free hooks) prints `freed t<tid>`.
#include "shim/verif_shim.h"
#include "shim/rename_on.h"
#include <cocls/future.h>
#include <cocls/async.h>
#include <cocls/shared_future.h>
#include "shim/rename_off.h"
#include <sys/wait.h>

using namespace cocls;
using vshim::S;

struct test_exc : std::exception {
    static inline int live = 0;
    int code;
    explicit test_exc(int c) : code(c) { ++live; }
    test_exc(const test_exc &o) : code(o.code) { ++live; }
    ~test_exc() { --live; }
};

static std::vector<std::string> split(const std::string &s) {
    std::vector<std::string> o;
    std::istringstream is(s);
    std::string t;
    while (is >> t) o.push_back(t);
    return o;
}

struct counted {
    static inline int ctor = 0, dtor = 0;
    int v;
    counted(int x) : v(x) { ++ctor; }
    counted(const counted &o) : v(o.v) { ++ctor; }
    counted(counted &&o) : v(o.v) { ++ctor; o.v = -1; }   // move-sensitive: a moved-from value prints `moved`
    ~counted() { ++dtor; }
};
template <typename T> struct P;
template <> struct P<int> {
    static int make(int v) { return v; }
    static std::string show(int &v) { return "v:" + std::to_string(v); }
};
template <> struct P<counted> {
    static counted make(int v) { return counted(v); }
    static std::string show(counted &v) { return v.v < 0 ? std::string("moved") : "v:" + std::to_string(v.v); }
};

// ---- observing the life time of the shared state ------------------------------------------------------------
// The state is one make_shared block. The sanitizer's malloc/free hooks record the allocations made while the
// object is being constructed; afterwards the block that contains the state is known and the step that releases it
// prints `freed t<tid>` (no hook into the library, default Base).
extern "C" void __sanitizer_set_death_callback(void (*callback)(void));
extern "C" int __sanitizer_install_malloc_and_free_hooks(void (*malloc_hook)(const volatile void *, size_t),
                                                         void (*free_hook)(const volatile void *));
static struct { const volatile void *p; size_t n; } g_allocs[256];
static int g_nallocs = 0;
static bool g_recording = false;
static const volatile void *g_block = nullptr;
static int g_live = 0, g_frees = 0;
static thread_local int g_in_hook = 0;

// only the constructing thread (thread 0) records: other OS threads may still be starting up concurrently
static void on_malloc(const volatile void *p, size_t n) {
    if (!g_recording || g_in_hook || vshim::self_id != 0) return;
    if (g_nallocs < 256) g_allocs[g_nallocs++] = {p, n};
}
static void on_free(const volatile void *p) {
    if (g_in_hook) return;
    if (g_recording && vshim::self_id == 0) {
        for (int i = 0; i < g_nallocs; i++) if (g_allocs[i].p == p) g_allocs[i].p = nullptr;
    }
    if (p && p == g_block) {
        ++g_in_hook;
        --g_live;
        ++g_frees;
        g_block = nullptr;
        std::cout << "freed t" << vshim::self_id << "\n";
        --g_in_hook;
    }
}
static void track_state(const void *state) {
    g_recording = false;
    auto a = (const char *)state;
    for (int i = 0; i < g_nallocs; i++) {
        auto b = (const char *)g_allocs[i].p;
        if (b && b <= a && a < b + g_allocs[i].n) { g_block = g_allocs[i].p; g_live = 1; return; }
    }
    std::cout << "untracked-state\n";   // harness failure, never expected
}

template <typename T>
struct Scn {
    using SF = shared_future<T>;
    std::optional<promise<T>> prom;
    bool published = false, constructed = false;
    std::vector<std::vector<SF>> hs;
    std::vector<char> awaited;
    std::vector<std::vector<std::string>> threads;

    void log(const std::string &s) { S().log_line(s); }

    template <typename Fn>
    std::string observe(Fn &&fn) {
        try {
            if constexpr (std::is_void_v<T>) {
                fn();
                return "v";
            } else {
                auto &&r = fn();   // binds a reference (the shared value) or a value (a spelling that returns by value)
                return P<T>::show(r);
            }
        } catch (const await_canceled_exception &) {
            return "canceled";
        } catch (const test_exc &e) {
            return "exc:" + std::to_string(e.code);
        } catch (const value_not_ready_exception &) {
            return "notready";
        } catch (...) {
            return "other";
        }
    }
    void obs(int w, const char *how, const std::string &what) { log("obs t" + std::to_string(w) + " " + how + " " + what); }

    // co_await in a detached coroutine that owns its own copy of the handle
    async<void> coro_waiter(int w, SF sf) {
        std::string r;
        if constexpr (std::is_void_v<T>) {
            try { co_await sf; r = "v"; }
            catch (const await_canceled_exception &) { r = "canceled"; }
            catch (const test_exc &e) { r = "exc:" + std::to_string(e.code); }
            catch (const value_not_ready_exception &) { r = "notready"; }
        } else {
            try { auto &v = co_await sf; r = P<T>::show(v); }
            catch (const await_canceled_exception &) { r = "canceled"; }
            catch (const test_exc &e) { r = "exc:" + std::to_string(e.code); }
            catch (const value_not_ready_exception &) { r = "notready"; }
        }
        obs(w, "coro", r);
    }

    // callback awaiter; the context owns its own copy of the handle
    struct cb_ctx {
        Scn *self;
        int w;
        SF sf;
        co_awaiter<future<T>> awt;
        cb_ctx(Scn *s, int w_, const SF &h) : self(s), w(w_), sf(h), awt(sf.operator co_await()) {}
    };
    static suspend_point<void> cb_fn(awaiter *, void *ctx) noexcept {
        auto c = static_cast<cb_ctx *>(ctx);
        c->self->obs(c->w, "cb", c->self->observe([&]() -> decltype(auto) { return c->awt.await_resume(); }));
        delete c;
        return {};
    }

    void run_prog(int t, const std::vector<std::string> &prog) {
        auto &H = hs[t];
        for (std::size_t i = 2; i < prog.size(); i++) {
            const std::string &a = prog[i];
            if (H.empty()) continue;   // every action needs a handle
            if (a == "copy") H.push_back(H.back());
            else if (a == "drop") H.pop_back();
            else if (a == "peek") {
                if (H.back().ready()) obs(t, "peek", observe([&]() -> decltype(auto) { return H.back().value(); }));
            } else if (a == "cpeek") {
                // the same poll through `operator Base &` (the future itself)
                future<T> &f = H.back();
                if (f.ready()) obs(t, "peek", observe([&]() -> decltype(auto) { return f.value(); }));
            } else if (!awaited[t]) {
                awaited[t] = 1;
                if (a == "coro") coro_waiter(t, H.back()).detach();
                else if (a == "sync") obs(t, "sync", observe([&]() -> decltype(auto) { return H.back().wait(); }));
                // other spellings of the blocking observer (same atomic operations, the thread holds its handle meanwhile)
                else if (a == "fwait") obs(t, "sync", observe([&]() -> decltype(auto) { return H.back().force_wait(); }));
                else if (a == "ssync") obs(t, "sync", observe([&]() -> decltype(auto) { H.back().sync(); return H.back().value(); }));
                else if (a == "fsync") obs(t, "sync", observe([&]() -> decltype(auto) { H.back().force_sync(); return H.back().value(); }));
                else if (a == "join") {
                    // join() waits and throws what value() would throw; if it returns, the value is read afterwards
                    bool returned = false;
                    std::string r = observe([&]() -> decltype(auto) { H.back().join(); returned = true; return H.back().value(); });
                    bool is_value = r == "v" || r.rfind("v:", 0) == 0;
                    obs(t, "sync", returned == is_value ? r : "join-returned-but-" + r);
                }
                else if (a == "conv") obs(t, "sync", observe([&]() -> decltype(auto) { future<T> &f = H.back(); return f.wait(); }));
                else if (a == "cb") {
                    auto c = new cb_ctx(this, t, H.back());
                    if (c->awt.await_ready() || !c->awt.await_suspend(&cb_fn, c)) {
                        obs(t, "cb", observe([&]() -> decltype(auto) { return c->awt.await_resume(); }));
                        delete c;
                    }
                }
            }
        }
        H.clear();
    }

    void take(promise<T> &p) {
        S().name_obj(&p.VN_promise__owner, "tmp");
        S().name_obj(&p.VN_promise__owner.raw()->VN_future_common__awaiter, "slot");
        prom.emplace(std::move(p));
        S().name_obj(&prom->VN_promise__owner, "owner");
        published = true;
    }

    void creator(const std::string &mode, int arg) {
        std::optional<SF> sf;
        g_recording = true;
        if (mode == "pf") {
            sf.emplace([&](promise<T> p) { take(p); });
        } else if (mode == "ff") {
            sf.emplace([&] { return future<T>([&](promise<T> p) { take(p); }); });
        } else if (mode == "gp") {
            sf.emplace();
            std::string before = std::string("default ready=") + (sf->ready() ? "1" : "0") + " value=" +
                                 observe([&]() -> decltype(auto) { return sf->value(); });
            log(before);
            {
                auto p = sf->get_promise();
                take(p);
            }
        } else if (mode == "ip") {
            // the owner initialises the state first and hands out copies BEFORE get_promise(): those copies must share
            // the state that get_promise() initialises (they are only awaited once it is initialised: contract)
            sf.emplace();
            std::string before = std::string("default ready=") + (sf->ready() ? "1" : "0") + " value=" +
                                 observe([&]() -> decltype(auto) { return sf->value(); });
            log(before);
            sf->init_if_needed();
            track_state(sf->VN_shared_future__ptr.get());
            for (std::size_t i = 1; i < threads.size(); i++)
                if (threads[i][1] == "h") hs[i].push_back(*sf);
            {
                auto p = sf->get_promise();
                take(p);
            }
        } else if (mode == "ls") {
            sf.emplace();
            sf->init_if_needed();
            (*sf) << [&] { return future<T>([&](promise<T> p) { take(p); }); };
        } else if (mode == "sv") {
            if constexpr (std::is_void_v<T>) sf.emplace([&] { return future<T>::set_value(); });
            else sf.emplace([&] { return future<T>::set_value(P<T>::make(arg)); });
        } else {
            sf.emplace([&] { return future<T>::set_exception(std::make_exception_ptr(test_exc(arg))); });
        }
        S().name_obj(&sf->VN_shared_future__ptr->VN_future_common__awaiter, "slot");
        if (mode != "ip") {
            track_state(sf->VN_shared_future__ptr.get());
            for (std::size_t i = 1; i < threads.size(); i++)
                if (threads[i][1] == "h") hs[i].push_back(*sf);
        }
        hs[0].push_back(std::move(*sf));
        sf.reset();
        constructed = true;
        run_prog(0, threads[0]);
    }

    void handle_body(int t) {
        if (!constructed) {
            S().log_op("wait-block ctor");
            S().block([this] { return constructed; });
        }
        run_prog(t, threads[t]);
    }

    void resolver_body(const std::vector<std::string> &a, int tid) {
        if (!published) {
            S().log_op("wait-block promise");
            S().block([this] { return published; });
        }
        bool r = false;
        if (a[2] == "value") {
            int v = atoi(a[3].c_str());
            if constexpr (std::is_void_v<T>) { auto sp = (*prom)(); r = sp; }
            else { auto sp = (*prom)(P<T>::make(v)); r = sp; }
        } else if (a[2] == "exc") {
            auto sp = (*prom)(std::make_exception_ptr(test_exc(atoi(a[3].c_str()))));
            r = sp;
        } else if (a[2] == "drop") {
            auto sp = (*prom)(drop);
            r = sp;
        } else {
            prom.reset();
            return;
        }
        log("ret t" + std::to_string(tid) + " " + (r ? "1" : "0"));
    }

    // the static factories themselves (default Base), sequentially
    void factories(const std::string &mode, int arg) {
        if (mode == "sv") {
            if constexpr (std::is_void_v<T>) {
                auto f = shared_future<T>::set_value();
                auto g = f;
                log(std::string("factory ready=") + (g.ready() ? "1" : "0") + " " + observe([&]() -> decltype(auto) { return g.value(); }));
            } else {
                auto f = shared_future<T>::set_value(P<T>::make(arg));
                auto g = f;
                std::string a = observe([&]() -> decltype(auto) { return f.value(); });
                log(std::string("factory ready=") + (g.ready() ? "1" : "0") + " " + observe([&]() -> decltype(auto) { return g.value(); }) +
                    " same=" + (&f.value() == &g.value() && a == observe([&]() -> decltype(auto) { return g.wait(); }) ? "1" : "0"));
            }
        } else if (mode == "se") {
            auto f = shared_future<T>::set_exception(std::make_exception_ptr(test_exc(arg)));
            auto g = f;
            log(std::string("factory ready=") + (g.ready() ? "1" : "0") + " " + observe([&]() -> decltype(auto) { return g.value(); }));
        }
    }

    void run(const std::string &mode, int arg, const std::vector<int> &sched) {
        bool promise_mode = !(mode == "sv" || mode == "se");
        int nres = 0;
        for (auto &t : threads) nres += t[1] == "r";
        if (threads.empty() || threads[0][1] != "c" || nres != (promise_mode ? 1 : 0)) {
            log("malformed");
            return;
        }
        for (std::size_t i = 1; i < threads.size(); i++)
            if (threads[i][1] == "c") { log("malformed"); return; }
        factories(mode, arg);
        __sanitizer_install_malloc_and_free_hooks(on_malloc, on_free);
        if (mode == "sv" || mode == "se") log("factory-balance v=" + std::to_string(counted::ctor - counted::dtor) + " e=" + std::to_string(test_exc::live));
        S().name_ptr(&awaiter::instance, "inst");
        S().name_ptr(&awaiter::disabled, "ready");
        hs.resize(threads.size());
        awaited.assign(threads.size(), 0);
        for (std::size_t i = 0; i < threads.size(); i++) {
            int tid = (int)i;
            if (threads[i][1] == "c") S().spawn([this, mode, arg] { creator(mode, arg); });
            else if (threads[i][1] == "h") S().spawn([this, tid] { handle_body(tid); });
            else S().spawn([this, tid] { resolver_body(threads[tid], tid); });
        }
        bool ok = S().run(sched);
        if (!ok) {
            log("deadlock");
            log("end");
            std::cout.flush();
            _exit(0);
        }
        prom.reset();
        log("final live=" + std::to_string(g_live) + " frees=" + std::to_string(g_frees) + " vbal=" + std::to_string(counted::ctor - counted::dtor) +
            " ebal=" + std::to_string(test_exc::live));
    }
};

static void run_case(const std::vector<std::string> &hdr, const std::vector<std::vector<std::string>> &lines) {
    std::vector<std::vector<std::string>> threads;
    std::vector<int> sched;
    for (auto &w : lines) {
        if (w[0] == "t" && w.size() >= 2) threads.push_back(w);
        else if (w[0] == "sched") for (std::size_t i = 1; i < w.size(); i++) sched.push_back(atoi(w[i].c_str()));
    }
    std::string T = hdr.size() > 3 ? hdr[3] : "int";
    std::string mode = hdr.size() > 4 ? hdr[4] : "pf";
    int arg = hdr.size() > 5 ? atoi(hdr[5].c_str()) : 0;
    for (auto &t : threads) {
        bool bad = false;
        if (t[1] == "r") bad = t.size() < 3 || ((t[2] == "value" || t[2] == "exc") && t.size() < 4);
        else if (t[1] != "c" && t[1] != "h") bad = true;
        if (bad) { S().log_line("malformed"); S().log_line("end"); return; }
    }
    if (T == "int") { Scn<int> s; s.threads = threads; s.run(mode, arg, sched); }
    else if (T == "void") { Scn<void> s; s.threads = threads; s.run(mode, arg, sched); }
    else { Scn<counted> s; s.threads = threads; s.run(mode, arg, sched); }
    S().log_line("end");
}

int main() {
    std::string line;
    std::vector<std::string> hdr;
    std::vector<std::vector<std::string>> lines;
    while (std::getline(std::cin, line)) {
        auto w = split(line);
        if (w.empty()) continue;
        if (w[0] == "case") { hdr = w; lines.clear(); continue; }
        if (w[0] != "end") { lines.push_back(w); continue; }
        std::cout << "case " << hdr[1] << std::endl;
        pid_t pid = fork();
        if (pid == 0) {
            __sanitizer_set_death_callback(+[] { std::cout.flush(); });   // a crashing case keeps the lines printed before the crash
            alarm(20);
            run_case(hdr, lines);
            std::cout.flush();
            _exit(0);
        }
        int st = 0;
        waitpid(pid, &st, 0);
        if (!(WIFEXITED(st) && WEXITSTATUS(st) == 0)) {
            if (WIFEXITED(st) && WEXITSTATUS(st) == 3) { /* assertion already reported */ }
            else {
                std::cout << "crash " << (WIFSIGNALED(st) ? "signal " + std::to_string(WTERMSIG(st)) : "exit " + std::to_string(WEXITSTATUS(st))) << "\n";
                std::cout << "end" << std::endl;
            }
        }
    }
    return 0;
}
