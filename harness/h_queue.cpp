// S-harness for cocls::queue<int>, cocls::queue<void> and cocls::limited_queue<int> (C09, C10).
// Reads cases from stdin, prints one canonical line per operation (see lean/Drivers/C09.lean, C10.lean).
#include "common.h"
#include <cocls/queue.h>

using namespace cocls;
using vh::test_exc;

// unblock_pop is protected in limited_queue (protected base); reach it through a derived class
struct lq_t : limited_queue<int> {
    using limited_queue<int>::limited_queue;
    suspend_point<bool> upop(std::exception_ptr e) { return this->unblock_pop(e); }
};

template <typename Q, typename T, bool limited>
void run_case(std::istream &in, std::size_t limit) {
    std::unique_ptr<Q> q;
    if constexpr (limited) q.reset(new Q(limit)); else q.reset(new Q());
    vh::fut_set<T> pops("pop");
    vh::fut_set<void> pushes("push");
    std::vector<std::string> evs;
    std::string line;
    auto poll = [&] { pops.poll(evs); pushes.poll(evs); };
    while (std::getline(in, line)) {
        auto w = vh::split(line);
        if (w.empty()) continue;
        std::ostringstream head;
        if (w[0] == "end") {
            q.reset();
            poll();
            vh::emit("end", evs);
            return;
        } else if (w[0] == "push") {
            int v = w.size() > 1 ? atoi(w[1].c_str()) : 0;
            if constexpr (limited) {
                std::size_t id = pushes.add([&] { return q->push(v); });
                head << "push#" << id << " " << pushes.now(id);
            } else if constexpr (std::is_void_v<T>) {
                bool r = q->push();
                head << "push woke=" << r;
            } else {
                bool r = q->push(v);
                head << "push woke=" << r;
            }
        } else if (w[0] == "pop") {
            std::size_t id = pops.add([&] { return q->pop(); });
            head << "pop#" << id << " " << pops.now(id);
        } else if (w[0] == "upop") {
            int c = atoi(w[1].c_str());
            bool r;
            if constexpr (limited) r = q->upop(std::make_exception_ptr(test_exc(c)));
            else r = q->unblock_pop(std::make_exception_ptr(test_exc(c)));
            head << "upop " << r;
        } else if (w[0] == "upush") {
            int c = atoi(w[1].c_str());
            if constexpr (limited) {
                bool r = q->unblock_push(std::make_exception_ptr(test_exc(c)));
                head << "upush " << r;
            } else {
                head << "upush n/a";
            }
        } else if (w[0] == "size") {
            head << "size " << q->size();
        } else if (w[0] == "empty") {
            head << "empty " << q->empty();
        } else if (w[0] == "destroy") {
            q.reset();
            head << "destroy";
            poll();
            vh::emit(head.str(), evs);
            // swallow the rest of the case
            while (std::getline(in, line)) {
                auto w2 = vh::split(line);
                if (!w2.empty() && w2[0] == "end") break;
            }
            vh::emit("end", evs);
            return;
        } else {
            head << "bad-op";
        }
        poll();
        vh::emit(head.str(), evs);
    }
}

int main() {
    std::string line;
    while (std::getline(std::cin, line)) {
        auto w = vh::split(line);
        if (w.empty() || w[0] != "case") continue;
        std::cout << "case " << w[1] << "\n";
        const std::string &kind = w[2];
        if (kind == "q") run_case<queue<int>, int, false>(std::cin, 0);
        else if (kind == "vq") run_case<queue<void>, void, false>(std::cin, 0);
        else if (kind == "lq") run_case<lq_t, int, true>(std::cin, (std::size_t)atoi(w[3].c_str()));
        else std::cout << "bad-kind\n";
        std::cout.flush();
    }
    return 0;
}
