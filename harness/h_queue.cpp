// S-harness for cocls::queue<item_t>, cocls::queue<void> and cocls::limited_queue<item_t> (C09, C10).
// Reads cases from stdin, prints one canonical line per operation (see lean/Drivers/C09.lean, C10.lean).
// Kinds: `lq <limit> [nl|cp]` (C10 sequential, run_case; nl = Lock no_lock, cp = the copy-only item type citem_t; throwing items:
// `pushthrow`, `pushmv v g [n]`, `popthrow g [n]`, `cothrow g [n]`, `upushthrow c [g [n]]` - see ho_set), `q [nl|s1|w1|s1w1|w1m|vec]` / `vq [nl|w1]` (C09 sequential, run_qcase;
// the token selects the Queue / CoroQueue / Lock template arguments: s1 = Queue single_item_queue, w1 = CoroQueue
// single_item_queue, nl = primitives::no_lock (implied by s1/w1; w1m keeps std::mutex)),
// `sq` / `svq` / `slq <limit> [cp]` (C09 / C10 scheduled interleavings, run_sched), `mtq` / `mtv` (C09 threads, run_mtcase).
#include "common.h"
#include <atomic>
#include <cocls/queue.h>
#include <cocls/async.h>
#include <atomic>
#include <condition_variable>
#include <functional>
#include <mutex>
#include <thread>
#include <unistd.h>

using namespace cocls;
using vh::test_exc;

// The item type of every non-void queue in this harness: owns a heap resource (ASan sees a use after free, a double
// free or a leak of an item), can refuse to be constructed (negative value: `pushthrow`), and tracks its own
// lifetime - a destroyed or moved-from item that is delivered prints as v:-666.
struct item_error : std::exception {
    const char *what() const noexcept override { return "item_error"; }
};
// per thread: in the scheduled kinds every operation has its own thread, and only the hand-over done by the
// operation that armed it may throw
static thread_local bool g_throw_on_move = false;
// C10 (`lq` / `slq`): hand-over faults.  While armed with (g, n) the item constructions from another item (move or copy:
// "hand-overs") that the calling thread performs are counted, and the hand-overs number g .. g+n-1 throw - before anything
// is moved or copied.  Armed by the operation (`popthrow g [n]`, `cothrow g [n]`, `pushmv v g [n]`, `upushthrow c [g [n]]`)
// for the duration of the one call into the queue.
static thread_local int g_ho_count = 0, g_ho_from = 0, g_ho_n = 0;
inline void ho_set(int g, int n) { g_ho_count = 0; g_ho_from = g; g_ho_n = n; }
inline void ho_clear() { g_ho_count = 0; g_ho_from = 0; g_ho_n = 0; }
struct ho_arm {
    ho_arm(int g, int n) { ho_set(g, n); }
    ~ho_arm() { ho_clear(); }
};
inline void ho_check();
struct item_t {
    static constexpr int GOOD = 0x600D, DEAD = 0xDEAD;
    std::unique_ptr<int> res;
    int val;
    int magic;
    item_t(int v) : res(v < 0 ? throw item_error() : new int(v)), val(v), magic(GOOD) {}
    // the hand-over of an item (move construction) throws when armed (`popthrow`), before anything is moved
    static bool check_throw() { if (g_throw_on_move) { g_throw_on_move = false; throw item_error(); } ho_check(); return true; }
    item_t(item_t &&o) : res((check_throw(), std::move(o.res))), val(o.val), magic(o.magic) {}
    item_t &operator=(item_t &&o) noexcept { res = std::move(o.res); val = o.val; magic = o.magic; return *this; }
    item_t(const item_t &) = delete;
    item_t &operator=(const item_t &) = delete;
    ~item_t() {
        // volatile: the stores into the dying object must not be optimised away
        *(volatile int *)&magic = DEAD;
        *(volatile int *)&val = -666;
    }
    int get() const { return (magic == GOOD && res && *res == val) ? val : -666; }
};
inline std::ostream &operator<<(std::ostream &os, const item_t &it) { return os << it.get(); }
inline void ho_check() {
    if (g_ho_n > 0) {
        ++g_ho_count;
        if (g_ho_count >= g_ho_from && g_ho_count < g_ho_from + g_ho_n) throw item_error();
    }
}
// The copy-only item type (`lq <limit> cp`, `slq <limit> cp`): user-declared copy constructor, hence no move constructor -
// every std::move of the library copies, the source stays intact (a hand-over that throws leaves a live source behind, a
// "moved" pair still owns its item).  Deep copy of the heap resource; the copy of a dead item is dead (-666).
struct citem_t {
    static constexpr int GOOD = 0x600D, DEAD = 0xDEAD;
    std::unique_ptr<int> res;
    int val;
    int magic;
    citem_t(int v) : res(v < 0 ? throw item_error() : new int(v)), val(v), magic(GOOD) {}
    citem_t(const citem_t &o) : res((ho_check(), new int(o.get()))), val(o.get()), magic(GOOD) {}
    citem_t &operator=(const citem_t &o) { if (this != &o) { res.reset(new int(o.get())); val = o.get(); magic = GOOD; } return *this; }
    ~citem_t() {
        *(volatile int *)&magic = DEAD;
        *(volatile int *)&val = -666;
    }
    int get() const { return (magic == GOOD && res && *res == val) ? val : -666; }
};
inline std::ostream &operator<<(std::ostream &os, const citem_t &it) { return os << it.get(); }
// a push future of the bounded queue can be failed with the exception of its own item (the transfer into the queue threw)
inline std::string lq_push_outcome(future<void> &f) {
    if (!f.ready()) return "pending";
    try { f.value(); return "ok"; }
    catch (const item_error &) { return "itemerr"; }
    catch (...) { return vh::outcome(f); }
}

// The item type of kind `q vec`: a std::vector<int>, i.e. a type with an initializer_list constructor, filled through the
// emplace-style push(k, v) = k copies of v (`pushn k v`; `push v` is push(1, v)).  Printed as k*1000+v, -777 when it is
// anything else (e.g. the two elements {k, v} that T{k, v} makes).
struct vec_t : std::vector<int> {
    using std::vector<int>::vector;
    int get() const {
        if (empty() || front() < 0 || front() >= 1000) return -777;
        for (int x : *this) if (x != front()) return -777;
        return (int)size() * 1000 + front();
    }
};
inline std::ostream &operator<<(std::ostream &os, const vec_t &it) { return os << it.get(); }
template <typename T> inline constexpr bool is_vec_v = std::is_same_v<T, vec_t>;

// unblock_pop is protected in limited_queue (protected base); reach it through a derived class
template <typename T, typename L>
struct lq_any : limited_queue<T, primitives::std_queue, primitives::std_queue, primitives::std_queue, L> {
    using base = limited_queue<T, primitives::std_queue, primitives::std_queue, primitives::std_queue, L>;
    using base::base;
    suspend_point<bool> upop(std::exception_ptr e) { return this->unblock_pop(e); }
    // asked from another thread (see q_t::lock_is_free); primitives::no_lock: always free
    bool lock_is_free() {
        bool ok = false;
        std::thread t([&] {
            for (int i = 0; i < 5 && !ok; ++i)
                if (this->VN_queue__mx.try_lock()) { this->VN_queue__mx.unlock(); ok = true; }
        });
        t.join();
        return ok;
    }
};
using lq_t = lq_any<item_t, std::mutex>;
// limited_queue with primitives::no_lock (single-threaded use is the contract of no_lock)
using lq_nl_t = lq_any<item_t, primitives::no_lock>;
using lq_cp_t = lq_any<citem_t, std::mutex>;

// queue<T, Queue, CoroQueue, Lock> (any configuration) with a way to ask whether its lock is free
template <typename T, template <typename> class QS = primitives::std_queue,
          template <typename> class CS = primitives::std_queue, typename L = std::mutex>
struct q_t : queue<T, QS, CS, L> {
    // asked from another thread (try_lock on a mutex the caller owns would be undefined); retried because try_lock may
    // fail spuriously.  (primitives::no_lock: try_lock() is always true.)
    bool lock_is_free() {
        bool ok = false;
        std::thread t([&] {
            for (int i = 0; i < 5 && !ok; ++i)
                if (this->VN_queue__mx.try_lock()) { this->VN_queue__mx.unlock(); ok = true; }
        });
        t.join();
        return ok;
    }
};
// ---------------------------------------------------------------------------------------------
// C10 sequential: limited_queue<item_t | citem_t>.  Pops are future based (`pop`, `popthrow g [n]`) or issued by a coroutine
// that co_awaits the future (`cothrow g [n]`); pop and push ids are given in the order of the calls that returned a future.
// ---------------------------------------------------------------------------------------------
template <typename T>
struct lq_pop {
    std::unique_ptr<future<T>> f;   // future-based pop
    bool coro = false;              // issued by a coroutine
    bool done = false;              // coroutine pop: outcome recorded
    bool reported = false;
    std::string out;
};

// `cothrow g n`: a coroutine that calls pop() while the hand-overs g .. g+n-1 of that call throw, and co_awaits the future
template <typename Q, typename T>
async<void> lq_thrower(Q &q, std::deque<lq_pop<T>> &pops, int g, int n, std::shared_ptr<std::string> res) {
    std::size_t id = pops.size();
    pops.emplace_back();
    pops[id].coro = true;
    std::string out;
    try {
        ho_set(g, n);
        future<T> f = q.pop();          // throws here when the hand-over of the delivered item throws
        ho_clear();
        *res = "pop#" + std::to_string(id);
        T &v = co_await f;
        out = "v:" + std::to_string(v.get());
    } catch (const item_error &) {
        ho_clear();
        if (res->empty()) {
            pops.pop_back();
            *res = "threw";
            co_return;
        }
        out = "itemerr";
    } catch (const await_canceled_exception &) {
        out = "canceled";
    } catch (const test_exc &e) {
        out = "exc:" + std::to_string(e.code);
    } catch (...) {
        out = "other";
    }
    pops[id].out = out;
    pops[id].done = true;
}

template <typename Q, typename T, bool limited>
void run_case(std::istream &in, std::size_t limit) {
    static_assert(limited, "run_case drives limited_queue only");
    std::deque<lq_pop<T>> pops;         // outlives the queue: parked coroutines record `canceled` when it dies
    std::deque<std::pair<std::unique_ptr<future<void>>, bool>> pushes;   // (future, reported)
    std::unique_ptr<Q> q(new Q(limit));
    alarm(10);      // an operation that never returns (lock left locked) must not stall the whole check
    std::vector<std::string> evs;
    std::string line;
    auto poll = [&] {
        for (std::size_t i = 0; i < pops.size(); ++i) {
            auto &r = pops[i];
            if (r.reported) continue;
            if (r.coro ? r.done : r.f->ready()) {
                r.reported = true;
                evs.push_back("pop#" + std::to_string(i) + "=" + (r.coro ? r.out : vh::outcome(*r.f)));
            }
        }
        for (std::size_t i = 0; i < pushes.size(); ++i)
            if (!pushes[i].second && pushes[i].first->ready()) {
                pushes[i].second = true;
                evs.push_back("push#" + std::to_string(i) + "=" + lq_push_outcome(*pushes[i].first));
            }
    };
    auto pop_now = [&](std::size_t id) {
        auto &r = pops[id];
        std::string st = r.coro ? (r.done ? r.out : std::string("pending")) : vh::outcome(*r.f);
        if (st != "pending") r.reported = true;
        return st;
    };
    auto push_now = [&](std::size_t id) {
        std::string st = lq_push_outcome(*pushes[id].first);
        if (st != "pending") pushes[id].second = true;
        return st;
    };
    // after an operation threw: the lock must have been released during unwinding
    auto check_lock = [&](const std::string &head, const char *what) {
        if (!q->lock_is_free()) {
            std::cout << head << "\n";
            fflush(stdout);
            fprintf(stderr, "DEADLOCK: %s left the queue's lock locked when it threw\n", what);
            _exit(42);
        }
    };
    auto arg = [](const std::vector<std::string> &w, std::size_t i, int dflt) { return w.size() > i ? atoi(w[i].c_str()) : dflt; };
    while (std::getline(in, line)) {
        auto w = vh::split(line);
        if (w.empty()) continue;
        std::ostringstream head;
        if (w[0] == "end") {
            q.reset();
            poll();
            vh::emit("end", evs);
            alarm(0);
            return;
        } else if (w[0] == "push" || (w[0] == "pushmv" && w.size() > 2)) {
            // `pushmv v g [n]`: a push during which the hand-overs g .. g+n-1 of the item throw
            int v = arg(w, 1, 0);
            bool mv = w[0] == "pushmv";
            try {
                ho_arm a(mv ? arg(w, 2, 1) : 0, mv ? arg(w, 3, 1) : 0);
                std::unique_ptr<future<void>> f(new future<void>([&] { return q->push(v); }));
                pushes.emplace_back(std::move(f), false);
                std::size_t id = pushes.size() - 1;
                head << "push#" << id << " " << push_now(id);
            } catch (const item_error &) {
                head << "pushmv threw";
                check_lock(head.str(), "push()");
            }
        } else if (w[0] == "pushthrow") {
            // an item that refuses to be constructed: push() throws, no future; a waiting pop whose promise it had taken
            // completes as canceled
            try {
                std::unique_ptr<future<void>> f(new future<void>([&] { return q->push(-1); }));
                pushes.emplace_back(std::move(f), false);
                std::size_t id = pushes.size() - 1;
                head << "pushthrow nothrow push#" << id << " " << push_now(id);
            } catch (const item_error &) {
                head << "pushthrow threw";
                check_lock(head.str(), "push()");
            }
        } else if (w[0] == "pop" || w[0] == "popthrow") {
            // `popthrow g [n]`: a pop() during which the hand-overs g .. g+n-1 throw
            bool th = w[0] == "popthrow";
            std::size_t id = pops.size();
            pops.emplace_back();
            try {
                ho_arm a(th ? arg(w, 1, 1) : 0, th ? arg(w, 2, 1) : 0);
                pops[id].f.reset(new future<T>([&] { return q->pop(); }));
                head << "pop#" << id << " " << pop_now(id);
            } catch (const item_error &) {
                pops.pop_back();
                head << "popthrow threw";
                check_lock(head.str(), "pop()");
            }
        } else if (w[0] == "cothrow") {
            auto res = std::make_shared<std::string>();
            lq_thrower<Q, T>(*q, pops, arg(w, 1, 1), arg(w, 2, 1), res).detach();
            if (*res == "threw") {
                head << "cothrow threw";
                check_lock(head.str(), "pop()");
            } else {
                std::size_t id = (std::size_t)atoi(res->c_str() + 4);
                head << *res << " " << pop_now(id);
            }
        } else if (w[0] == "upop") {
            int c = arg(w, 1, 0);
            bool r = q->upop(std::make_exception_ptr(test_exc(c)));
            head << "upop " << r;
        } else if (w[0] == "upush" || w[0] == "upushthrow") {
            // `upushthrow c [g [n]]`: unblock_push during which the hand-overs g .. g+n-1 throw
            int c = arg(w, 1, 0);
            bool th = w[0] == "upushthrow";
            try {
                ho_arm a(th ? arg(w, 2, 1) : 0, th ? arg(w, 3, 1) : 0);
                bool r = q->unblock_push(std::make_exception_ptr(test_exc(c)));
                head << "upush " << r;
            } catch (const item_error &) {
                head << "upushthrow threw";
                check_lock(head.str(), "unblock_push()");
            }
        } else if (w[0] == "size") {
            head << "size " << q->size();
        } else if (w[0] == "empty") {
            head << "empty " << q->empty();
        } else if (w[0] == "destroy") {
            q.reset();
            head << "destroy";
            poll();
            vh::emit(head.str(), evs);
            // swallow the rest of the case
            while (std::getline(in, line)) {
                auto w2 = vh::split(line);
                if (!w2.empty() && w2[0] == "end") break;
            }
            vh::emit("end", evs);
            alarm(0);
            return;
        } else {
            head << "bad-op";
        }
        poll();
        vh::emit(head.str(), evs);
    }
    alarm(0);
}

// ---------------------------------------------------------------------------------------------
// C09: cocls::queue<int> / cocls::queue<void> with future-based pops (`pop`) and coroutine
// consumers (`cons n`: a detached coroutine that co_awaits pop() up to n times, one after the
// other, and stops at the first exception; `cbcons n`: the same loop written as a callback).  Pop ids are global, in the order of the pop() calls.
// ---------------------------------------------------------------------------------------------
template <typename Q, typename T>
struct qcase {
    struct rec {
        std::unique_ptr<future<T>> f;   // future-based pop
        bool coro = false;              // issued by a consumer coroutine
        bool done = false;              // coroutine pop: outcome recorded
        std::string out;
        bool issue_reported = false;
        bool reported = false;
    };
    std::unique_ptr<Q> q;
    std::deque<rec> pops;

    void poll(std::vector<std::string> &evs) {
        for (std::size_t i = 0; i < pops.size(); ++i) {
            rec &r = pops[i];
            if (r.reported) continue;
            if (r.coro) {
                if (r.done) {
                    r.reported = r.issue_reported = true;
                    evs.push_back("pop#" + std::to_string(i) + "=" + r.out);
                } else if (!r.issue_reported) {
                    r.issue_reported = true;
                    evs.push_back("pop#" + std::to_string(i) + "+");
                }
            } else if (r.f->ready()) {
                r.reported = true;
                evs.push_back("pop#" + std::to_string(i) + "=" + vh::outcome(*r.f));
            }
        }
    }
};

template <typename Q, typename T>
async<void> consumer(qcase<Q, T> &c, int n) {
    for (int k = 0; k < n; ++k) {
        std::size_t id = c.pops.size();
        c.pops.emplace_back();
        c.pops[id].coro = true;
        std::string out;
        bool stop = false;
        try {
            if constexpr (std::is_void_v<T>) {
                co_await c.q->pop();
                out = "ok";
            } else {
                // the future (and the item in it) must outlive the use of the reference co_await returns
                future<T> f = c.q->pop();
                T &v = co_await f;
                out = "v:" + std::to_string(v.get());
            }
        } catch (const await_canceled_exception &) {
            out = "canceled"; stop = true;
        } catch (const test_exc &e) {
            out = "exc:" + std::to_string(e.code); stop = true;
        } catch (const std::runtime_error &) {
            // bounded CoroQueue (single_item_queue) is full: pop() threw, no future came into existence
            c.pops.pop_back();
            break;
        } catch (...) {
            out = "other"; stop = true;
        }
        c.pops[id].out = out;
        c.pops[id].done = true;
        if (stop) break;    // in particular: never touch the queue again after it was destroyed
    }
}

// `cothrow`: a coroutine that calls pop() while the hand-over of the item throws, and would co_await the future
template <typename Q, typename T>
async<void> thrower(qcase<Q, T> &c, std::shared_ptr<std::string> res) {
    if constexpr (!std::is_void_v<T> && !is_vec_v<T>) {
        std::size_t id = c.pops.size();
        c.pops.emplace_back();
        c.pops[id].coro = true;
        std::string out;
        try {
            g_throw_on_move = true;
            future<T> f = c.q->pop();       // throws here when an item is handed over
            g_throw_on_move = false;
            T &v = co_await f;
            out = "v:" + std::to_string(v.get());
        } catch (const item_error &) {
            g_throw_on_move = false;
            c.pops.pop_back();
            *res = "threw";
            co_return;
        } catch (const std::runtime_error &) {
            g_throw_on_move = false;
            c.pops.pop_back();
            *res = "full";
            co_return;
        } catch (const await_canceled_exception &) {
            out = "canceled";
        } catch (const test_exc &e) {
            out = "exc:" + std::to_string(e.code);
        } catch (...) {
            out = "other";
        }
        c.pops[id].out = out;
        c.pops[id].done = true;
    }
    co_return;
}

// callback consumer (`cbcons n`): no coroutine; an awaiter with a resume function is subscribed to the pop future and
// the callback - which runs *inside* the resolving call (push / unblock_pop / ~queue) - records the outcome and calls
// pop() again (after a value) or empty() (after unblock_pop): re-entrant use, legal because the queue resolves
// promises outside its lock.
template <typename Q, typename T>
struct cb_consumer {
    qcase<Q, T> &c;
    int left;
    std::size_t cur = 0;
    std::unique_ptr<future<T>> fut;
    std::vector<std::unique_ptr<future<T>>> old;    // resolved futures are kept until the end of the case
    awaiter awt;
    cb_consumer(qcase<Q, T> &c_, int n) : c(c_), left(n), awt(&cb_consumer::wake, this) {}
    static suspend_point<void> wake(awaiter *, void *ctx) noexcept {
        static_cast<cb_consumer *>(ctx)->on_ready();
        return {};
    }
    bool record() {
        std::string o = vh::outcome(*fut);
        c.pops[cur].out = o;
        c.pops[cur].done = true;
        bool value = o == "ok" || o.rfind("v:", 0) == 0;
        if ((value || o.rfind("exc:", 0) == 0) && in_callback && !c.q->lock_is_free()) {
            // re-entering now would block for ever on the lock the resolving call still holds: say so at once
            fflush(stdout);
            fprintf(stderr, "DEADLOCK: the queue resolved a promise while holding its lock; a callback that calls back "
                            "into the queue (pop / empty) can never return\n");
            _exit(42);
        }
        if (o.rfind("exc:", 0) == 0) (void)c.q->empty();     // the queue is alive: look at it from inside the callback
        return value;
    }
    void issue() {
        while (left > 0) {
            --left;
            cur = c.pops.size();
            c.pops.emplace_back();
            c.pops[cur].coro = true;
            if (fut) old.push_back(std::move(fut));
            try {
                fut.reset(new future<T>([&] { return c.q->pop(); }));
            } catch (const std::runtime_error &) {
                c.pops.pop_back();      // bounded CoroQueue is full: pop() threw, no future
                left = 0;
                return;
            }
            if (fut->subscribe(&awt)) return;       // parked: wake() continues
            if (!record()) return;
        }
    }
    bool in_callback = false;
    void on_ready() { in_callback = true; bool v = record(); if (v) issue(); in_callback = false; }
};

template <typename Q, typename T>
void run_qcase(std::istream &in) {
    qcase<Q, T> c;
    std::vector<std::unique_ptr<cb_consumer<Q, T>>> cbs;   // destroyed before c (declared after it)
    c.q.reset(new Q());
    alarm(5);       // a re-entrant deadlock shows as a hang: die instead (reported as a crash, rc = -SIGALRM)
    std::vector<std::string> evs;
    std::string line;
    auto swallow = [&] {
        while (std::getline(in, line)) {
            auto w2 = vh::split(line);
            if (!w2.empty() && w2[0] == "end") break;
        }
    };
    while (std::getline(in, line)) {
        auto w = vh::split(line);
        if (w.empty()) continue;
        std::ostringstream head;
        if (w[0] == "end") {
            c.q.reset();
            c.poll(evs);
            vh::emit("end", evs);
            alarm(0);
            return;
        } else if (w[0] == "push") {
            try {
                bool r;
                if constexpr (std::is_void_v<T>) {
                    r = c.q->push();
                } else if constexpr (is_vec_v<T>) {
                    int v = w.size() > 1 ? atoi(w[1].c_str()) : 0;
                    r = c.q->push(1, v);
                } else {
                    int v = w.size() > 1 ? atoi(w[1].c_str()) : 0;
                    r = c.q->push(v);
                }
                head << "push woke=" << r;
            } catch (const std::runtime_error &) {
                head << "push full";    // bounded Queue (single_item_queue) refused the item
            }
        } else if (w[0] == "pushn" && w.size() > 2) {
            // emplace-style push with constructor arguments: push(k, v) must make the item T(k, v) = k copies of v
            // whether it is stored in the queue or handed to a waiting pop
            if constexpr (is_vec_v<T>) {
                bool r = c.q->push(atoi(w[1].c_str()), atoi(w[2].c_str()));
                head << "push woke=" << r;
            } else {
                head << "bad-op";
            }
        } else if (w[0] == "pushthrow") {
            // an item whose constructor throws: push() throws; a waiting pop whose promise it had taken completes as
            // canceled (the promise layer resolves the future without a value before the exception propagates)
            if constexpr (std::is_void_v<T> || is_vec_v<T>) {
                head << "pushthrow n/a";
            } else {
                try {
                    bool r = c.q->push(-1);
                    head << "pushthrow nothrow woke=" << r;
                } catch (const item_error &) {
                    head << "pushthrow threw";
                } catch (const std::runtime_error &) {
                    head << "pushthrow full";
                }
                if (!c.q->lock_is_free()) {
                    // every later operation would block for ever: say so now instead of waiting for the alarm
                    std::cout << head.str() << "\n";
                    fflush(stdout);
                    fprintf(stderr, "DEADLOCK: push() left the queue's lock locked when the item's constructor threw\n");
                    _exit(42);
                }
            }
        } else if (w[0] == "pop") {
            std::size_t id = c.pops.size();
            c.pops.emplace_back();
            try {
                c.pops[id].f.reset(new future<T>([&] { return c.q->pop(); }));
                std::string st = vh::outcome(*c.pops[id].f);
                if (st != "pending") c.pops[id].reported = true;
                head << "pop#" << id << " " << st;
            } catch (const std::runtime_error &) {
                c.pops.pop_back();      // bounded CoroQueue refused the promise: no future, no id
                head << "pop full";
            }
        } else if (w[0] == "popthrow" || w[0] == "cothrow") {
            // a pop() during which the hand-over of the item (its move construction into the future) throws: pop() throws
            // to its caller (`popthrow`: plain call, as for .wait(); `cothrow`: from a coroutine that would co_await it),
            // and the item must still be there for the next pop.  On an empty queue nothing is handed over.
            if constexpr (std::is_void_v<T> || is_vec_v<T>) {
                head << w[0] << " n/a";
            } else if (w[0] == "popthrow") {
                std::size_t id = c.pops.size();
                c.pops.emplace_back();
                try {
                    g_throw_on_move = true;
                    c.pops[id].f.reset(new future<T>([&] { return c.q->pop(); }));
                    g_throw_on_move = false;
                    std::string st = vh::outcome(*c.pops[id].f);
                    if (st != "pending") c.pops[id].reported = true;
                    head << "pop#" << id << " " << st;
                } catch (const item_error &) {
                    g_throw_on_move = false;
                    c.pops.pop_back();
                    head << "popthrow threw";
                } catch (const std::runtime_error &) {
                    g_throw_on_move = false;
                    c.pops.pop_back();
                    head << "pop full";
                }
            } else {
                auto res = std::make_shared<std::string>();
                thrower<Q, T>(c, res).detach();
                head << "cothrow" << (res->empty() ? "" : " " + *res);
            }
            if constexpr (!std::is_void_v<T> && !is_vec_v<T>) {
                if (!c.q->lock_is_free()) {
                    std::cout << head.str() << "\n";
                    fflush(stdout);
                    fprintf(stderr, "DEADLOCK: pop() left the queue's lock locked when the hand-over of the item threw\n");
                    _exit(42);
                }
            }
        } else if (w[0] == "cons" && w.size() > 1) {
            int n = atoi(w[1].c_str());
            consumer<Q, T>(c, n).detach();     // the discarded suspend_point starts the coroutine right here
            head << "cons";
        } else if (w[0] == "cbcons" && w.size() > 1) {
            int n = atoi(w[1].c_str());
            cbs.emplace_back(new cb_consumer<Q, T>(c, n));
            cbs.back()->issue();
            head << "cbcons";
        } else if (w[0] == "upop" && w.size() > 1) {
            int code = atoi(w[1].c_str());
            bool r = c.q->unblock_pop(std::make_exception_ptr(test_exc(code)));
            head << "upop " << r;
        } else if (w[0] == "size") {
            head << "size " << c.q->size();
        } else if (w[0] == "empty") {
            head << "empty " << c.q->empty();
        } else if (w[0] == "destroy") {
            c.q.reset();
            c.poll(evs);
            vh::emit("destroy", evs);
            swallow();
            vh::emit("end", evs);
            alarm(0);
            return;
        } else {
            head << "bad-op";
        }
        c.poll(evs);
        vh::emit(head.str(), evs);
    }
    alarm(0);
}

// ---------------------------------------------------------------------------------------------
// C09 thread suite: P producer threads x N items, C consumer threads blocking in pop().wait().
// Only aggregated, schedule-independent facts are printed.
//   mode 0: every consumer pops a fixed quota;  mode 1: consumers pop until they are failed by
//   unblock_pop (the main thread unblocks after all producers are done).
// ---------------------------------------------------------------------------------------------
struct mt_rng {
    unsigned long long s;
    explicit mt_rng(unsigned long long seed) : s(seed * 6364136223846793005ULL + 1442695040888963407ULL) {}
    unsigned next() { s = s * 6364136223846793005ULL + 1442695040888963407ULL; return (unsigned)(s >> 33); }
    // busy-wait a random number of iterations below `max` (keeps the queue hovering around empty or full)
    void spin(unsigned max) {
        volatile unsigned sink = 0;
        for (unsigned n = next() % max; n > 0; --n) sink = sink + n;
        if (next() % 32 == 0) std::this_thread::yield();
    }
};

template <typename T>
std::string run_mt(int P, int C, int N, int mode, unsigned seed) {
    using Q = queue<T>;
    const long long total = (long long)P * N;
    // pacing: 0 balanced, 1 slow producers (consumers mostly park), 2 slow consumers (items mostly queue up)
    const unsigned pace = seed % 3;
    const unsigned pspin = pace == 1 ? 600 * P : 16, cspin = pace == 2 ? 600 * C : 16;
    auto q = std::make_unique<Q>();
    std::vector<std::vector<int>> got(C);
    std::vector<long long> okcnt(C, 0);
    std::vector<int> excs(C, 0), bad(C, 0);
    std::atomic<int> exited{0};
    std::atomic<bool> stop_mon{false};
    std::atomic<int> go{0};
    std::atomic<long long> mon_bad{0};
    std::vector<std::thread> prod, cons;
    auto wait_go = [&] { go.fetch_add(1); while (go.load() < P + C) std::this_thread::yield(); };
    for (int j = 0; j < C; ++j) {
        cons.emplace_back([&, j] {
            mt_rng r(seed * 131 + 7 * j + 1);
            long long quota = total / C + (j == 0 ? total % C : 0);
            wait_go();
            for (long long k = 0; mode == 1 || k < quota; ++k) {
                try {
                    if constexpr (std::is_void_v<T>) {
                        q->pop().wait();
                        ++okcnt[j];
                    } else {
                        int v = q->pop().wait();
                        got[j].push_back(v);
                        ++okcnt[j];
                    }
                } catch (const test_exc &e) {
                    if (e.code == 7 && mode == 1) ++excs[j]; else ++bad[j];
                    break;
                } catch (...) {
                    ++bad[j];
                    break;
                }
                r.spin(cspin);
            }
            exited.fetch_add(1);
        });
    }
    for (int p = 0; p < P; ++p) {
        prod.emplace_back([&, p] {
            mt_rng r(seed * 977 + 13 * p + 5);
            wait_go();
            for (int k = 0; k < N; ++k) {
                if constexpr (std::is_void_v<T>) q->push(); else q->push(p * 1000000 + k);
                r.spin(pspin);
            }
        });
    }
    std::thread mon([&] {
        while (!stop_mon.load()) {
            std::size_t s = q->size();
            bool e = q->empty();
            (void)e;
            if ((long long)s > total) mon_bad.fetch_add(1);
            std::this_thread::yield();
        }
    });
    for (auto &t : prod) t.join();
    int unblocked = 0;
    if (mode == 1) {
        while (exited.load() < C) {
            bool r = q->unblock_pop(std::make_exception_ptr(test_exc(7)));
            if (r) ++unblocked; else std::this_thread::yield();
        }
    }
    for (auto &t : cons) t.join();
    stop_mon.store(true);
    mon.join();
    long long received = 0, dup = 0, unknown = 0, missing = 0, order_bad = 0, nexc = 0, nbad = 0;
    for (int j = 0; j < C; ++j) { received += okcnt[j]; nexc += excs[j]; nbad += bad[j]; }
    if constexpr (!std::is_void_v<T>) {
        std::vector<int> seen((std::size_t)total, 0);
        for (int j = 0; j < C; ++j) {
            std::vector<int> last(P, -1);
            std::vector<char> badp(P, 0);
            for (int v : got[j]) {
                int p = v / 1000000, k = v % 1000000;
                if (v < 0 || p >= P || k >= N) { ++unknown; continue; }
                ++seen[(std::size_t)p * N + k];
                if (k <= last[p]) badp[p] = 1;
                last[p] = k;
            }
            for (int p = 0; p < P; ++p) order_bad += badp[p];
        }
        for (auto n : seen) { if (n == 0) ++missing; if (n > 1) dup += n - 1; }
    }
    std::size_t left = q->size();
    bool empty = q->empty();
    q.reset();
    std::ostringstream os;
    os << "run total=" << total << " received=" << received << " dup=" << dup << " unknown=" << unknown
       << " missing=" << missing << " order_bad=" << order_bad << " unblocked=" << unblocked << " exc=" << nexc
       << " bad=" << nbad << " left=" << left << " empty=" << empty << " mon_bad=" << mon_bad.load();
    return os.str();
}

void run_mtcase(std::istream &in, bool is_void, const std::vector<std::string> &hdr) {
    int P = hdr.size() > 3 ? atoi(hdr[3].c_str()) : 1;
    int C = hdr.size() > 4 ? atoi(hdr[4].c_str()) : 1;
    int N = hdr.size() > 5 ? atoi(hdr[5].c_str()) : 1;
    int mode = hdr.size() > 6 ? atoi(hdr[6].c_str()) : 0;
    unsigned seed = hdr.size() > 7 ? (unsigned)atoi(hdr[7].c_str()) : 1;
    P = std::max(1, std::min(P, 8)); C = std::max(1, std::min(C, 8)); N = std::max(1, std::min(N, 100000));
    std::string line;
    std::vector<std::string> evs;
    while (std::getline(in, line)) {
        auto w = vh::split(line);
        if (w.empty()) continue;
        if (w[0] == "end") { vh::emit("end", evs); return; }
        if (w[0] == "run") {
            // a lost item / lost wake-up shows as a hang: die instead (reported as a crash, rc = -SIGALRM)
            alarm(12 + (unsigned)((long long)P * N / 5000));
            std::string r = is_void ? run_mt<void>(P, C, N, mode, seed) : run_mt<int>(P, C, N, mode, seed);
            alarm(0);
            vh::emit(r, evs);
        } else {
            vh::emit("bad-op", evs);
        }
    }
}

// ---------------------------------------------------------------------------------------------
// Scheduled suites (C09: `sq` / `svq`, C10: `slq <limit>`): deterministic interleavings on the real
// headers without any source hook.  The queue is instantiated with a Lock (template parameter of
// cocls::queue / limited_queue) that is a scheduling point; every operation of the input runs on its
// own thread and exactly one thread runs at any time (baton), so every run is deterministic.
//
// An operation leaves the baton to the reader of the input ("parks") at these points:
//  paused   after a lock region that moved a promise out of `_awaiters` / `_blocked` (push handing over,
//           unblock_pop, limited pop admitting a blocked push, unblock_push): the out-of-lock resolution is
//           performed when the input says `deliver k` - the `Op.deliver k` step of the Lean models;
//  holding  `hold <op>`: right after its first lock() succeeded, i.e. *inside* its lock region, owning the lock;
//  blocked  in front of a lock() while another operation is holding the lock (a try_lock() fails instead);
//  midcall  in front of any second lock() of the same operation: the correct code never locks twice, an
//           implementation that splits a lock region does, and the following input lines run in that window.
// `deliver k` resumes the k-th parked operation (in the order in which they parked); a blocked operation
// cannot be resumed while the lock is held (`deliver held`).  A lock() that finds the lock owned although no
// operation is holding it (an earlier operation left without unlocking) can never return: the harness
// says so on stderr and exits with status 42.
// Every line shows the number of lock regions the operation entered since its previous line (`r=`).
// ---------------------------------------------------------------------------------------------
struct sched {
    struct opt {
        std::thread th;
        int state = 0;          // 0 running, 1 paused, 2 finished, 3 midcall, 4 holding, 5 blocked
        bool go = false;
        bool hold = false;      // park inside the first lock region
        int regions = 0;        // lock regions entered so far
        int shown = 0;          // ... of which already printed
        std::string label;      // `push#3` | `pop#1` | `upop` | `size` ...
        std::function<std::string()> status;    // what the finished call returned
    };
    std::mutex m;
    std::condition_variable cv;
    std::deque<std::unique_ptr<opt>> parked;    // in the order in which they parked
    opt *holder = nullptr;      // the operation that is parked while owning the queue's lock
    bool owned = false;         // the queue's lock is owned by somebody
};
static sched *g_sched = nullptr;
static thread_local sched::opt *tl_op = nullptr;
// sizes of the containers of parked promises (`_awaiters`, `_blocked`): a lock region that made one of them
// shorter moved a promise out and will resolve it after unlocking
static std::function<std::pair<std::size_t, std::size_t>()> g_counts;

struct sched_lock {
    std::mutex mx;
    std::pair<std::size_t, std::size_t> before{0, 0};
    static void park(int st) {
        std::unique_lock lk(g_sched->m);
        tl_op->state = st;
        g_sched->cv.notify_all();
        g_sched->cv.wait(lk, [&] { return tl_op->go; });
        tl_op->go = false;
        tl_op->state = 0;
    }
    void enter() {
        if (g_sched) g_sched->owned = true;
        if (tl_op) ++tl_op->regions;
        before = g_counts ? g_counts() : std::pair<std::size_t, std::size_t>{0, 0};
    }
    void lock() {
        if (tl_op && g_sched) {
            // an operation that comes back for a second lock region: anything may happen in between
            if (tl_op->regions > 0) park(3);
            while (g_sched->holder) { tl_op->hold = false; park(5); }
            if (g_sched->owned) {
                fprintf(stderr, "DEADLOCK: `%s` waits for the queue's lock, which an earlier operation left locked "
                                "(no running operation owns it)\n", tl_op->label.c_str());
                fflush(stdout);
                _exit(42);
            }
        }
        mx.lock();
        enter();
        if (tl_op && g_sched && tl_op->hold) {
            tl_op->hold = false;
            g_sched->holder = tl_op;
            park(4);
        }
    }
    bool try_lock() {
        if (g_sched && (g_sched->holder || g_sched->owned)) return false;
        if (!mx.try_lock()) return false;
        enter();
        return true;
    }
    void unlock() {
        bool taken = false;
        if (g_counts) { auto now = g_counts(); taken = now.first < before.first || now.second < before.second; }
        if (g_sched) {
            g_sched->owned = false;
            if (g_sched->holder == tl_op) g_sched->holder = nullptr;
        }
        mx.unlock();
        if (taken && tl_op && g_sched) park(1);
    }
};

// --- the three queues behind one interface -------------------------------------------------------
template <typename T>
struct sq_adapter {
    using item = T;
    static constexpr bool limited = false;
    struct Q : queue<T, primitives::std_queue, primitives::std_queue, sched_lock> {
        std::size_t nawait() const { return this->VN_queue__awaiters.size(); }
        std::size_t nblocked() const { return 0; }
        suspend_point<bool> upop(std::exception_ptr e) { return this->unblock_pop(e); }
    };
    static Q *make(std::size_t) { return new Q(); }
};
template <typename T>
struct slq_adapter {
    using item = T;
    static constexpr bool limited = true;
    using base = limited_queue<T, primitives::std_queue, primitives::std_queue, primitives::std_queue, sched_lock>;
    struct Q : base {
        using base::base;
        std::size_t nawait() const { return this->VN_queue__awaiters.size(); }
        std::size_t nblocked() const { return this->VN_limited_queue__blocked.size(); }
        suspend_point<bool> upop(std::exception_ptr e) { return this->unblock_pop(e); }
    };
    static Q *make(std::size_t limit) { return new Q(limit); }
};

// `cothrow g n` in the scheduled kind: the pop is issued by a coroutine on the operation's thread; when it parks, the
// coroutine is resumed by the thread that resolves the future (inside its `deliver`)
template <typename Q, typename T, typename Rec>
async<void> slq_thrower(Q &q, Rec *r, int g, int n, std::shared_ptr<bool> threw) {
    std::string out;
    bool got = false;
    try {
        ho_set(g, n);
        future<T> f = q.pop();
        ho_clear();
        got = true;
        T &v = co_await f;
        out = "v:" + std::to_string(v.get());
    } catch (const item_error &) {
        ho_clear();
        if (!got) { *threw = true; co_return; }
        out = "itemerr";
    } catch (const await_canceled_exception &) {
        out = "canceled";
    } catch (const test_exc &e) {
        out = "exc:" + std::to_string(e.code);
    } catch (...) {
        out = "other";
    }
    r->out = out;
    r->done = true;
}

template <typename A>
void run_sched(std::istream &in, std::size_t limit) {
    using T = typename A::item;
    using Q = typename A::Q;
    sched sc;
    g_sched = &sc;
    alarm(10);      // never expected to fire; a hang must not stall the whole check
    std::unique_ptr<Q> q(A::make(limit));
    g_counts = [&] { return std::pair<std::size_t, std::size_t>{q->nawait(), q->nblocked()}; };
    struct prec { std::unique_ptr<future<T>> f; bool reported = false; bool coro = false, done = false; std::string out; };
    struct urec { std::unique_ptr<future<void>> f; bool reported = false; };
    std::deque<prec> pops;
    std::deque<urec> pushes;        // limited queue only: push returns a future
    std::vector<std::string> evs;
    std::string line;
    auto poll = [&] {
        for (std::size_t i = 0; i < pops.size(); ++i)
            if (!pops[i].reported && (pops[i].coro ? pops[i].done : (pops[i].f && pops[i].f->ready()))) {
                pops[i].reported = true;
                evs.push_back("pop#" + std::to_string(i) + "=" + (pops[i].coro ? pops[i].out : vh::outcome(*pops[i].f)));
            }
        for (std::size_t i = 0; i < pushes.size(); ++i)
            if (!pushes[i].reported && pushes[i].f && pushes[i].f->ready()) {
                pushes[i].reported = true;
                evs.push_back("push#" + std::to_string(i) + "=" + lq_push_outcome(*pushes[i].f));
            }
    };
    auto regions = [&](sched::opt *o) { int d = o->regions - o->shown; o->shown = o->regions; return d; };
    static const char *parked_name[] = {"", "paused", "", "midcall", "holding", "blocked"};
    // wait until the op's thread finished or parked; finished ops are joined, parked ones queued
    auto settle = [&](std::unique_ptr<sched::opt> o, std::ostringstream &head, bool first, bool quiet) {
        sched::opt *op = o.get();
        {
            std::unique_lock lk(sc.m);
            sc.cv.wait(lk, [&] { return op->state != 0; });
        }
        int st = op->state;
        if (st == 2) op->th.join();
        if (!quiet) {
            std::string what = st == 2 ? op->status() : parked_name[st];
            int r = regions(op);
            if (first) head << op->label << " " << what << " r=" << r;
            else head << "deliver r=" << r << " ret=" << op->label << ":" << what;
        }
        if (st != 2) sc.parked.push_back(std::move(o));
    };
    auto run_op = [&](bool hold, std::string label, std::function<void()> fn, std::function<std::string()> status,
                      std::ostringstream &head) {
        auto o = std::make_unique<sched::opt>();
        sched::opt *op = o.get();
        op->hold = hold;
        op->label = std::move(label);
        op->status = std::move(status);
        op->th = std::thread([&sc, op, fn] {
            tl_op = op;
            fn();
            std::unique_lock lk(sc.m);
            op->state = 2;
            sc.cv.notify_all();
        });
        settle(std::move(o), head, true, false);
    };
    auto can_resume = [&](std::size_t k) { return !(sc.parked[k]->state == 5 && sc.holder != nullptr); };
    auto resume_op = [&](std::size_t k, std::ostringstream &head, bool quiet) {
        std::unique_ptr<sched::opt> o = std::move(sc.parked[k]);
        sc.parked.erase(sc.parked.begin() + (std::ptrdiff_t)k);
        {
            std::unique_lock lk(sc.m);
            o->state = 0;
            o->go = true;
            sc.cv.notify_all();
        }
        settle(std::move(o), head, false, quiet);
    };
    // destroy / end: every parked call finishes first (always the first one that can proceed), then the queue dies
    auto shutdown = [&](const char *what) {
        while (!sc.parked.empty()) {
            std::size_t k = 0;
            while (k < sc.parked.size() && !can_resume(k)) ++k;
            if (k == sc.parked.size()) break;       // cannot happen: the holder itself can always proceed
            std::ostringstream dummy;
            resume_op(k, dummy, true);
        }
        g_counts = nullptr;
        q.reset();
        poll();
        vh::emit(what, evs);
    };
    auto bool_status = [](std::shared_ptr<bool> r) { return [r] { return std::string(*r ? "1" : "0"); }; };
    while (std::getline(in, line)) {
        auto w = vh::split(line);
        if (w.empty()) continue;
        std::ostringstream head;
        bool hold = false;
        if (w[0] == "hold" && w.size() > 1) {
            hold = true;
            w.erase(w.begin());
        }
        if (w[0] == "end") {
            shutdown("end");
            break;
        } else if (w[0] == "destroy") {
            shutdown("destroy");
            while (std::getline(in, line)) {
                auto w2 = vh::split(line);
                if (!w2.empty() && w2[0] == "end") break;
            }
            vh::emit("end", evs);
            break;
        } else if (w[0] == "push" && !std::is_void_v<T> && w.size() < 2) {
            head << "bad-op";
        } else if (w[0] == "push" || (w[0] == "pushmv" && A::limited && w.size() > 2)) {
            int v = w.size() > 1 ? atoi(w[1].c_str()) : 0;
            (void)v;
            if constexpr (A::limited) {
                // `pushmv v g [n]`: the hand-overs g .. g+n-1 of this call throw; the push id is used up either way
                bool mv = w[0] == "pushmv";
                int g = mv ? atoi(w[2].c_str()) : 0, n = mv ? (w.size() > 3 ? atoi(w[3].c_str()) : 1) : 0;
                std::size_t id = pushes.size();
                pushes.emplace_back();
                urec *r = &pushes[id];
                auto threw = std::make_shared<bool>(false);
                run_op(hold, "push#" + std::to_string(id),
                       [&q, r, v, g, n, threw] {
                           ho_arm a(g, n);
                           try { r->f.reset(new future<void>([&] { return q->push(v); })); }
                           catch (const item_error &) { *threw = true; }
                       },
                       [r, threw]() -> std::string {
                           if (*threw) return "threw";
                           auto st = lq_push_outcome(*r->f); if (st != "pending") r->reported = true; return st;
                       }, head);
            } else {
                auto res = std::make_shared<bool>(false);
                run_op(hold, "push", [&q, res, v] {
                    if constexpr (std::is_void_v<T>) *res = q->push(); else *res = q->push(v);
                }, bool_status(res), head);
            }
        } else if (w[0] == "pushthrow") {
            if constexpr (std::is_void_v<T>) {
                head << "bad-op";
            } else if constexpr (A::limited) {
                // no push id: the call never returns a future
                auto res = std::make_shared<std::string>("nothrow");
                run_op(hold, "pushthrow", [&q, res] {
                    try { future<void> f([&] { return q->push(-1); }); (void)f.ready(); } catch (const item_error &) { *res = "threw"; }
                }, [res] { return *res; }, head);
            } else {
                auto res = std::make_shared<std::string>("nothrow");
                run_op(hold, "pushthrow", [&q, res] {
                    try { (void)(bool)q->push(-1); } catch (const item_error &) { *res = "threw"; }
                }, [res] { return *res; }, head);
            }
        } else if (w[0] == "pop") {
            std::size_t id = pops.size();
            pops.emplace_back();
            prec *r = &pops[id];
            run_op(hold, "pop#" + std::to_string(id),
                   [&q, r] { r->f.reset(new future<T>([&] { return q->pop(); })); },
                   [r] { auto st = vh::outcome(*r->f); if (st != "pending") r->reported = true; return st; }, head);
        } else if (w[0] == "popthrow") {
            if constexpr (std::is_void_v<T>) {
                head << "bad-op";
            } else {
                // the pop id is used up whether or not the call throws (ids are given when the line is read)
                // C09 (`sq`): the next hand-over throws; C10 (`slq`): `popthrow g [n]`, the hand-overs g .. g+n-1 of the call
                int g = A::limited ? (w.size() > 1 ? atoi(w[1].c_str()) : 1) : 0;
                int n = A::limited ? (w.size() > 2 ? atoi(w[2].c_str()) : 1) : 0;
                std::size_t id = pops.size();
                pops.emplace_back();
                prec *r = &pops[id];
                auto threw = std::make_shared<bool>(false);
                run_op(hold, "pop#" + std::to_string(id),
                       [&q, r, threw, g, n] {
                           try {
                               if (A::limited) ho_set(g, n); else g_throw_on_move = true;
                               r->f.reset(new future<T>([&] { return q->pop(); }));
                           } catch (const item_error &) { *threw = true; }
                           g_throw_on_move = false;
                           ho_clear();
                       },
                       [r, threw]() -> std::string {
                           if (*threw) return "threw";
                           auto st = vh::outcome(*r->f); if (st != "pending") r->reported = true; return st;
                       }, head);
            }
        } else if (w[0] == "cothrow" && A::limited) {
            if constexpr (A::limited) {
                int g = w.size() > 1 ? atoi(w[1].c_str()) : 1, n = w.size() > 2 ? atoi(w[2].c_str()) : 1;
                std::size_t id = pops.size();
                pops.emplace_back();
                prec *r = &pops[id];
                r->coro = true;
                auto threw = std::make_shared<bool>(false);
                run_op(hold, "pop#" + std::to_string(id),
                       [&q, r, threw, g, n] { slq_thrower<Q, T, prec>(*q, r, g, n, threw).detach(); },
                       [r, threw]() -> std::string {
                           if (*threw) return "threw";
                           if (!r->done) return "pending";
                           r->reported = true;
                           return r->out;
                       }, head);
            }
        } else if ((w[0] == "upush" || w[0] == "upushthrow") && w.size() > 1 && A::limited) {
            if constexpr (A::limited) {
                // `upushthrow c [g [n]]`: unblock_push during which the hand-overs g .. g+n-1 throw
                int code = atoi(w[1].c_str());
                bool th = w[0] == "upushthrow";
                int g = th ? (w.size() > 2 ? atoi(w[2].c_str()) : 1) : 0, n = th ? (w.size() > 3 ? atoi(w[3].c_str()) : 1) : 0;
                auto res = std::make_shared<std::string>("0");
                run_op(hold, "upush", [&q, res, code, g, n] {
                    ho_arm a(g, n);
                    try { *res = q->unblock_push(std::make_exception_ptr(test_exc(code))) ? "1" : "0"; }
                    catch (const item_error &) { *res = "threw"; }
                }, [res] { return *res; }, head);
            }
        } else if (w[0] == "upop" && w.size() > 1) {
            int code = atoi(w[1].c_str());
            auto res = std::make_shared<bool>(false);
            run_op(hold, "upop", [&q, res, code] { *res = q->upop(std::make_exception_ptr(test_exc(code))); },
                   bool_status(res), head);
        } else if (w[0] == "size") {
            auto res = std::make_shared<std::size_t>(0);
            run_op(hold, "size", [&q, res] { *res = q->size(); }, [res] { return std::to_string(*res); }, head);
        } else if (w[0] == "empty") {
            auto res = std::make_shared<bool>(false);
            run_op(hold, "empty", [&q, res] { *res = q->empty(); }, bool_status(res), head);
        } else if (w[0] == "deliver" && w.size() > 1 && !hold) {
            std::size_t k = (std::size_t)atoi(w[1].c_str());
            if (k >= sc.parked.size()) head << "deliver none";
            else if (!can_resume(k)) head << "deliver held";
            else resume_op(k, head, false);
        } else {
            head << "bad-op";
        }
        poll();
        vh::emit(head.str(), evs);
    }
    g_sched = nullptr;
    alarm(0);
}

int main() {
    std::string line;
    while (std::getline(std::cin, line)) {
        auto w = vh::split(line);
        if (w.empty() || w[0] != "case") continue;
        std::cout << "case " << w[1] << "\n";
        const std::string &kind = w[2];
        using primitives::std_queue;
        using primitives::single_item_queue;
        using primitives::no_lock;
        const std::string cfg = w.size() > 3 ? w[3] : "";
        if (kind == "q" && cfg == "vec") run_qcase<q_t<vec_t>, vec_t>(std::cin);
        else if (kind == "q" && cfg == "nl") run_qcase<q_t<item_t, std_queue, std_queue, no_lock>, item_t>(std::cin);
        else if (kind == "q" && cfg == "s1") run_qcase<q_t<item_t, single_item_queue, std_queue, no_lock>, item_t>(std::cin);
        else if (kind == "q" && cfg == "w1") run_qcase<q_t<item_t, std_queue, single_item_queue, no_lock>, item_t>(std::cin);
        else if (kind == "q" && cfg == "s1w1") run_qcase<q_t<item_t, single_item_queue, single_item_queue, no_lock>, item_t>(std::cin);
        else if (kind == "q" && cfg == "w1m") run_qcase<q_t<item_t, std_queue, single_item_queue, std::mutex>, item_t>(std::cin);
        else if (kind == "vq" && cfg == "nl") run_qcase<q_t<void, std_queue, std_queue, no_lock>, void>(std::cin);
        else if (kind == "vq" && cfg == "w1") run_qcase<q_t<void, std_queue, single_item_queue, no_lock>, void>(std::cin);
        else if (kind == "lq" && w.size() > 4 && w[4] == "nl") run_case<lq_nl_t, item_t, true>(std::cin, (std::size_t)atoi(w[3].c_str()));
        else if (kind == "lq" && w.size() > 4 && w[4] == "cp") run_case<lq_cp_t, citem_t, true>(std::cin, (std::size_t)atoi(w[3].c_str()));
        else if (kind == "q") run_qcase<q_t<item_t>, item_t>(std::cin);
        else if (kind == "vq") run_qcase<q_t<void>, void>(std::cin);
        else if (kind == "sq") run_sched<sq_adapter<item_t>>(std::cin, 0);
        else if (kind == "svq") run_sched<sq_adapter<void>>(std::cin, 0);
        else if (kind == "mtq") run_mtcase(std::cin, false, w);
        else if (kind == "mtv") run_mtcase(std::cin, true, w);
        else if (kind == "lq") run_case<lq_t, item_t, true>(std::cin, (std::size_t)atoi(w[3].c_str()));
        else if (kind == "slq" && w.size() > 4 && w[4] == "cp") run_sched<slq_adapter<citem_t>>(std::cin, (std::size_t)atoi(w[3].c_str()));
        else if (kind == "slq") run_sched<slq_adapter<item_t>>(std::cin, w.size() > 3 ? (std::size_t)atoi(w[3].c_str()) : 1);
        else std::cout << "bad-kind\n";
        std::cout.flush();
    }
    return 0;
}
