// S-harness for cocls::queue<int>, cocls::queue<void> and cocls::limited_queue<int> (C09, C10).
// Reads cases from stdin, prints one canonical line per operation (see lean/Drivers/C09.lean, C10.lean).
// Kinds: `lq <limit>` (C10, run_case), `slq <limit>` (C10 scheduled interleavings, run_slqcase), `q` / `vq` (C09 sequential, run_qcase),
// `sq` / `svq` (C09 scheduled interleavings, run_sqcase), `mtq` / `mtv` (C09 threads, run_mtcase).
#include "common.h"
#include <cocls/queue.h>
#include <cocls/async.h>
#include <atomic>
#include <condition_variable>
#include <functional>
#include <mutex>
#include <thread>
#include <unistd.h>

using namespace cocls;
using vh::test_exc;

// unblock_pop is protected in limited_queue (protected base); reach it through a derived class
struct lq_t : limited_queue<int> {
    using limited_queue<int>::limited_queue;
    suspend_point<bool> upop(std::exception_ptr e) { return this->unblock_pop(e); }
};

template <typename Q, typename T, bool limited>
void run_case(std::istream &in, std::size_t limit) {
    std::unique_ptr<Q> q;
    if constexpr (limited) q.reset(new Q(limit)); else q.reset(new Q());
    vh::fut_set<T> pops("pop");
    vh::fut_set<void> pushes("push");
    std::vector<std::string> evs;
    std::string line;
    auto poll = [&] { pops.poll(evs); pushes.poll(evs); };
    while (std::getline(in, line)) {
        auto w = vh::split(line);
        if (w.empty()) continue;
        std::ostringstream head;
        if (w[0] == "end") {
            q.reset();
            poll();
            vh::emit("end", evs);
            return;
        } else if (w[0] == "push") {
            int v = w.size() > 1 ? atoi(w[1].c_str()) : 0;
            if constexpr (limited) {
                std::size_t id = pushes.add([&] { return q->push(v); });
                head << "push#" << id << " " << pushes.now(id);
            } else if constexpr (std::is_void_v<T>) {
                bool r = q->push();
                head << "push woke=" << r;
            } else {
                bool r = q->push(v);
                head << "push woke=" << r;
            }
        } else if (w[0] == "pop") {
            std::size_t id = pops.add([&] { return q->pop(); });
            head << "pop#" << id << " " << pops.now(id);
        } else if (w[0] == "upop") {
            int c = atoi(w[1].c_str());
            bool r;
            if constexpr (limited) r = q->upop(std::make_exception_ptr(test_exc(c)));
            else r = q->unblock_pop(std::make_exception_ptr(test_exc(c)));
            head << "upop " << r;
        } else if (w[0] == "upush") {
            int c = atoi(w[1].c_str());
            if constexpr (limited) {
                bool r = q->unblock_push(std::make_exception_ptr(test_exc(c)));
                head << "upush " << r;
            } else {
                head << "upush n/a";
            }
        } else if (w[0] == "size") {
            head << "size " << q->size();
        } else if (w[0] == "empty") {
            head << "empty " << q->empty();
        } else if (w[0] == "destroy") {
            q.reset();
            head << "destroy";
            poll();
            vh::emit(head.str(), evs);
            // swallow the rest of the case
            while (std::getline(in, line)) {
                auto w2 = vh::split(line);
                if (!w2.empty() && w2[0] == "end") break;
            }
            vh::emit("end", evs);
            return;
        } else {
            head << "bad-op";
        }
        poll();
        vh::emit(head.str(), evs);
    }
}

// ---------------------------------------------------------------------------------------------
// C09: cocls::queue<int> / cocls::queue<void> with future-based pops (`pop`) and coroutine
// consumers (`cons n`: a detached coroutine that co_awaits pop() up to n times, one after the
// other, and stops at the first exception; `cbcons n`: the same loop written as a callback).  Pop ids are global, in the order of the pop() calls.
// ---------------------------------------------------------------------------------------------
template <typename Q, typename T>
struct qcase {
    struct rec {
        std::unique_ptr<future<T>> f;   // future-based pop
        bool coro = false;              // issued by a consumer coroutine
        bool done = false;              // coroutine pop: outcome recorded
        std::string out;
        bool issue_reported = false;
        bool reported = false;
    };
    std::unique_ptr<Q> q;
    std::deque<rec> pops;

    void poll(std::vector<std::string> &evs) {
        for (std::size_t i = 0; i < pops.size(); ++i) {
            rec &r = pops[i];
            if (r.reported) continue;
            if (r.coro) {
                if (r.done) {
                    r.reported = r.issue_reported = true;
                    evs.push_back("pop#" + std::to_string(i) + "=" + r.out);
                } else if (!r.issue_reported) {
                    r.issue_reported = true;
                    evs.push_back("pop#" + std::to_string(i) + "+");
                }
            } else if (r.f->ready()) {
                r.reported = true;
                evs.push_back("pop#" + std::to_string(i) + "=" + vh::outcome(*r.f));
            }
        }
    }
};

template <typename Q, typename T>
async<void> consumer(qcase<Q, T> &c, int n) {
    for (int k = 0; k < n; ++k) {
        std::size_t id = c.pops.size();
        c.pops.emplace_back();
        c.pops[id].coro = true;
        std::string out;
        bool stop = false;
        try {
            if constexpr (std::is_void_v<T>) {
                co_await c.q->pop();
                out = "ok";
            } else {
                int v = co_await c.q->pop();
                out = "v:" + std::to_string(v);
            }
        } catch (const await_canceled_exception &) {
            out = "canceled"; stop = true;
        } catch (const test_exc &e) {
            out = "exc:" + std::to_string(e.code); stop = true;
        } catch (...) {
            out = "other"; stop = true;
        }
        c.pops[id].out = out;
        c.pops[id].done = true;
        if (stop) break;    // in particular: never touch the queue again after it was destroyed
    }
}

// callback consumer (`cbcons n`): no coroutine; an awaiter with a resume function is subscribed to the pop future and
// the callback - which runs *inside* the resolving call (push / unblock_pop / ~queue) - records the outcome and calls
// pop() again (after a value) or empty() (after unblock_pop): re-entrant use, legal because the queue resolves
// promises outside its lock.
template <typename Q, typename T>
struct cb_consumer {
    qcase<Q, T> &c;
    int left;
    std::size_t cur = 0;
    std::unique_ptr<future<T>> fut;
    std::vector<std::unique_ptr<future<T>>> old;    // resolved futures are kept until the end of the case
    awaiter awt;
    cb_consumer(qcase<Q, T> &c_, int n) : c(c_), left(n), awt(&cb_consumer::wake, this) {}
    static suspend_point<void> wake(awaiter *, void *ctx) noexcept {
        static_cast<cb_consumer *>(ctx)->on_ready();
        return {};
    }
    bool record() {
        std::string o = vh::outcome(*fut);
        c.pops[cur].out = o;
        c.pops[cur].done = true;
        if (o.rfind("exc:", 0) == 0) (void)c.q->empty();     // the queue is alive: look at it from inside the callback
        return o == "ok" || o.rfind("v:", 0) == 0;
    }
    void issue() {
        while (left > 0) {
            --left;
            cur = c.pops.size();
            c.pops.emplace_back();
            c.pops[cur].coro = true;
            if (fut) old.push_back(std::move(fut));
            fut.reset(new future<T>([&] { return c.q->pop(); }));
            if (fut->subscribe(&awt)) return;       // parked: wake() continues
            if (!record()) return;
        }
    }
    void on_ready() { if (record()) issue(); }
};

template <typename Q, typename T>
void run_qcase(std::istream &in) {
    qcase<Q, T> c;
    std::vector<std::unique_ptr<cb_consumer<Q, T>>> cbs;   // destroyed before c (declared after it)
    c.q.reset(new Q());
    alarm(5);       // a re-entrant deadlock shows as a hang: die instead (reported as a crash, rc = -SIGALRM)
    std::vector<std::string> evs;
    std::string line;
    auto swallow = [&] {
        while (std::getline(in, line)) {
            auto w2 = vh::split(line);
            if (!w2.empty() && w2[0] == "end") break;
        }
    };
    while (std::getline(in, line)) {
        auto w = vh::split(line);
        if (w.empty()) continue;
        std::ostringstream head;
        if (w[0] == "end") {
            c.q.reset();
            c.poll(evs);
            vh::emit("end", evs);
            alarm(0);
            return;
        } else if (w[0] == "push") {
            bool r;
            if constexpr (std::is_void_v<T>) {
                r = c.q->push();
            } else {
                int v = w.size() > 1 ? atoi(w[1].c_str()) : 0;
                r = c.q->push(v);
            }
            head << "push woke=" << r;
        } else if (w[0] == "pop") {
            std::size_t id = c.pops.size();
            c.pops.emplace_back();
            c.pops[id].f.reset(new future<T>([&] { return c.q->pop(); }));
            std::string st = vh::outcome(*c.pops[id].f);
            if (st != "pending") c.pops[id].reported = true;
            head << "pop#" << id << " " << st;
        } else if (w[0] == "cons" && w.size() > 1) {
            int n = atoi(w[1].c_str());
            consumer<Q, T>(c, n).detach();     // the discarded suspend_point starts the coroutine right here
            head << "cons";
        } else if (w[0] == "cbcons" && w.size() > 1) {
            int n = atoi(w[1].c_str());
            cbs.emplace_back(new cb_consumer<Q, T>(c, n));
            cbs.back()->issue();
            head << "cbcons";
        } else if (w[0] == "upop" && w.size() > 1) {
            int code = atoi(w[1].c_str());
            bool r = c.q->unblock_pop(std::make_exception_ptr(test_exc(code)));
            head << "upop " << r;
        } else if (w[0] == "size") {
            head << "size " << c.q->size();
        } else if (w[0] == "empty") {
            head << "empty " << c.q->empty();
        } else if (w[0] == "destroy") {
            c.q.reset();
            c.poll(evs);
            vh::emit("destroy", evs);
            swallow();
            vh::emit("end", evs);
            alarm(0);
            return;
        } else {
            head << "bad-op";
        }
        c.poll(evs);
        vh::emit(head.str(), evs);
    }
    alarm(0);
}

// ---------------------------------------------------------------------------------------------
// C09 thread suite: P producer threads x N items, C consumer threads blocking in pop().wait().
// Only aggregated, schedule-independent facts are printed.
//   mode 0: every consumer pops a fixed quota;  mode 1: consumers pop until they are failed by
//   unblock_pop (the main thread unblocks after all producers are done).
// ---------------------------------------------------------------------------------------------
struct mt_rng {
    unsigned long long s;
    explicit mt_rng(unsigned long long seed) : s(seed * 6364136223846793005ULL + 1442695040888963407ULL) {}
    unsigned next() { s = s * 6364136223846793005ULL + 1442695040888963407ULL; return (unsigned)(s >> 33); }
    // busy-wait a random number of iterations below `max` (keeps the queue hovering around empty or full)
    void spin(unsigned max) {
        volatile unsigned sink = 0;
        for (unsigned n = next() % max; n > 0; --n) sink = sink + n;
        if (next() % 32 == 0) std::this_thread::yield();
    }
};

template <typename T>
std::string run_mt(int P, int C, int N, int mode, unsigned seed) {
    using Q = queue<T>;
    const long long total = (long long)P * N;
    // pacing: 0 balanced, 1 slow producers (consumers mostly park), 2 slow consumers (items mostly queue up)
    const unsigned pace = seed % 3;
    const unsigned pspin = pace == 1 ? 600 * P : 16, cspin = pace == 2 ? 600 * C : 16;
    auto q = std::make_unique<Q>();
    std::vector<std::vector<int>> got(C);
    std::vector<long long> okcnt(C, 0);
    std::vector<int> excs(C, 0), bad(C, 0);
    std::atomic<int> exited{0};
    std::atomic<bool> stop_mon{false};
    std::atomic<int> go{0};
    std::atomic<long long> mon_bad{0};
    std::vector<std::thread> prod, cons;
    auto wait_go = [&] { go.fetch_add(1); while (go.load() < P + C) std::this_thread::yield(); };
    for (int j = 0; j < C; ++j) {
        cons.emplace_back([&, j] {
            mt_rng r(seed * 131 + 7 * j + 1);
            long long quota = total / C + (j == 0 ? total % C : 0);
            wait_go();
            for (long long k = 0; mode == 1 || k < quota; ++k) {
                try {
                    if constexpr (std::is_void_v<T>) {
                        q->pop().wait();
                        ++okcnt[j];
                    } else {
                        int v = q->pop().wait();
                        got[j].push_back(v);
                        ++okcnt[j];
                    }
                } catch (const test_exc &e) {
                    if (e.code == 7 && mode == 1) ++excs[j]; else ++bad[j];
                    break;
                } catch (...) {
                    ++bad[j];
                    break;
                }
                r.spin(cspin);
            }
            exited.fetch_add(1);
        });
    }
    for (int p = 0; p < P; ++p) {
        prod.emplace_back([&, p] {
            mt_rng r(seed * 977 + 13 * p + 5);
            wait_go();
            for (int k = 0; k < N; ++k) {
                if constexpr (std::is_void_v<T>) q->push(); else q->push(p * 1000000 + k);
                r.spin(pspin);
            }
        });
    }
    std::thread mon([&] {
        while (!stop_mon.load()) {
            std::size_t s = q->size();
            bool e = q->empty();
            (void)e;
            if ((long long)s > total) mon_bad.fetch_add(1);
            std::this_thread::yield();
        }
    });
    for (auto &t : prod) t.join();
    int unblocked = 0;
    if (mode == 1) {
        while (exited.load() < C) {
            bool r = q->unblock_pop(std::make_exception_ptr(test_exc(7)));
            if (r) ++unblocked; else std::this_thread::yield();
        }
    }
    for (auto &t : cons) t.join();
    stop_mon.store(true);
    mon.join();
    long long received = 0, dup = 0, unknown = 0, missing = 0, order_bad = 0, nexc = 0, nbad = 0;
    for (int j = 0; j < C; ++j) { received += okcnt[j]; nexc += excs[j]; nbad += bad[j]; }
    if constexpr (!std::is_void_v<T>) {
        std::vector<int> seen((std::size_t)total, 0);
        for (int j = 0; j < C; ++j) {
            std::vector<int> last(P, -1);
            std::vector<char> badp(P, 0);
            for (int v : got[j]) {
                int p = v / 1000000, k = v % 1000000;
                if (v < 0 || p >= P || k >= N) { ++unknown; continue; }
                ++seen[(std::size_t)p * N + k];
                if (k <= last[p]) badp[p] = 1;
                last[p] = k;
            }
            for (int p = 0; p < P; ++p) order_bad += badp[p];
        }
        for (auto n : seen) { if (n == 0) ++missing; if (n > 1) dup += n - 1; }
    }
    std::size_t left = q->size();
    bool empty = q->empty();
    q.reset();
    std::ostringstream os;
    os << "run total=" << total << " received=" << received << " dup=" << dup << " unknown=" << unknown
       << " missing=" << missing << " order_bad=" << order_bad << " unblocked=" << unblocked << " exc=" << nexc
       << " bad=" << nbad << " left=" << left << " empty=" << empty << " mon_bad=" << mon_bad.load();
    return os.str();
}

void run_mtcase(std::istream &in, bool is_void, const std::vector<std::string> &hdr) {
    int P = hdr.size() > 3 ? atoi(hdr[3].c_str()) : 1;
    int C = hdr.size() > 4 ? atoi(hdr[4].c_str()) : 1;
    int N = hdr.size() > 5 ? atoi(hdr[5].c_str()) : 1;
    int mode = hdr.size() > 6 ? atoi(hdr[6].c_str()) : 0;
    unsigned seed = hdr.size() > 7 ? (unsigned)atoi(hdr[7].c_str()) : 1;
    P = std::max(1, std::min(P, 8)); C = std::max(1, std::min(C, 8)); N = std::max(1, std::min(N, 100000));
    std::string line;
    std::vector<std::string> evs;
    while (std::getline(in, line)) {
        auto w = vh::split(line);
        if (w.empty()) continue;
        if (w[0] == "end") { vh::emit("end", evs); return; }
        if (w[0] == "run") {
            // a lost item / lost wake-up shows as a hang: die instead (reported as a crash, rc = -SIGALRM)
            alarm(12 + (unsigned)((long long)P * N / 5000));
            std::string r = is_void ? run_mt<void>(P, C, N, mode, seed) : run_mt<int>(P, C, N, mode, seed);
            alarm(0);
            vh::emit(r, evs);
        } else {
            vh::emit("bad-op", evs);
        }
    }
}

// ---------------------------------------------------------------------------------------------
// C09 scheduled suite (`sq` / `svq`): every operation runs on its own thread; the queue is
// instantiated with a Lock (template parameter of cocls::queue) whose unlock() parks the calling
// operation when its lock region moved a promise out of `_awaiters` (push handing over, unblock_pop).
// The out-of-lock resolution then happens when the input says `deliver k` - exactly the `deliver`
// step of the Lean model - so lock regions of other operations can be interleaved in between.
// Only one thread runs at any time (baton), so every run is deterministic.
// ---------------------------------------------------------------------------------------------
struct sched {
    struct opt {
        std::thread th;
        int state = 0;          // 0 running, 1 parked after a lock region that left work to do outside the lock,
                                // 2 finished, 3 parked in front of a second lock() of the same operation (slq only)
        bool go = false;
        bool result = false;
        bool is_push = false;
        // slq bookkeeping
        int regions = 0;        // lock regions entered so far
        int shown = 0;          // ... of which already printed
        int kind = 0;           // 0 push, 1 pop, 2 upush, 3 upop, 4 size, 5 empty
        std::size_t id = 0;     // future id (push / pop)
        std::size_t num = 0;    // result of size()
    };
    std::mutex m;
    std::condition_variable cv;
    std::deque<std::unique_ptr<opt>> paused;    // in the order in which they parked
    bool park_relock = false;   // slq: an operation that locks a second time parks in front of that lock()
};
static sched *g_sched = nullptr;
static thread_local sched::opt *tl_op = nullptr;
// sizes of the containers of parked promises (`_awaiters`, `_blocked`): a lock region that made one of them
// shorter moved a promise out and will resolve it after unlocking
static std::function<std::pair<std::size_t, std::size_t>()> g_counts;

struct sched_lock {
    std::mutex mx;
    std::pair<std::size_t, std::size_t> before{0, 0};
    static void park(int st) {
        std::unique_lock lk(g_sched->m);
        tl_op->state = st;
        g_sched->cv.notify_all();
        g_sched->cv.wait(lk, [&] { return tl_op->go; });
        tl_op->go = false;
        tl_op->state = 0;
    }
    void enter() {
        if (tl_op) ++tl_op->regions;
        before = g_counts ? g_counts() : std::pair<std::size_t, std::size_t>{0, 0};
    }
    void lock() {
        // an operation that comes back for a second lock region: anything may happen in between
        if (tl_op && g_sched && g_sched->park_relock && tl_op->regions > 0) park(3);
        mx.lock();
        enter();
    }
    bool try_lock() { if (!mx.try_lock()) return false; enter(); return true; }
    void unlock() {
        bool taken = false;
        if (g_counts) { auto now = g_counts(); taken = now.first < before.first || now.second < before.second; }
        mx.unlock();
        if (taken && tl_op && g_sched) park(1);
    }
};

template <typename T>
struct sq_t : queue<T, primitives::std_queue, primitives::std_queue, sched_lock> {
    std::size_t nawait() const { return this->_awaiters.size(); }
};

template <typename T>
void run_sqcase(std::istream &in) {
    using Q = sq_t<T>;
    sched sc;
    g_sched = &sc;
    alarm(15);      // never expected to fire; a hang must not stall the whole check
    std::unique_ptr<Q> q(new Q());
    g_counts = [&] { return std::pair<std::size_t, std::size_t>{q->nawait(), 0}; };
    struct rec { std::unique_ptr<future<T>> f; bool reported = false; };
    std::deque<rec> pops;
    std::vector<std::string> evs;
    std::string line;
    auto poll = [&] {
        for (std::size_t i = 0; i < pops.size(); ++i)
            if (!pops[i].reported && pops[i].f && pops[i].f->ready()) {
                pops[i].reported = true;
                evs.push_back("pop#" + std::to_string(i) + "=" + vh::outcome(*pops[i].f));
            }
    };
    // run fn on a fresh thread until it finishes or parks; returns the op (parked ops are kept in sc.paused)
    struct opres { int state; bool result; };
    auto run_op = [&](bool is_push, std::function<bool()> fn) -> opres {
        auto o = std::make_unique<sched::opt>();
        sched::opt *op = o.get();
        op->is_push = is_push;
        op->th = std::thread([&sc, op, fn] {
            tl_op = op;
            bool r = fn();
            std::unique_lock lk(sc.m);
            op->result = r;
            op->state = 2;
            sc.cv.notify_all();
        });
        std::unique_lock lk(sc.m);
        sc.cv.wait(lk, [&] { return op->state != 0; });
        if (op->state == 2) {
            lk.unlock();
            op->th.join();
            return opres{2, op->result};
        }
        sc.paused.push_back(std::move(o));
        return opres{1, false};
    };
    auto resume_op = [&](std::size_t k, std::ostringstream &head) {
        std::unique_ptr<sched::opt> o = std::move(sc.paused[k]);
        sc.paused.erase(sc.paused.begin() + (std::ptrdiff_t)k);
        {
            std::unique_lock lk(sc.m);
            o->go = true;
            sc.cv.notify_all();
            sc.cv.wait(lk, [&] { return o->state == 2; });
        }
        o->th.join();
        if (o->is_push) head << "deliver push woke=" << o->result;
        else head << "deliver upop " << o->result;
    };
    auto shutdown = [&](const char *what) {
        std::ostringstream dummy;
        while (!sc.paused.empty()) resume_op(0, dummy);
        g_counts = nullptr;
        q.reset();
        poll();
        vh::emit(what, evs);
    };
    while (std::getline(in, line)) {
        auto w = vh::split(line);
        if (w.empty()) continue;
        std::ostringstream head;
        if (w[0] == "end") {
            shutdown("end");
            g_sched = nullptr;
            alarm(0);
            return;
        } else if (w[0] == "destroy") {
            shutdown("destroy");
            while (std::getline(in, line)) {
                auto w2 = vh::split(line);
                if (!w2.empty() && w2[0] == "end") break;
            }
            vh::emit("end", evs);
            g_sched = nullptr;
            alarm(0);
            return;
        } else if (w[0] == "push") {
            int v = w.size() > 1 ? atoi(w[1].c_str()) : 0;
            opres o = run_op(true, [&q, v]() -> bool {
                (void)v;
                if constexpr (std::is_void_v<T>) return q->push(); else return q->push(v);
            });
            if (o.state == 2) head << "push woke=" << o.result; else head << "push paused";
        } else if (w[0] == "upop" && w.size() > 1) {
            int code = atoi(w[1].c_str());
            opres o = run_op(false, [&q, code]() -> bool {
                return q->unblock_pop(std::make_exception_ptr(test_exc(code)));
            });
            if (o.state == 2) head << "upop " << o.result; else head << "upop paused";
        } else if (w[0] == "pop") {
            std::size_t id = pops.size();
            pops.emplace_back();
            rec *r = &pops[id];
            run_op(false, [&q, r]() -> bool {
                r->f.reset(new future<T>([&] { return q->pop(); }));
                return true;
            });
            std::string st = vh::outcome(*pops[id].f);
            if (st != "pending") pops[id].reported = true;
            head << "pop#" << id << " " << st;
        } else if (w[0] == "deliver" && w.size() > 1) {
            std::size_t k = (std::size_t)atoi(w[1].c_str());
            if (k < sc.paused.size()) resume_op(k, head); else head << "deliver none";
        } else if (w[0] == "size") {
            std::size_t n = 0;
            run_op(false, [&q, &n]() -> bool { n = q->size(); return true; });
            head << "size " << n;
        } else if (w[0] == "empty") {
            bool e = false;
            run_op(false, [&q, &e]() -> bool { e = q->empty(); return true; });
            head << "empty " << e;
        } else {
            head << "bad-op";
        }
        poll();
        vh::emit(head.str(), evs);
    }
    g_sched = nullptr;
    alarm(0);
}

// ---------------------------------------------------------------------------------------------
// C10 scheduled suite (`slq <limit>`): limited_queue<int> with the parking Lock.  Every operation
// runs on its own thread.  It parks (a) after a lock region that moved a promise out of `_awaiters`
// or `_blocked` (push handing over, pop admitting a blocked push, unblock_push, unblock_pop) - the
// out-of-lock resolution is then performed by `deliver k` - and (b) in front of any second lock()
// of the same operation (`midcall`): the correct code never does that, an implementation that
// splits a lock region does, and the following input lines then run inside that window.
// Every line shows the number of lock regions the operation entered (`r=`).
// ---------------------------------------------------------------------------------------------
struct slq_t : limited_queue<int, primitives::std_queue, primitives::std_queue, primitives::std_queue, sched_lock> {
    using base = limited_queue<int, primitives::std_queue, primitives::std_queue, primitives::std_queue, sched_lock>;
    using base::base;
    suspend_point<bool> upop(std::exception_ptr e) { return this->unblock_pop(e); }
    std::size_t nawait() const { return this->_awaiters.size(); }
    std::size_t nblocked() const { return this->_blocked.size(); }
};

void run_slqcase(std::istream &in, std::size_t limit) {
    sched sc;
    sc.park_relock = true;
    g_sched = &sc;
    alarm(15);      // never expected to fire; a hang must not stall the whole check
    std::unique_ptr<slq_t> q(new slq_t(limit));
    g_counts = [&] { return std::pair<std::size_t, std::size_t>{q->nawait(), q->nblocked()}; };
    struct prec { std::unique_ptr<future<int>> f; bool reported = false; };
    struct urec { std::unique_ptr<future<void>> f; bool reported = false; };
    std::deque<prec> pops;
    std::deque<urec> pushes;
    std::vector<std::string> evs;
    std::string line;
    static const char *names[] = {"push", "pop", "upush", "upop", "size", "empty"};
    auto poll = [&] {
        for (std::size_t i = 0; i < pops.size(); ++i)
            if (!pops[i].reported && pops[i].f && pops[i].f->ready()) {
                pops[i].reported = true;
                evs.push_back("pop#" + std::to_string(i) + "=" + vh::outcome(*pops[i].f));
            }
        for (std::size_t i = 0; i < pushes.size(); ++i)
            if (!pushes[i].reported && pushes[i].f && pushes[i].f->ready()) {
                pushes[i].reported = true;
                evs.push_back("push#" + std::to_string(i) + "=" + vh::outcome(*pushes[i].f));
            }
    };
    // `push#3` / `pop#1` / `upush` ...
    auto label = [&](sched::opt *o) {
        std::string l = names[o->kind];
        if (o->kind <= 1) l += "#" + std::to_string(o->id);
        return l;
    };
    // what the finished call returned; marks the own future as reported when it is ready
    auto status = [&](sched::opt *o) -> std::string {
        switch (o->kind) {
            case 0: { auto st = vh::outcome(*pushes[o->id].f); if (st != "pending") pushes[o->id].reported = true; return st; }
            case 1: { auto st = vh::outcome(*pops[o->id].f); if (st != "pending") pops[o->id].reported = true; return st; }
            case 4: return std::to_string(o->num);
            default: return o->result ? "1" : "0";
        }
    };
    auto regions = [&](sched::opt *o) { int d = o->regions - o->shown; o->shown = o->regions; return d; };
    // wait until the op's thread finished or parked; finished ops are joined, parked ones queued
    auto settle = [&](std::unique_ptr<sched::opt> o, std::ostringstream &head, bool first, bool quiet = false) {
        sched::opt *op = o.get();
        {
            std::unique_lock lk(sc.m);
            sc.cv.wait(lk, [&] { return op->state != 0; });
        }
        int st = op->state;
        if (st == 2) op->th.join();
        if (quiet) {
            // flush before destruction: the results show up as ordinary events
        } else if (first) {
            head << label(op) << " " << (st == 2 ? status(op) : st == 1 ? "paused" : "midcall") << " r=" << regions(op);
        } else {
            head << "deliver r=" << regions(op) << " ret=" << (st == 2 ? label(op) + ":" + status(op) : st == 1 ? "again" : "midcall");
        }
        if (st != 2) sc.paused.push_back(std::move(o));
    };
    auto run_op = [&](int kind, std::size_t id, std::function<void(sched::opt *)> fn, std::ostringstream &head) {
        auto o = std::make_unique<sched::opt>();
        sched::opt *op = o.get();
        op->kind = kind;
        op->id = id;
        op->th = std::thread([&sc, op, fn] {
            tl_op = op;
            fn(op);
            std::unique_lock lk(sc.m);
            op->state = 2;
            sc.cv.notify_all();
        });
        settle(std::move(o), head, true);
    };
    auto resume_op = [&](std::size_t k, std::ostringstream &head, bool quiet = false) {
        std::unique_ptr<sched::opt> o = std::move(sc.paused[k]);
        sc.paused.erase(sc.paused.begin() + (std::ptrdiff_t)k);
        {
            std::unique_lock lk(sc.m);
            o->state = 0;
            o->go = true;
            sc.cv.notify_all();
        }
        settle(std::move(o), head, false, quiet);
    };
    auto shutdown = [&](const char *what) {
        while (!sc.paused.empty()) { std::ostringstream dummy; resume_op(0, dummy, true); }
        g_counts = nullptr;
        q.reset();
        poll();
        vh::emit(what, evs);
    };
    while (std::getline(in, line)) {
        auto w = vh::split(line);
        if (w.empty()) continue;
        std::ostringstream head;
        if (w[0] == "end") {
            shutdown("end");
            break;
        } else if (w[0] == "destroy") {
            shutdown("destroy");
            while (std::getline(in, line)) {
                auto w2 = vh::split(line);
                if (!w2.empty() && w2[0] == "end") break;
            }
            vh::emit("end", evs);
            break;
        } else if (w[0] == "push") {
            int v = w.size() > 1 ? atoi(w[1].c_str()) : 0;
            std::size_t id = pushes.size();
            pushes.emplace_back();
            urec *r = &pushes[id];
            run_op(0, id, [&q, r, v](sched::opt *) { r->f.reset(new future<void>([&] { return q->push(v); })); }, head);
        } else if (w[0] == "pop") {
            std::size_t id = pops.size();
            pops.emplace_back();
            prec *r = &pops[id];
            run_op(1, id, [&q, r](sched::opt *) { r->f.reset(new future<int>([&] { return q->pop(); })); }, head);
        } else if (w[0] == "upush" && w.size() > 1) {
            int code = atoi(w[1].c_str());
            run_op(2, 0, [&q, code](sched::opt *o) { o->result = q->unblock_push(std::make_exception_ptr(test_exc(code))); }, head);
        } else if (w[0] == "upop" && w.size() > 1) {
            int code = atoi(w[1].c_str());
            run_op(3, 0, [&q, code](sched::opt *o) { o->result = q->upop(std::make_exception_ptr(test_exc(code))); }, head);
        } else if (w[0] == "size") {
            run_op(4, 0, [&q](sched::opt *o) { o->num = q->size(); }, head);
        } else if (w[0] == "empty") {
            run_op(5, 0, [&q](sched::opt *o) { o->result = q->empty(); }, head);
        } else if (w[0] == "deliver" && w.size() > 1) {
            std::size_t k = (std::size_t)atoi(w[1].c_str());
            if (k < sc.paused.size()) resume_op(k, head); else head << "deliver none";
        } else {
            head << "bad-op";
        }
        poll();
        vh::emit(head.str(), evs);
    }
    g_sched = nullptr;
    alarm(0);
}

int main() {
    std::string line;
    while (std::getline(std::cin, line)) {
        auto w = vh::split(line);
        if (w.empty() || w[0] != "case") continue;
        std::cout << "case " << w[1] << "\n";
        const std::string &kind = w[2];
        if (kind == "q") run_qcase<queue<int>, int>(std::cin);
        else if (kind == "vq") run_qcase<queue<void>, void>(std::cin);
        else if (kind == "sq") run_sqcase<int>(std::cin);
        else if (kind == "svq") run_sqcase<void>(std::cin);
        else if (kind == "mtq") run_mtcase(std::cin, false, w);
        else if (kind == "mtv") run_mtcase(std::cin, true, w);
        else if (kind == "lq") run_case<lq_t, int, true>(std::cin, (std::size_t)atoi(w[3].c_str()));
        else if (kind == "slq") run_slqcase(std::cin, w.size() > 3 ? (std::size_t)atoi(w[3].c_str()) : 1);
        else std::cout << "bad-kind\n";
        std::cout.flush();
    }
    return 0;
}
