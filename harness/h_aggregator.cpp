// S/T-harness for cocls::generator_aggregator (C14).
// Reads cases from stdin, prints one canonical line per operation (see lean/Drivers/C14.lean).
//
//   case <id> agg <v|a> <n> <script_0> ... <script_{n-1}>
//       mode v: generator<int>, mode a: generator<int,int> (every access carries an argument), mode r:
//       generator<int,targ> - the argument is a NON-trivially-copyable object whose life time is tracked (a read of a
//       destroyed argument object is reported as `dead`); mode s: generator<tval> - the VALUES are objects of such a
//       type (heap payload: a move empties the source object, `moved`); mode t: generator<tval,targ>
//       script: acts separated by ',', optional '*' separates the prefix from an endlessly repeated cycle,
//               '-' = empty.  acts: y (yield the next value of this source: a temporary in modes s/t),
//               yl (yield it as an LVALUE that outlives the yield - an accumulator / an element of a script kept by the
//               owner of the source - and look at that object again when the source is resumed: event `k<k>=<what it holds>`),
//               a (co_await a future that the
//               input resolves later), ar (like a, and after the await has completed the source fetches its argument
//               AGAIN with `co_yield nullptr`: the generator carries the argument by reference, so this reads the
//               caller's object after a suspension; without argument = a), t<c> (throw test_exc(c)).
//               the j-th yield of source k is (k+1)*1000+j
//   next <arg>            synchronous access: if (gen.next(arg)) gen.value()
//   inext <arg>           iterator access (mode v): it = gen.begin() / ++it ; it == gen.end() ? end : *it
//   fnext <arg>           future access: f = gen(arg); polled after every op
//   cnext <arg>           a consumer coroutine doing co_await gen.next(arg)
//   batch s:a s:a ..      ONE consumer coroutine makes all the accesses in a row without unwinding to the thread's
//                         coroutine queue (the aggregate is used from inside a running coroutine); styles n (next/
//                         value, blocking), i (iterator), c (co_await next), and through the future of gen():
//                         f (`if (co_await val.has_value()) *val else end`), w (`if (val) *val else end`),
//                         x (`if (!val) end else *val`), d (`*val`), q (`co_await val`), j (`val.sync(); val.value()`);
//                         a capital letter = the same reading on ONE future object that is re-used with
//                         `val.result_of(gen)` / `val << gen`; the value is moved out of the future (`std::move(*val)`);
//                         only the last access may stay pending (f, q, c)
//   pnext <style> <arg>   the blocking styles (n i w x d j W X D J) from plain code
//   bnext <arg> k1 k2..   synchronous (blocking) access while a second thread resolves sources k1 k2 ..
//   res <k> / tres <k>    resolve the future source k awaits, on this thread / on a second thread (joined)
//   destroy k1 k2 ..      destroy the aggregate (parked) while a second thread resolves k1 k2 ..
//   cdestroy k1 k2 ..     the same, but the aggregate is destroyed by a running coroutine (the thread's coroutine queue
//                         is active while the controller destructor waits for the in-flight sources)
//   stress <limit> <style> <seed>   one resolver thread per asynchronous source; the consumer blocks on this
//                         thread (style 0 next/value, 1 iterator, 2 gen()+sync()+value(), 6 `if (!val) break; *val`, 8 `*gen()`,
//                         9 `if (val) *val` on one future re-used with operator<<) or is a coroutine (3 co_await next(), 4 blocking
//                         next(), 5 `val = gen(); while (co_await val.has_value()) { *val; val.result_of(gen); }`, 7 `co_await gen()`)
//                         until <limit> values or the end; prints schedule-independent facts only (keptbad = how often a
//                         source found the lvalue it had yielded changed)
//   sdestroy <seed>       destroy the aggregate while the resolver threads are running
//   end                   settle (resolve in-flight sources until nothing is pending), destroy, account
//
// output: `<op> <result> p=<acts executed per source, `e` appended once the body has returned or thrown>` ; events `a<k>=<arg>` (source k received arg),
// `r<k>=<arg>` (source k fetched its argument again after an await: act `ar`), `k<k>=<obj>` (source k, back from `co_yield x`
// of act `yl`, looked at x again; after the destruction the harness looks at the x of the sources that were still parked there)
// and `got=<result>` (a pending fnext/cnext completed), sorted.
// (<arg> is printed as `dead` when the object read is not alive any more and as `moved` when it is a moved-from object)
#include "common.h"
#include <cocls/generator.h>
#include <cocls/generator_aggregator.h>
#include <cocls/async.h>
#include <atomic>
#include <optional>
#include <set>
#include <mutex>
#include <functional>
#include <thread>
#include <chrono>
#include <unistd.h>
#include <csignal>

using namespace cocls;
using vh::test_exc;

static std::atomic<long> g_frames{0};   // live source coroutine frames
static std::atomic<long> g_guards{0};   // live RAII objects inside source bodies
static std::atomic<long> g_progress{0};
static std::atomic<bool> g_busy{false};
static std::string g_where;

struct frame_guard {
    frame_guard() { ++g_frames; }
    frame_guard(const frame_guard &) { ++g_frames; }
    frame_guard(frame_guard &&) noexcept { ++g_frames; }
    ~frame_guard() { --g_frames; }
};
struct body_guard {
    body_guard() { ++g_guards; }
    body_guard(const body_guard &) = delete;
    ~body_guard() { --g_guards; }
};

// Argument type of mode r: not trivially copyable, every object is registered while it is alive, so that a source
// reading its argument through the reference it was given can tell a live object from a destroyed one (the storage
// of a destroyed coroutine-frame local stays readable, the sanitizers do not see that).
struct tracked;
static std::mutex g_targ_mx;
static std::set<const tracked *> g_targ_live;
static std::atomic<long> g_argbad{0};   // stress: late reads that differ from the argument the source was charged with
static std::atomic<long> g_keptbad{0};  // stress: a source found the lvalue it had yielded changed
struct tracked {
    // the number travels in a heap-allocated string (longer than any small-string buffer): copying copies it,
    // moving takes it away from the source object, as with any std::string / std::vector argument
    std::string txt;
    explicit tracked(int x) : txt("argument-carried-in-a-heap-allocated-string:" + std::to_string(x)) { reg(); }
    tracked(const tracked &o) : txt(o.txt) { reg(); }
    tracked(tracked &&o) noexcept : txt(std::move(o.txt)) { reg(); }
    tracked &operator=(const tracked &o) { txt = o.txt; return *this; }
    tracked &operator=(tracked &&o) noexcept { txt = std::move(o.txt); return *this; }
    ~tracked() {
        std::lock_guard _(g_targ_mx);
        g_targ_live.erase(this);
    }
    // -1 = the object is not alive (its string is not touched then), -2 = alive but moved-from (empty)
    int read() const {
        std::lock_guard _(g_targ_mx);
        if (!g_targ_live.count(this)) return -1;
        auto p = txt.rfind(':');
        return p == std::string::npos ? -2 : atoi(txt.c_str() + p + 1);
    }
private:
    void reg() {
        std::lock_guard _(g_targ_mx);
        g_targ_live.insert(this);
    }
};
// argument type of modes r, t / value type of modes s, t
struct targ : tracked { using tracked::tracked; };
struct tval : tracked { using tracked::tracked; };
static int arg_val(int a) { return a; }
static int arg_val(const tracked &a) { return a.read(); }
static std::string obj_str(int v) { return v == -1 ? std::string("dead") : v == -2 ? std::string("moved") : std::to_string(v); }
template <typename V> static std::string vres(const V &v) { return "v:" + obj_str(arg_val(v)); }

struct act_t {
    char kind;  // 'y' 'a' 't'
    int code;   // t: exception code, a: 1 = fetch the argument again after the await (`ar`), y: 1 = yield an lvalue (`yl`)
};

// the future a scripted source awaits; lets the second thread see whether the source coroutine has really
// subscribed (i.e. is suspended on it), so that its continuation runs on the resolving thread
struct probe_future : future<int> {
    bool has_awaiter() const {
        auto a = VN_future_common__awaiter.load(std::memory_order_acquire);
        return a != nullptr && a != &awaiter::instance && a != &awaiter::disabled;
    }
};

struct src_t {
    int idx = 0;
    std::vector<act_t> pre, cyc;
    std::atomic<int> pos{0};      // acts executed
    int ny = 0;                   // yields so far
    std::unique_ptr<probe_future> fut;
    promise<int> prom;
    std::atomic<bool> awaiting{false};
    std::atomic<bool> ended{false};   // the body returned or threw
    std::vector<std::pair<int, int>> *arglog = nullptr;
    std::vector<std::pair<int, int>> *rlog = nullptr;   // arguments fetched again after an await
    std::mutex *logmx = nullptr;
    int last_arg = 0;             // the argument received at the last resumption (touched by the source body only)
    // the lvalue of act `yl`: owned by the driver of the source (it outlives the source's frame), re-used for every `yl`
    tval acc_t{0};
    int acc_i = 0;
    std::atomic<int> at_yl{0};    // != 0: the source is suspended in `co_yield <the lvalue>`, which holds this value
    std::vector<std::pair<int, int>> *keptlog = nullptr;
    template <typename V> V &acc() {
        if constexpr (std::is_same_v<V, int>) return acc_i; else return acc_t;
    }
    // back from the `co_yield` of the lvalue: what does it hold now
    void kept(int found, int expected) {
        if (found != expected) ++g_keptbad;
        std::lock_guard _(*logmx);
        keptlog->push_back({idx, found});
    }

    const act_t *next_act() {
        std::size_t p = (std::size_t)pos.load();
        const act_t *a = nullptr;
        if (p < pre.size()) a = &pre[p];
        else if (!cyc.empty()) a = &cyc[(p - pre.size()) % cyc.size()];
        if (a) pos.store((int)p + 1);
        return a;
    }
    void got(int a) {
        last_arg = a;
        std::lock_guard _(*logmx);
        arglog->push_back({idx, a});
    }
    void reread(int a) {
        if (a != last_arg) ++g_argbad;
        std::lock_guard _(*logmx);
        rlog->push_back({idx, a});
    }
    void arm() {
        fut.reset(new probe_future());
        prom = fut->get_promise();
        awaiting.store(true, std::memory_order_release);
    }
    bool resolve() {
        if (!awaiting.load(std::memory_order_acquire)) return false;
        awaiting.store(false, std::memory_order_relaxed);
        prom(1);
        return true;
    }
};

template <typename G>
G source_body(src_t *s, frame_guard) {
    body_guard bg;
    constexpr bool has_arg = !G::arg_is_void;
    using V = typename G::Ret;
    if constexpr (has_arg) {
        const auto &a = co_yield nullptr;
        s->got(arg_val(a));
    }
    for (;;) {
        const act_t *a = s->next_act();
        if (!a) break;
        if (a->kind == 'y' && a->code) {
            // an lvalue that the source (its owner) keeps using: assigned, yielded, looked at again
            int v = (s->idx + 1) * 1000 + s->ny++;
            V &x = s->template acc<V>();
            x = V(v);
            s->at_yl.store(v);
            if constexpr (has_arg) {
                const auto &r = co_yield x;
                s->at_yl.store(0);
                s->kept(arg_val(x), v);
                s->got(arg_val(r));
            } else {
                co_yield x;
                s->at_yl.store(0);
                s->kept(arg_val(x), v);
            }
        } else if (a->kind == 'y') {
            int v = (s->idx + 1) * 1000 + s->ny++;
            if constexpr (has_arg) {
                if constexpr (std::is_same_v<V, int>) {
                    const auto &r = co_yield v;
                    s->got(arg_val(r));
                } else {
                    const auto &r = co_yield V(v);
                    s->got(arg_val(r));
                }
            } else {
                if constexpr (std::is_same_v<V, int>) co_yield v; else co_yield V(v);
            }
        } else if (a->kind == 'a') {
            {
                body_guard inner;
                s->arm();
                co_await *s->fut;
            }
            if constexpr (has_arg) {
                if (a->code) {
                    // the documented way to get at the argument at any time; the generator holds a reference to
                    // the object its caller passed to next()
                    const auto &again = co_yield nullptr;
                    s->reread(arg_val(again));
                }
            }
        } else {
            s->ended.store(true);
            throw test_exc(a->code);
        }
    }
    s->ended.store(true);
}

static bool parse_script(const std::string &txt, src_t &s) {
    std::vector<act_t> *cur = &s.pre;
    std::string tok;
    auto flush = [&]() -> bool {
        if (tok.empty()) return true;
        if (tok == "-") { tok.clear(); return true; }
        if (tok == "y") cur->push_back({'y', 0});
        else if (tok == "yl") cur->push_back({'y', 1});
        else if (tok == "a") cur->push_back({'a', 0});
        else if (tok == "ar") cur->push_back({'a', 1});
        else if (tok[0] == 't') cur->push_back({'t', atoi(tok.c_str() + 1)});
        else return false;
        tok.clear();
        return true;
    };
    for (char c : txt) {
        if (c == ',') { if (!flush()) return false; }
        else if (c == '*') { if (!flush()) return false; cur = &s.cyc; }
        else tok.push_back(c);
    }
    return flush();
}

template <typename G>
struct case_runner {
    static constexpr bool has_arg = !G::arg_is_void;
    // the object handed to the aggregate with an access (int or targ); it lives as long as the access
    using arg_t = std::conditional_t<has_arg, typename G::arg_type, int>;
    using val_t = typename G::Ret;             // int or tval
    std::vector<std::unique_ptr<src_t>> srcs;
    std::unique_ptr<G> gen;
    std::vector<std::pair<int, int>> arglog, rlog, keptlog;
    std::mutex logmx;
    // the outstanding non-blocking access
    std::unique_ptr<future<val_t>> fut;        // fnext
    std::unique_ptr<future<void>> cofut;       // cnext
    std::string coresult;                      // set by the consumer coroutine
    bool codone = false;
    bool pending = false;
    bool destroyed = false;
    std::vector<std::string> evs;

    static std::string classify(std::exception_ptr e) {
        try {
            std::rethrow_exception(e);
        } catch (const test_exc &x) {
            return "exc:" + std::to_string(x.code);
        } catch (const no_more_values_exception &) {
            return "nomore";
        } catch (const value_not_ready_exception &) {
            return "notready";
        } catch (const await_canceled_exception &) {
            return "end";
        } catch (...) {
            return "other";
        }
    }

    std::string pstr() {
        std::string r = "p=";
        for (std::size_t i = 0; i < srcs.size(); ++i) {
            if (i) r += ".";
            r += std::to_string(srcs[i]->pos.load());
            if (srcs[i]->ended.load()) r += "e";
        }
        if (srcs.empty()) r += "-";
        return r;
    }

    // iterator access (range-for style), generators without argument only
    std::optional<typename G::iterator> iter;
    std::string iter_next() {
        if constexpr (has_arg) {
            return "n/a";
        } else {
            try {
                if (!iter) iter.emplace(gen->begin()); else ++*iter;
                if (*iter == gen->end()) return "end";
                return vres(**iter);
            } catch (...) {
                return classify(std::current_exception());
            }
        }
    }

    std::string sync_next(int arg_) {
        try {
            bool b;
            arg_t arg(arg_);
            if constexpr (has_arg) b = gen->next(arg); else b = gen->next();
            if (!b) return "end";
            return vres(gen->value());
        } catch (...) {
            return classify(std::current_exception());
        }
    }

    static async<void> consumer(case_runner *me, int arg_) {
        try {
            bool b;
            arg_t arg(arg_);
            if constexpr (has_arg) b = co_await me->gen->next(arg); else b = co_await me->gen->next();
            if (!b) me->coresult = "end";
            else me->coresult = vres(me->gen->value());
        } catch (...) {
            me->coresult = classify(std::current_exception());
        }
        me->codone = true;
    }

    // One long-running consumer coroutine performing a whole list of accesses without ever unwinding to the
    // thread's coro_queue in between (the aggregate is used from INSIDE a running coroutine: coro_queue active).
    // styles: n = blocking next()/value(), i = iterator, c = co_await next(), f = gen() + co_await has_value(),
    //         w = gen() + blocking operator bool / operator*
    std::vector<std::string> batch_results;
    // the value is MOVED out of the future (the documented licence of future::value(): "you can modify the value or
    // move the value out"): the future owns a copy, the sources must not notice
    static std::string fut_result(future<val_t> &f) {
        try {
            val_t got = std::move(f.value());
            return vres(got);
        } catch (...) {
            return classify(std::current_exception());
        }
    }
    // the blocking ways of asking the future of gen() for the result
    static std::string read_blocking(future<val_t> &f, char ch) {
        try {
            if (ch == 'w') {
                if (f) { val_t got = std::move(*f); return vres(got); }
                return "end";
            } else if (ch == 'x') {
                if (!f) return "end";
                val_t got = std::move(*f);
                return vres(got);
            } else if (ch == 'd') {
                val_t got = std::move(*f);      // operator* = wait(); a dropped promise = await_canceled_exception
                return vres(got);
            } else {
                f.sync();
                val_t got = std::move(f.value());
                return vres(got);
            }
        } catch (...) {
            return classify(std::current_exception());
        }
    }
    // gen(arg) into a fresh future / into the future object that is re-used (result_of, operator<<)
    void call_into(std::optional<future<val_t>> &keep, arg_t &arg, char lc) {
        auto call = [&]() -> future<val_t> {
            if constexpr (has_arg) return (*gen)(arg); else return (*gen)();
        };
        if (!keep) keep.emplace(call);
        else if (lc == 'f' || lc == 'w' || lc == 'd') {
            if constexpr (has_arg) keep->result_of(call); else keep->result_of(*gen);
        } else {
            if constexpr (has_arg) *keep << call; else *keep << *gen;
        }
    }
    std::optional<future<val_t>> keep_plain;
    std::string plain_access(char ch, int arg_) {
        if (ch == 'n') return sync_next(arg_);
        if (ch == 'i') return iter_next();
        char lc = (char)tolower(ch);
        try {
            arg_t arg(arg_);
            if (ch != lc) {
                call_into(keep_plain, arg, lc);
                return read_blocking(*keep_plain, lc);
            }
            std::optional<future<val_t>> f;
            call_into(f, arg, lc);
            return read_blocking(*f, lc);
        } catch (...) {
            return classify(std::current_exception());
        }
    }
    static async<void> batch_consumer(case_runner *me, std::vector<std::pair<char, int>> accs) {
        std::optional<future<val_t>> keep;     // the future of the capital-letter styles
        for (auto &ac : accs) {
            arg_t arg(ac.second);
            std::string r;
            char lc = (char)tolower(ac.first);
            if (ac.first == 'n') r = me->sync_next(ac.second);
            else if (ac.first == 'i') r = me->iter_next();
            else {
                try {
                    if (ac.first == 'c') {
                        bool b;
                        if constexpr (has_arg) b = co_await me->gen->next(arg); else b = co_await me->gen->next();
                        if (!b) r = "end";
                        else r = vres(me->gen->value());
                    } else {
                        std::optional<future<val_t>> fresh;
                        std::optional<future<val_t>> &f = ac.first != lc ? keep : fresh;
                        me->call_into(f, arg, lc);
                        if (lc == 'f') {
                            // the loop documented at generator<>::operator(): false = the generator has finished
                            bool b = co_await f->has_value();
                            if (!b) r = "end";
                            else r = fut_result(*f);
                        } else if (lc == 'q') {
                            val_t got = std::move(co_await *f);
                            r = vres(got);
                        } else {
                            r = read_blocking(*f, lc);
                        }
                    }
                } catch (...) {
                    r = classify(std::current_exception());
                }
            }
            me->batch_results.push_back(r);
            me->coresult = r;
        }
        me->codone = true;
    }

    std::string fut_outcome() {
        // the future of gen(): value, exception, or dropped (= the generator ended)
        if (!fut->ready()) return "pending";
        return fut_result(*fut);
    }

    void poll() {
        if (pending && fut && fut->ready()) {
            evs.push_back("got=" + fut_outcome());
            fut.reset();
            pending = false;
        }
        if (pending && cofut && codone) {
            evs.push_back("got=" + coresult);
            cofut.reset();
            pending = false;
        }
    }

    void flush_args() {
        std::lock_guard _(logmx);
        if (has_arg) {
            auto val = [](int v) { return v == -1 ? std::string("dead") : v == -2 ? std::string("moved") : std::to_string(v); };
            std::sort(arglog.begin(), arglog.end());
            for (auto &p : arglog) evs.push_back("a" + std::to_string(p.first) + "=" + val(p.second));
            for (auto &p : rlog) evs.push_back("r" + std::to_string(p.first) + "=" + val(p.second));
        }
        for (auto &p : keptlog) evs.push_back("k" + std::to_string(p.first) + "=" + obj_str(p.second));
        arglog.clear();
        rlog.clear();
        keptlog.clear();
    }

    void out(const std::string &head) {
        poll();
        flush_args();
        std::sort(evs.begin(), evs.end());
        vh::emit(head + " " + pstr(), evs);
    }

    // second thread: wait (bounded: 1 s per op over all its resolutions) until source k is parked on its
    // future, then resolve it
    std::chrono::steady_clock::time_point helper_deadline;
    void helper_begin() { helper_deadline = std::chrono::steady_clock::now() + std::chrono::seconds(1); }
    bool helper_resolve(int k) {
        for (;;) {
            if (srcs[k]->awaiting.load(std::memory_order_acquire) && srcs[k]->fut->has_awaiter())
                return srcs[k]->resolve();
            if (std::chrono::steady_clock::now() > helper_deadline) return false;
            std::this_thread::sleep_for(std::chrono::microseconds(50));
        }
    }

    bool valid_src(const std::vector<std::string> &w, std::size_t from) {
        for (std::size_t i = from; i < w.size(); ++i) {
            int k = atoi(w[i].c_str());
            if (k < 0 || (std::size_t)k >= srcs.size()) return false;
        }
        return true;
    }

    // a coroutine that drops the aggregate, as any consumer coroutine does when it is done with it
    static async<void> destroyer(case_runner *me) {
        me->gen.reset();
        co_return;
    }
    void drop(bool in_coro) {
        if (in_coro) {
            future<void> f([&] { return destroyer(this).start(); });
            f.wait();
        } else {
            gen.reset();
        }
    }

    // the lvalues the parked sources had yielded belong to the driver: look at them
    void look_at_lvalues() {
        for (auto &s : srcs) {
            int v = s->at_yl.exchange(0);
            if (v) {
                if constexpr (std::is_same_v<val_t, int>) s->kept(s->acc_i, v); else s->kept(s->acc_t.read(), v);
            }
        }
    }
    void do_destroy(const std::vector<int> &helpers, bool in_coro = false) {
        std::atomic<bool> bad{false};
        if (helpers.empty()) {
            drop(in_coro);
        } else {
            helper_begin();
            std::thread th([&] {
                for (int k : helpers)
                    if (!helper_resolve(k)) bad = true;
            });
            drop(in_coro);
            th.join();
        }
        destroyed = true;
        // frames of all sources must be gone now; the futures they awaited are resolved
        for (auto &s : srcs) s->fut.reset();
        look_at_lvalues();
        if (bad) evs.push_back("bad-helper");
    }

    // ---- thread stress: one resolver thread per asynchronous source, the consumer blocks on this thread ----
    std::atomic<bool> stop_resolvers{false};
    std::vector<std::thread> resolvers;
    void start_resolvers(unsigned seed) {
        stop_resolvers = false;
        for (std::size_t k = 0; k < srcs.size(); ++k) {
            bool is_async = false;
            for (auto &a : srcs[k]->pre) is_async |= a.kind == 'a';
            for (auto &a : srcs[k]->cyc) is_async |= a.kind == 'a';
            if (!is_async) continue;
            resolvers.emplace_back([this, k, seed] {
                unsigned x = seed * 2654435761u + (unsigned)k * 40503u + 1;
                while (!stop_resolvers.load(std::memory_order_acquire)) {
                    if (srcs[k]->awaiting.load(std::memory_order_acquire) && srcs[k]->fut->has_awaiter()) {
                        srcs[k]->resolve();
                    }
                    x = x * 1664525u + 1013904223u;
                    unsigned d = (x >> 24) & 63;
                    if (d < 24) std::this_thread::yield();
                    else if (d < 56) std::this_thread::sleep_for(std::chrono::microseconds(d - 20));
                    // else: spin
                }
            });
        }
    }
    void join_resolvers() {
        stop_resolvers.store(true, std::memory_order_release);
        for (auto &t : resolvers) t.join();
        resolvers.clear();
    }
    int produced(std::size_t k) {
        int p = srcs[k]->pos.load(), n = 0;
        for (int i = 0; i < p; ++i) {
            const act_t *a = (std::size_t)i < srcs[k]->pre.size() ? &srcs[k]->pre[i]
                             : &srcs[k]->cyc[((std::size_t)i - srcs[k]->pre.size()) % srcs[k]->cyc.size()];
            n += a->kind == 'y';
        }
        return n;
    }
    static async<void> stress_consumer(case_runner *me, int style, std::function<bool(const std::string &)> *acc) {
        if (style == 5 || style == 7) {
            // 5: the loop documented at generator<>::operator():
            //        auto val = gen(); while (co_await val.has_value()) { use(*val); val.result_of(gen); }
            // 7: for (;;) use(co_await gen())   (ends with await_canceled_exception)
            std::optional<future<val_t>> val;
            for (;;) {
                std::string r;
                try {
                    arg_t arg(++me->stress_arg);
                    me->call_into(val, arg, style == 5 ? 'f' : 'x');
                    if (style == 5) {
                        bool b = co_await val->has_value();
                        r = b ? fut_result(*val) : std::string("end");
                    } else {
                        val_t got = std::move(co_await *val);
                        r = vres(got);
                    }
                } catch (...) {
                    r = classify(std::current_exception());
                }
                if (!(*acc)(r)) break;
            }
            co_return;
        }
        for (;;) {
            std::string r;
            if (style == 4) r = me->sync_next(++me->stress_arg);
            else {
                try {
                    arg_t arg(++me->stress_arg);
                    bool b;
                    if constexpr (has_arg) b = co_await me->gen->next(arg); else b = co_await me->gen->next();
                    if (!b) r = "end";
                    else r = vres(me->gen->value());
                } catch (...) {
                    r = classify(std::current_exception());
                }
            }
            if (!(*acc)(r)) break;
        }
    }
    // prints schedule-independent facts only
    int stress_arg = 0;    // every access of the stress run carries another argument
    std::string do_stress(int limit, int style, unsigned seed) {
        g_argbad = 0;
        g_keptbad = 0;
        stressed = true;
        std::vector<int> consumed(srcs.size(), 0);
        int got = 0, dup = 0, order_bad = 0, unknown = 0;
        std::string result = "cut";
        start_resolvers(seed);
        auto account = [&](const std::string &r) -> bool {
            ++g_progress;
            if (r.rfind("v:", 0) == 0) {
                int v = atoi(r.c_str() + 2);
                int k = v / 1000 - 1, j = v % 1000;
                ++got;
                if (k < 0 || (std::size_t)k >= srcs.size()) { ++unknown; return got < limit; }
                if (j < consumed[k]) ++dup;
                else if (j > consumed[k]) ++order_bad;
                else ++consumed[k];
                return got < limit;
            }
            result = r;
            return false;
        };
        if (style == 3 || style == 4 || style == 5 || style == 7) {
            // the consumer is a coroutine (3: co_await next(), 4: blocking next() inside the coroutine, 5: gen() +
            // co_await has_value() + result_of, 7: co_await gen()); it is resumed on whatever thread completes a source
            std::function<bool(const std::string &)> acc = account;
            future<void> f([&] { return stress_consumer(this, style, &acc).start(); });
            f.wait();
        } else if (limit > 0) {
            for (;;) {
                std::string r;
                // plain thread: 0 next()/value(), 1 iterator, 2 gen() + sync() + value(), 6 `if (!val) break; *val`,
                // 8 `*gen()`, 9 `if (val) *val` on one future re-used with operator<<
                char ch = style == 0 ? 'n' : style == 1 && !has_arg ? 'i' : style == 6 ? 'x' : style == 8 ? 'd' : style == 9 ? 'W' : 'j';
                r = plain_access(ch, ++stress_arg);
                if (!account(r)) break;
            }
        }
        join_resolvers();
        int lost = 0, notended = 0, threw = 0, excok = 0;
        for (std::size_t k = 0; k < srcs.size(); ++k) {
            int d = produced(k) - consumed[k];
            if (result == "cut") lost += d > 1 || d < 0; else lost += d != 0;
            bool e = srcs[k]->ended.load();
            notended += !e;
            int p = srcs[k]->pos.load();
            if (e && p > 0 && (std::size_t)p <= srcs[k]->pre.size() && srcs[k]->pre[p - 1].kind == 't') {
                ++threw;
                if (result == "exc:" + std::to_string(srcs[k]->pre[p - 1].code)) excok = 1;
            }
        }
        std::string res = result.rfind("exc:", 0) == 0 ? "exc" : result;
        std::ostringstream os;
        os << "stress result=" << res << " got=" << got << " dup=" << dup << " order_bad=" << order_bad
           << " unknown=" << unknown << " lost=" << lost << " argbad=" << g_argbad.load() << " keptbad=" << g_keptbad.load();
        if (result != "cut") os << " notended=" << notended << " threw=" << (threw ? 1 : 0) << " excok=" << excok;
        return os.str();
    }

    bool stressed = false;     // a thread stress ran: which source is parked where depends on the schedule
    std::string account() {
        std::string r = "frames=" + std::to_string(g_frames.load()) + " guards=" + std::to_string(g_guards.load());
        if (stressed) {
            // the lvalues of the parked sources have been looked at (do_destroy): count only
            r += " keptbad=" + std::to_string(g_keptbad.load());
            std::lock_guard _(logmx);
            keptlog.clear();
        }
        return r;
    }

    void run(std::istream &in, const std::vector<std::string> &hdr) {
        std::size_t n = (std::size_t)atoi(hdr[4].c_str());
        std::vector<G> list;
        bool ok = hdr.size() == 5 + n;
        for (std::size_t k = 0; ok && k < n; ++k) {
            auto s = std::make_unique<src_t>();
            s->idx = (int)k;
            s->arglog = &arglog;
            s->rlog = &rlog;
            s->keptlog = &keptlog;
            s->logmx = &logmx;
            ok = parse_script(hdr[5 + k], *s);
            srcs.push_back(std::move(s));
        }
        if (ok) {
            for (std::size_t k = 0; k < n; ++k) list.push_back(source_body<G>(srcs[k].get(), frame_guard()));
            gen.reset(new G(generator_aggregator(std::move(list))));
        }
        std::string line;
        while (std::getline(in, line)) {
            auto w = vh::split(line);
            if (w.empty()) continue;
            ++g_progress;
            g_where = line;
            g_busy = true;
            const std::string &op = w[0];
            int arg_ = w.size() > 1 ? atoi(w[1].c_str()) : 0;
            if (op == "end") {
                if (ok && !destroyed) {
                    // settle: complete the outstanding access / in-flight sources from this thread
                    for (int round = 0; round < 1000; ++round) {
                        bool any = false;
                        for (auto &s : srcs)
                            if (s->resolve()) { any = true; break; }
                        poll();
                        if (!any) break;
                    }
                    if (pending) {
                        // cannot destroy legally: leak on purpose and say so
                        evs.push_back("unsettled");
                        (void)gen.release();
                        (void)fut.release();
                        (void)cofut.release();
                        for (auto &s : srcs) (void)s->fut.release();
                        g_busy = false;
                        out("end");
                        return;
                    }
                    do_destroy({});
                    g_busy = false;
                    out("end " + account());
                } else {
                    g_busy = false;
                    vh::emit("end", evs);
                }
                return;
            }
            if (!ok || destroyed) {
                g_busy = false;
                vh::emit("bad-op", evs);
                continue;
            }
            if (op == "next" && !pending) {
                out("next " + sync_next(arg_));
            } else if (op == "inext" && !pending && !has_arg) {
                out("inext " + iter_next());
            } else if (op == "bnext" && !pending && valid_src(w, 2)) {
                std::vector<int> ks;
                for (std::size_t i = 2; i < w.size(); ++i) ks.push_back(atoi(w[i].c_str()));
                std::atomic<bool> bad{false};
                helper_begin();
                std::thread th([&] {
                    for (int k : ks)
                        if (!helper_resolve(k)) bad = true;
                });
                std::string r = sync_next(arg_);
                th.join();
                if (bad) evs.push_back("bad-helper");
                out("bnext " + r);
            } else if (op == "fnext" && !pending) {
                try {
                    // the aggregate takes its copy of the argument while it runs inside this call
                    arg_t arg(arg_);
                    if constexpr (has_arg) fut.reset(new future<val_t>([&] { return (*gen)(arg); }));
                    else fut.reset(new future<val_t>([&] { return (*gen)(); }));
                    std::string r = fut_outcome();
                    if (r == "pending") pending = true; else fut.reset();
                    out("fnext " + r);
                } catch (...) {
                    fut.reset();
                    out("fnext " + classify(std::current_exception()));
                }
            } else if (op == "cnext" && !pending) {
                codone = false;
                coresult.clear();
                cofut.reset(new future<void>([&] { return consumer(this, arg_).start(); }));
                if (codone) {
                    cofut.reset();
                    out("cnext " + coresult);
                } else {
                    pending = true;
                    out("cnext pending");
                }
            } else if (op == "batch" && !pending && w.size() >= 2) {
                std::vector<std::pair<char, int>> accs;
                bool okb = true;
                for (std::size_t i = 1; i < w.size(); ++i) {
                    if (w[i].size() < 3 || w[i][1] != ':' || !strchr("nicfwxdqjFWXDQJ", w[i][0]) || (w[i][0] == 'i' && has_arg)) okb = false;
                    else accs.push_back({w[i][0], atoi(w[i].c_str() + 2)});
                }
                if (!okb) {
                    vh::emit("bad-op", evs);
                } else {
                    codone = false;
                    coresult.clear();
                    batch_results.clear();
                    cofut.reset(new future<void>([&] { return batch_consumer(this, accs).start(); }));
                    std::string head = "batch";
                    for (auto &r : batch_results) head += " " + r;
                    if (codone) {
                        cofut.reset();
                    } else {
                        pending = true;
                        head += " pending";
                    }
                    out(head);
                }
            } else if (op == "pnext" && !pending && w.size() == 3 && w[1].size() == 1 && strchr("niwxdjWXDJ", w[1][0]) &&
                       !(w[1][0] == 'i' && has_arg)) {
                out("pnext " + plain_access(w[1][0], atoi(w[2].c_str())));
            } else if ((op == "res" || op == "tres") && w.size() == 2 && valid_src(w, 1)) {
                int k = atoi(w[1].c_str());
                bool r;
                if (op == "res") r = srcs[k]->resolve();
                else {
                    std::thread th([&] { r = srcs[k]->resolve(); });
                    th.join();
                }
                out(r ? op : std::string("bad-op"));
            } else if (op == "stress" && !pending && w.size() == 4) {
                std::string r = do_stress(atoi(w[1].c_str()), atoi(w[2].c_str()), (unsigned)atoi(w[3].c_str()));
                flush_args();
                evs.clear();
                vh::emit(r, evs);
            } else if (op == "sdestroy" && !pending && w.size() == 2) {
                // destruction while the resolver threads are running: the destructor waits for in-flight sources
                start_resolvers((unsigned)atoi(w[1].c_str()));
                gen.reset();
                join_resolvers();
                destroyed = true;
                for (auto &s : srcs) s->fut.reset();
                look_at_lvalues();
                stressed = true;
                std::string acct = account();
                flush_args();
                evs.clear();
                vh::emit("sdestroy " + acct, evs);
            } else if ((op == "destroy" || op == "cdestroy") && !pending && valid_src(w, 1)) {
                std::vector<int> ks;
                for (std::size_t i = 1; i < w.size(); ++i) ks.push_back(atoi(w[i].c_str()));
                do_destroy(ks, op == "cdestroy");
                out(op + " " + account());
            } else {
                vh::emit("bad-op", evs);
            }
            g_busy = false;
        }
    }
};

// An operation that does not return (and makes no progress) for 3 s is reported as `<op> hang`, a library assertion
// (abort) inside an operation as `<op> abort`.  The thread cannot be recovered, so the rest of the input is skipped
// (only the `case <id>` headers are echoed, which the framework sees as missing output) and the process exits at
// once; the oracle turns the `hang` / `abort` line into a verdict.
static void bail(const char *what) {
    auto w = vh::split(g_where);
    std::cout << (w.empty() ? std::string("?") : w[0]) << " " << what << "\n";
    std::string line;
    while (std::getline(std::cin, line)) {
        auto w2 = vh::split(line);
        if (w2.size() >= 2 && w2[0] == "case") std::cout << "case " << w2[1] << "\n";
    }
    std::cout.flush();
    _exit(0);
}

static void on_abort(int) {
    static std::atomic<bool> once{false};
    if (once.exchange(true) || !g_busy.load()) _exit(134);
    fprintf(stderr, "ABORT inside operation `%s`\n", g_where.c_str());
    bail("abort");
}

static void watchdog() {
    long last = -1;
    int same = 0;
    for (;;) {
        std::this_thread::sleep_for(std::chrono::milliseconds(100));
        long p = g_progress.load();
        if (g_busy.load() && p == last) {
            if (++same >= 30) {
                fprintf(stderr, "HANG: operation `%s` did not return within 3 s\n", g_where.c_str());
                fflush(stderr);
                bail("hang");
            }
        } else {
            same = 0;
            last = p;
        }
    }
}

int main() {
    signal(SIGABRT, on_abort);
    std::thread(watchdog).detach();
    std::string line;
    while (std::getline(std::cin, line)) {
        auto w = vh::split(line);
        if (w.size() < 5 || w[0] != "case" || w[2] != "agg") continue;
        std::cout << "case " << w[1] << "\n";
        if (w[3] == "a") {
            case_runner<generator<int, int>> r;
            r.run(std::cin, w);
        } else if (w[3] == "r") {
            case_runner<generator<int, targ>> r;
            r.run(std::cin, w);
        } else if (w[3] == "s") {
            case_runner<generator<tval>> r;
            r.run(std::cin, w);
        } else if (w[3] == "t") {
            case_runner<generator<tval, targ>> r;
            r.run(std::cin, w);
        } else {
            case_runner<generator<int>> r;
            r.run(std::cin, w);
        }
        std::cout.flush();
    }
    return 0;
}
