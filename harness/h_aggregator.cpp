// S/T-harness for cocls::generator_aggregator (C14).
// Reads cases from stdin, prints one canonical line per operation (see lean/Drivers/C14.lean).
//
//   case <id> agg <v|a> <n> <script_0> ... <script_{n-1}>
//       mode v: generator<int>, mode a: generator<int,int> (every access carries an argument), mode r:
//       generator<int,targ> - the argument is a NON-trivially-copyable object whose life time is tracked (a read of a
//       destroyed argument object is reported as `dead`)
//       script: acts separated by ',', optional '*' separates the prefix from an endlessly repeated cycle,
//               '-' = empty.  acts: y (yield the next value of this source), a (co_await a future that the
//               input resolves later), ar (like a, and after the await has completed the source fetches its argument
//               AGAIN with `co_yield nullptr`: the generator carries the argument by reference, so this reads the
//               caller's object after a suspension; without argument = a), t<c> (throw test_exc(c)).
//               the j-th yield of source k is (k+1)*1000+j
//   next <arg>            synchronous access: if (gen.next(arg)) gen.value()
//   inext <arg>           iterator access (mode v): it = gen.begin() / ++it ; it == gen.end() ? end : *it
//   fnext <arg>           future access: f = gen(arg); polled after every op
//   cnext <arg>           a consumer coroutine doing co_await gen.next(arg)
//   batch s:a s:a ..      ONE consumer coroutine makes all the accesses in a row without unwinding to the thread's
//                         coroutine queue (the aggregate is used from inside a running coroutine); styles n (next/
//                         value, blocking), i (iterator), c (co_await next), f (gen() + co_await has_value),
//                         w (gen() + blocking operator bool); only the last access may stay pending
//   bnext <arg> k1 k2..   synchronous (blocking) access while a second thread resolves sources k1 k2 ..
//   res <k> / tres <k>    resolve the future source k awaits, on this thread / on a second thread (joined)
//   destroy k1 k2 ..      destroy the aggregate (parked) while a second thread resolves k1 k2 ..
//   cdestroy k1 k2 ..     the same, but the aggregate is destroyed by a running coroutine (the thread's coroutine queue
//                         is active while the controller destructor waits for the in-flight sources)
//   stress <limit> <style> <seed>   one resolver thread per asynchronous source; the consumer blocks on this
//                         thread (style 0 next/value, 1 iterator, 2 future+sync, 3 consumer coroutine with co_await next(), 4 consumer
//                         coroutine blocking in next()) until <limit> values or the end;
//                         prints schedule-independent facts only
//   sdestroy <seed>       destroy the aggregate while the resolver threads are running
//   end                   settle (resolve in-flight sources until nothing is pending), destroy, account
//
// output: `<op> <result> p=<acts executed per source, `e` appended once the body has returned or thrown>` ; events `a<k>=<arg>` (source k received arg),
// `r<k>=<arg>` (source k fetched its argument again after an await: act `ar`) and `got=<result>` (a pending fnext/cnext completed), sorted.
// (<arg> is printed as `dead` when the object read is not alive any more and as `moved` when it is a moved-from object)
#include "common.h"
#include <cocls/generator.h>
#include <cocls/generator_aggregator.h>
#include <cocls/async.h>
#include <atomic>
#include <optional>
#include <set>
#include <mutex>
#include <functional>
#include <thread>
#include <chrono>
#include <unistd.h>
#include <csignal>

using namespace cocls;
using vh::test_exc;

static std::atomic<long> g_frames{0};   // live source coroutine frames
static std::atomic<long> g_guards{0};   // live RAII objects inside source bodies
static std::atomic<long> g_progress{0};
static std::atomic<bool> g_busy{false};
static std::string g_where;

struct frame_guard {
    frame_guard() { ++g_frames; }
    frame_guard(const frame_guard &) { ++g_frames; }
    frame_guard(frame_guard &&) noexcept { ++g_frames; }
    ~frame_guard() { --g_frames; }
};
struct body_guard {
    body_guard() { ++g_guards; }
    body_guard(const body_guard &) = delete;
    ~body_guard() { --g_guards; }
};

// Argument type of mode r: not trivially copyable, every object is registered while it is alive, so that a source
// reading its argument through the reference it was given can tell a live object from a destroyed one (the storage
// of a destroyed coroutine-frame local stays readable, the sanitizers do not see that).
struct targ;
static std::mutex g_targ_mx;
static std::set<const targ *> g_targ_live;
static std::atomic<long> g_argbad{0};   // stress: late reads that differ from the argument the source was charged with
struct targ {
    // the number travels in a heap-allocated string (longer than any small-string buffer): copying copies it,
    // moving takes it away from the source object, as with any std::string / std::vector argument
    std::string txt;
    explicit targ(int x) : txt("argument-carried-in-a-heap-allocated-string:" + std::to_string(x)) { reg(); }
    targ(const targ &o) : txt(o.txt) { reg(); }
    targ(targ &&o) noexcept : txt(std::move(o.txt)) { reg(); }
    targ &operator=(const targ &o) { txt = o.txt; return *this; }
    targ &operator=(targ &&o) noexcept { txt = std::move(o.txt); return *this; }
    ~targ() {
        std::lock_guard _(g_targ_mx);
        g_targ_live.erase(this);
    }
    // -1 = the object is not alive (its string is not touched then), -2 = alive but moved-from (empty)
    int read() const {
        std::lock_guard _(g_targ_mx);
        if (!g_targ_live.count(this)) return -1;
        auto p = txt.rfind(':');
        return p == std::string::npos ? -2 : atoi(txt.c_str() + p + 1);
    }
private:
    void reg() {
        std::lock_guard _(g_targ_mx);
        g_targ_live.insert(this);
    }
};
static int arg_val(int a) { return a; }
static int arg_val(const targ &a) { return a.read(); }

struct act_t {
    char kind;  // 'y' 'a' 't'
    int code;   // t: exception code, a: 1 = fetch the argument again after the await (`ar`)
};

// the future a scripted source awaits; lets the second thread see whether the source coroutine has really
// subscribed (i.e. is suspended on it), so that its continuation runs on the resolving thread
struct probe_future : future<int> {
    bool has_awaiter() const {
        auto a = _awaiter.load(std::memory_order_acquire);
        return a != nullptr && a != &awaiter::instance && a != &awaiter::disabled;
    }
};

struct src_t {
    int idx = 0;
    std::vector<act_t> pre, cyc;
    std::atomic<int> pos{0};      // acts executed
    int ny = 0;                   // yields so far
    std::unique_ptr<probe_future> fut;
    promise<int> prom;
    std::atomic<bool> awaiting{false};
    std::atomic<bool> ended{false};   // the body returned or threw
    std::vector<std::pair<int, int>> *arglog = nullptr;
    std::vector<std::pair<int, int>> *rlog = nullptr;   // arguments fetched again after an await
    std::mutex *logmx = nullptr;
    int last_arg = 0;             // the argument received at the last resumption (touched by the source body only)

    const act_t *next_act() {
        std::size_t p = (std::size_t)pos.load();
        const act_t *a = nullptr;
        if (p < pre.size()) a = &pre[p];
        else if (!cyc.empty()) a = &cyc[(p - pre.size()) % cyc.size()];
        if (a) pos.store((int)p + 1);
        return a;
    }
    void got(int a) {
        last_arg = a;
        std::lock_guard _(*logmx);
        arglog->push_back({idx, a});
    }
    void reread(int a) {
        if (a != last_arg) ++g_argbad;
        std::lock_guard _(*logmx);
        rlog->push_back({idx, a});
    }
    void arm() {
        fut.reset(new probe_future());
        prom = fut->get_promise();
        awaiting.store(true, std::memory_order_release);
    }
    bool resolve() {
        if (!awaiting.load(std::memory_order_acquire)) return false;
        awaiting.store(false, std::memory_order_relaxed);
        prom(1);
        return true;
    }
};

template <typename G>
G source_body(src_t *s, frame_guard) {
    body_guard bg;
    constexpr bool has_arg = !G::arg_is_void;
    if constexpr (has_arg) {
        const auto &a = co_yield nullptr;
        s->got(arg_val(a));
    }
    for (;;) {
        const act_t *a = s->next_act();
        if (!a) break;
        if (a->kind == 'y') {
            int v = (s->idx + 1) * 1000 + s->ny++;
            if constexpr (has_arg) {
                const auto &r = co_yield v;
                s->got(arg_val(r));
            } else {
                co_yield v;
            }
        } else if (a->kind == 'a') {
            {
                body_guard inner;
                s->arm();
                co_await *s->fut;
            }
            if constexpr (has_arg) {
                if (a->code) {
                    // the documented way to get at the argument at any time; the generator holds a reference to
                    // the object its caller passed to next()
                    const auto &again = co_yield nullptr;
                    s->reread(arg_val(again));
                }
            }
        } else {
            s->ended.store(true);
            throw test_exc(a->code);
        }
    }
    s->ended.store(true);
}

static bool parse_script(const std::string &txt, src_t &s) {
    std::vector<act_t> *cur = &s.pre;
    std::string tok;
    auto flush = [&]() -> bool {
        if (tok.empty()) return true;
        if (tok == "-") { tok.clear(); return true; }
        if (tok == "y") cur->push_back({'y', 0});
        else if (tok == "a") cur->push_back({'a', 0});
        else if (tok == "ar") cur->push_back({'a', 1});
        else if (tok[0] == 't') cur->push_back({'t', atoi(tok.c_str() + 1)});
        else return false;
        tok.clear();
        return true;
    };
    for (char c : txt) {
        if (c == ',') { if (!flush()) return false; }
        else if (c == '*') { if (!flush()) return false; cur = &s.cyc; }
        else tok.push_back(c);
    }
    return flush();
}

template <typename G>
struct case_runner {
    static constexpr bool has_arg = !G::arg_is_void;
    // the object handed to the aggregate with an access (int or targ); it lives as long as the access
    using arg_t = std::conditional_t<has_arg, typename G::arg_type, int>;
    std::vector<std::unique_ptr<src_t>> srcs;
    std::unique_ptr<G> gen;
    std::vector<std::pair<int, int>> arglog, rlog;
    std::mutex logmx;
    // the outstanding non-blocking access
    std::unique_ptr<future<int>> fut;          // fnext
    std::unique_ptr<future<void>> cofut;       // cnext
    std::string coresult;                      // set by the consumer coroutine
    bool codone = false;
    bool pending = false;
    bool destroyed = false;
    std::vector<std::string> evs;

    static std::string classify(std::exception_ptr e) {
        try {
            std::rethrow_exception(e);
        } catch (const test_exc &x) {
            return "exc:" + std::to_string(x.code);
        } catch (const no_more_values_exception &) {
            return "nomore";
        } catch (const value_not_ready_exception &) {
            return "notready";
        } catch (const await_canceled_exception &) {
            return "end";
        } catch (...) {
            return "other";
        }
    }

    std::string pstr() {
        std::string r = "p=";
        for (std::size_t i = 0; i < srcs.size(); ++i) {
            if (i) r += ".";
            r += std::to_string(srcs[i]->pos.load());
            if (srcs[i]->ended.load()) r += "e";
        }
        if (srcs.empty()) r += "-";
        return r;
    }

    // iterator access (range-for style), generators without argument only
    std::optional<typename G::iterator> iter;
    std::string iter_next() {
        if constexpr (has_arg) {
            return "n/a";
        } else {
            try {
                if (!iter) iter.emplace(gen->begin()); else ++*iter;
                if (*iter == gen->end()) return "end";
                int v = **iter;
                return "v:" + std::to_string(v);
            } catch (...) {
                return classify(std::current_exception());
            }
        }
    }

    std::string sync_next(int arg_) {
        try {
            bool b;
            arg_t arg(arg_);
            if constexpr (has_arg) b = gen->next(arg); else b = gen->next();
            if (!b) return "end";
            int v = gen->value();
            return "v:" + std::to_string(v);
        } catch (...) {
            return classify(std::current_exception());
        }
    }

    static async<void> consumer(case_runner *me, int arg_) {
        try {
            bool b;
            arg_t arg(arg_);
            if constexpr (has_arg) b = co_await me->gen->next(arg); else b = co_await me->gen->next();
            if (!b) me->coresult = "end";
            else {
                int v = me->gen->value();
                me->coresult = "v:" + std::to_string(v);
            }
        } catch (...) {
            me->coresult = classify(std::current_exception());
        }
        me->codone = true;
    }

    // One long-running consumer coroutine performing a whole list of accesses without ever unwinding to the
    // thread's coro_queue in between (the aggregate is used from INSIDE a running coroutine: coro_queue active).
    // styles: n = blocking next()/value(), i = iterator, c = co_await next(), f = gen() + co_await has_value(),
    //         w = gen() + blocking operator bool / operator*
    std::vector<std::string> batch_results;
    static std::string fut_result(future<int> &f) {
        try {
            int v = f.value();
            return "v:" + std::to_string(v);
        } catch (...) {
            return classify(std::current_exception());
        }
    }
    static async<void> batch_consumer(case_runner *me, std::vector<std::pair<char, int>> accs) {
        for (auto &ac : accs) {
            arg_t arg(ac.second);
            std::string r;
            if (ac.first == 'n') r = me->sync_next(ac.second);
            else if (ac.first == 'i') r = me->iter_next();
            else {
                try {
                    if (ac.first == 'c') {
                        bool b;
                        if constexpr (has_arg) b = co_await me->gen->next(arg); else b = co_await me->gen->next();
                        if (!b) r = "end";
                        else {
                            int v = me->gen->value();
                            r = "v:" + std::to_string(v);
                        }
                    } else if (ac.first == 'f') {
                        if constexpr (has_arg) {
                            auto f = (*me->gen)(arg);
                            co_await f.has_value();
                            r = fut_result(f);
                        } else {
                            auto f = (*me->gen)();
                            co_await f.has_value();
                            r = fut_result(f);
                        }
                    } else {
                        if constexpr (has_arg) {
                            auto f = (*me->gen)(arg);
                            if (f) r = "v:" + std::to_string(*f); else r = fut_result(f);
                        } else {
                            auto f = (*me->gen)();
                            if (f) r = "v:" + std::to_string(*f); else r = fut_result(f);
                        }
                    }
                } catch (...) {
                    r = classify(std::current_exception());
                }
            }
            me->batch_results.push_back(r);
            me->coresult = r;
        }
        me->codone = true;
    }

    std::string fut_outcome() {
        // the future of gen(): value, exception, or dropped (= the generator ended)
        if (!fut->ready()) return "pending";
        try {
            int v = fut->value();
            return "v:" + std::to_string(v);
        } catch (...) {
            return classify(std::current_exception());
        }
    }

    void poll() {
        if (pending && fut && fut->ready()) {
            evs.push_back("got=" + fut_outcome());
            fut.reset();
            pending = false;
        }
        if (pending && cofut && codone) {
            evs.push_back("got=" + coresult);
            cofut.reset();
            pending = false;
        }
    }

    void flush_args() {
        std::lock_guard _(logmx);
        if (has_arg) {
            auto val = [](int v) { return v == -1 ? std::string("dead") : v == -2 ? std::string("moved") : std::to_string(v); };
            std::sort(arglog.begin(), arglog.end());
            for (auto &p : arglog) evs.push_back("a" + std::to_string(p.first) + "=" + val(p.second));
            for (auto &p : rlog) evs.push_back("r" + std::to_string(p.first) + "=" + val(p.second));
        }
        arglog.clear();
        rlog.clear();
    }

    void out(const std::string &head) {
        poll();
        flush_args();
        std::sort(evs.begin(), evs.end());
        vh::emit(head + " " + pstr(), evs);
    }

    // second thread: wait (bounded: 1 s per op over all its resolutions) until source k is parked on its
    // future, then resolve it
    std::chrono::steady_clock::time_point helper_deadline;
    void helper_begin() { helper_deadline = std::chrono::steady_clock::now() + std::chrono::seconds(1); }
    bool helper_resolve(int k) {
        for (;;) {
            if (srcs[k]->awaiting.load(std::memory_order_acquire) && srcs[k]->fut->has_awaiter())
                return srcs[k]->resolve();
            if (std::chrono::steady_clock::now() > helper_deadline) return false;
            std::this_thread::sleep_for(std::chrono::microseconds(50));
        }
    }

    bool valid_src(const std::vector<std::string> &w, std::size_t from) {
        for (std::size_t i = from; i < w.size(); ++i) {
            int k = atoi(w[i].c_str());
            if (k < 0 || (std::size_t)k >= srcs.size()) return false;
        }
        return true;
    }

    // a coroutine that drops the aggregate, as any consumer coroutine does when it is done with it
    static async<void> destroyer(case_runner *me) {
        me->gen.reset();
        co_return;
    }
    void drop(bool in_coro) {
        if (in_coro) {
            future<void> f([&] { return destroyer(this).start(); });
            f.wait();
        } else {
            gen.reset();
        }
    }

    void do_destroy(const std::vector<int> &helpers, bool in_coro = false) {
        std::atomic<bool> bad{false};
        if (helpers.empty()) {
            drop(in_coro);
        } else {
            helper_begin();
            std::thread th([&] {
                for (int k : helpers)
                    if (!helper_resolve(k)) bad = true;
            });
            drop(in_coro);
            th.join();
        }
        destroyed = true;
        // frames of all sources must be gone now; the futures they awaited are resolved
        for (auto &s : srcs) s->fut.reset();
        if (bad) evs.push_back("bad-helper");
    }

    // ---- thread stress: one resolver thread per asynchronous source, the consumer blocks on this thread ----
    std::atomic<bool> stop_resolvers{false};
    std::vector<std::thread> resolvers;
    void start_resolvers(unsigned seed) {
        stop_resolvers = false;
        for (std::size_t k = 0; k < srcs.size(); ++k) {
            bool is_async = false;
            for (auto &a : srcs[k]->pre) is_async |= a.kind == 'a';
            for (auto &a : srcs[k]->cyc) is_async |= a.kind == 'a';
            if (!is_async) continue;
            resolvers.emplace_back([this, k, seed] {
                unsigned x = seed * 2654435761u + (unsigned)k * 40503u + 1;
                while (!stop_resolvers.load(std::memory_order_acquire)) {
                    if (srcs[k]->awaiting.load(std::memory_order_acquire) && srcs[k]->fut->has_awaiter()) {
                        srcs[k]->resolve();
                    }
                    x = x * 1664525u + 1013904223u;
                    unsigned d = (x >> 24) & 63;
                    if (d < 24) std::this_thread::yield();
                    else if (d < 56) std::this_thread::sleep_for(std::chrono::microseconds(d - 20));
                    // else: spin
                }
            });
        }
    }
    void join_resolvers() {
        stop_resolvers.store(true, std::memory_order_release);
        for (auto &t : resolvers) t.join();
        resolvers.clear();
    }
    int produced(std::size_t k) {
        int p = srcs[k]->pos.load(), n = 0;
        for (int i = 0; i < p; ++i) {
            const act_t *a = (std::size_t)i < srcs[k]->pre.size() ? &srcs[k]->pre[i]
                             : &srcs[k]->cyc[((std::size_t)i - srcs[k]->pre.size()) % srcs[k]->cyc.size()];
            n += a->kind == 'y';
        }
        return n;
    }
    static async<void> stress_consumer(case_runner *me, int style, std::function<bool(const std::string &)> *acc) {
        for (;;) {
            std::string r;
            if (style == 4) r = me->sync_next(++me->stress_arg);
            else {
                try {
                    arg_t arg(++me->stress_arg);
                    bool b;
                    if constexpr (has_arg) b = co_await me->gen->next(arg); else b = co_await me->gen->next();
                    if (!b) r = "end";
                    else {
                        int v = me->gen->value();
                        r = "v:" + std::to_string(v);
                    }
                } catch (...) {
                    r = classify(std::current_exception());
                }
            }
            if (!(*acc)(r)) break;
        }
    }
    // prints schedule-independent facts only
    int stress_arg = 0;    // every access of the stress run carries another argument
    std::string do_stress(int limit, int style, unsigned seed) {
        g_argbad = 0;
        std::vector<int> consumed(srcs.size(), 0);
        int got = 0, dup = 0, order_bad = 0, unknown = 0;
        std::string result = "cut";
        start_resolvers(seed);
        auto account = [&](const std::string &r) -> bool {
            ++g_progress;
            if (r.rfind("v:", 0) == 0) {
                int v = atoi(r.c_str() + 2);
                int k = v / 1000 - 1, j = v % 1000;
                ++got;
                if (k < 0 || (std::size_t)k >= srcs.size()) { ++unknown; return got < limit; }
                if (j < consumed[k]) ++dup;
                else if (j > consumed[k]) ++order_bad;
                else ++consumed[k];
                return got < limit;
            }
            result = r;
            return false;
        };
        if (style >= 3) {
            // the consumer is a coroutine (3: co_await next(), 4: blocking next() inside the coroutine); it is
            // resumed on whatever thread completes a source
            std::function<bool(const std::string &)> acc = account;
            future<void> f([&] { return stress_consumer(this, style, &acc).start(); });
            f.wait();
        } else if (limit > 0) {
            for (;;) {
                std::string r;
                if (style == 0) r = sync_next(++stress_arg);
                else if (style == 1 && !has_arg) r = iter_next();
                else {
                    try {
                        arg_t arg(++stress_arg);
                        std::unique_ptr<future<int>> f;
                        if constexpr (has_arg) f.reset(new future<int>([&] { return (*gen)(arg); }));
                        else f.reset(new future<int>([&] { return (*gen)(); }));
                        f->sync();
                        fut = std::move(f);
                        r = fut_outcome();
                        fut.reset();
                    } catch (...) {
                        r = classify(std::current_exception());
                    }
                }
                if (!account(r)) break;
            }
        }
        join_resolvers();
        int lost = 0, notended = 0, threw = 0, excok = 0;
        for (std::size_t k = 0; k < srcs.size(); ++k) {
            int d = produced(k) - consumed[k];
            if (result == "cut") lost += d > 1 || d < 0; else lost += d != 0;
            bool e = srcs[k]->ended.load();
            notended += !e;
            int p = srcs[k]->pos.load();
            if (e && p > 0 && (std::size_t)p <= srcs[k]->pre.size() && srcs[k]->pre[p - 1].kind == 't') {
                ++threw;
                if (result == "exc:" + std::to_string(srcs[k]->pre[p - 1].code)) excok = 1;
            }
        }
        std::string res = result.rfind("exc:", 0) == 0 ? "exc" : result;
        std::ostringstream os;
        os << "stress result=" << res << " got=" << got << " dup=" << dup << " order_bad=" << order_bad
           << " unknown=" << unknown << " lost=" << lost << " argbad=" << g_argbad.load();
        if (result != "cut") os << " notended=" << notended << " threw=" << (threw ? 1 : 0) << " excok=" << excok;
        return os.str();
    }

    std::string account() {
        return "frames=" + std::to_string(g_frames.load()) + " guards=" + std::to_string(g_guards.load());
    }

    void run(std::istream &in, const std::vector<std::string> &hdr) {
        std::size_t n = (std::size_t)atoi(hdr[4].c_str());
        std::vector<G> list;
        bool ok = hdr.size() == 5 + n;
        for (std::size_t k = 0; ok && k < n; ++k) {
            auto s = std::make_unique<src_t>();
            s->idx = (int)k;
            s->arglog = &arglog;
            s->rlog = &rlog;
            s->logmx = &logmx;
            ok = parse_script(hdr[5 + k], *s);
            srcs.push_back(std::move(s));
        }
        if (ok) {
            for (std::size_t k = 0; k < n; ++k) list.push_back(source_body<G>(srcs[k].get(), frame_guard()));
            gen.reset(new G(generator_aggregator(std::move(list))));
        }
        std::string line;
        while (std::getline(in, line)) {
            auto w = vh::split(line);
            if (w.empty()) continue;
            ++g_progress;
            g_where = line;
            g_busy = true;
            const std::string &op = w[0];
            int arg_ = w.size() > 1 ? atoi(w[1].c_str()) : 0;
            if (op == "end") {
                if (ok && !destroyed) {
                    // settle: complete the outstanding access / in-flight sources from this thread
                    for (int round = 0; round < 1000; ++round) {
                        bool any = false;
                        for (auto &s : srcs)
                            if (s->resolve()) { any = true; break; }
                        poll();
                        if (!any) break;
                    }
                    if (pending) {
                        // cannot destroy legally: leak on purpose and say so
                        evs.push_back("unsettled");
                        (void)gen.release();
                        (void)fut.release();
                        (void)cofut.release();
                        for (auto &s : srcs) (void)s->fut.release();
                        g_busy = false;
                        out("end");
                        return;
                    }
                    do_destroy({});
                    g_busy = false;
                    out("end " + account());
                } else {
                    g_busy = false;
                    vh::emit("end", evs);
                }
                return;
            }
            if (!ok || destroyed) {
                g_busy = false;
                vh::emit("bad-op", evs);
                continue;
            }
            if (op == "next" && !pending) {
                out("next " + sync_next(arg_));
            } else if (op == "inext" && !pending && !has_arg) {
                out("inext " + iter_next());
            } else if (op == "bnext" && !pending && valid_src(w, 2)) {
                std::vector<int> ks;
                for (std::size_t i = 2; i < w.size(); ++i) ks.push_back(atoi(w[i].c_str()));
                std::atomic<bool> bad{false};
                helper_begin();
                std::thread th([&] {
                    for (int k : ks)
                        if (!helper_resolve(k)) bad = true;
                });
                std::string r = sync_next(arg_);
                th.join();
                if (bad) evs.push_back("bad-helper");
                out("bnext " + r);
            } else if (op == "fnext" && !pending) {
                try {
                    // the aggregate takes its copy of the argument while it runs inside this call
                    arg_t arg(arg_);
                    if constexpr (has_arg) fut.reset(new future<int>([&] { return (*gen)(arg); }));
                    else fut.reset(new future<int>([&] { return (*gen)(); }));
                    std::string r = fut_outcome();
                    if (r == "pending") pending = true; else fut.reset();
                    out("fnext " + r);
                } catch (...) {
                    fut.reset();
                    out("fnext " + classify(std::current_exception()));
                }
            } else if (op == "cnext" && !pending) {
                codone = false;
                coresult.clear();
                cofut.reset(new future<void>([&] { return consumer(this, arg_).start(); }));
                if (codone) {
                    cofut.reset();
                    out("cnext " + coresult);
                } else {
                    pending = true;
                    out("cnext pending");
                }
            } else if (op == "batch" && !pending && w.size() >= 2) {
                std::vector<std::pair<char, int>> accs;
                bool okb = true;
                for (std::size_t i = 1; i < w.size(); ++i) {
                    if (w[i].size() < 3 || w[i][1] != ':' || !strchr("nicfw", w[i][0]) || (w[i][0] == 'i' && has_arg)) okb = false;
                    else accs.push_back({w[i][0], atoi(w[i].c_str() + 2)});
                }
                if (!okb) {
                    vh::emit("bad-op", evs);
                } else {
                    codone = false;
                    coresult.clear();
                    batch_results.clear();
                    cofut.reset(new future<void>([&] { return batch_consumer(this, accs).start(); }));
                    std::string head = "batch";
                    for (auto &r : batch_results) head += " " + r;
                    if (codone) {
                        cofut.reset();
                    } else {
                        pending = true;
                        head += " pending";
                    }
                    out(head);
                }
            } else if ((op == "res" || op == "tres") && w.size() == 2 && valid_src(w, 1)) {
                int k = atoi(w[1].c_str());
                bool r;
                if (op == "res") r = srcs[k]->resolve();
                else {
                    std::thread th([&] { r = srcs[k]->resolve(); });
                    th.join();
                }
                out(r ? op : std::string("bad-op"));
            } else if (op == "stress" && !pending && w.size() == 4) {
                std::string r = do_stress(atoi(w[1].c_str()), atoi(w[2].c_str()), (unsigned)atoi(w[3].c_str()));
                flush_args();
                evs.clear();
                vh::emit(r, evs);
            } else if (op == "sdestroy" && !pending && w.size() == 2) {
                // destruction while the resolver threads are running: the destructor waits for in-flight sources
                start_resolvers((unsigned)atoi(w[1].c_str()));
                gen.reset();
                join_resolvers();
                destroyed = true;
                for (auto &s : srcs) s->fut.reset();
                flush_args();
                evs.clear();
                vh::emit("sdestroy " + account(), evs);
            } else if ((op == "destroy" || op == "cdestroy") && !pending && valid_src(w, 1)) {
                std::vector<int> ks;
                for (std::size_t i = 1; i < w.size(); ++i) ks.push_back(atoi(w[i].c_str()));
                do_destroy(ks, op == "cdestroy");
                out(op + " " + account());
            } else {
                vh::emit("bad-op", evs);
            }
            g_busy = false;
        }
    }
};

// An operation that does not return (and makes no progress) for 3 s is reported as `<op> hang`, a library assertion
// (abort) inside an operation as `<op> abort`.  The thread cannot be recovered, so the rest of the input is skipped
// (only the `case <id>` headers are echoed, which the framework sees as missing output) and the process exits at
// once; the oracle turns the `hang` / `abort` line into a verdict.
static void bail(const char *what) {
    auto w = vh::split(g_where);
    std::cout << (w.empty() ? std::string("?") : w[0]) << " " << what << "\n";
    std::string line;
    while (std::getline(std::cin, line)) {
        auto w2 = vh::split(line);
        if (w2.size() >= 2 && w2[0] == "case") std::cout << "case " << w2[1] << "\n";
    }
    std::cout.flush();
    _exit(0);
}

static void on_abort(int) {
    static std::atomic<bool> once{false};
    if (once.exchange(true) || !g_busy.load()) _exit(134);
    fprintf(stderr, "ABORT inside operation `%s`\n", g_where.c_str());
    bail("abort");
}

static void watchdog() {
    long last = -1;
    int same = 0;
    for (;;) {
        std::this_thread::sleep_for(std::chrono::milliseconds(100));
        long p = g_progress.load();
        if (g_busy.load() && p == last) {
            if (++same >= 30) {
                fprintf(stderr, "HANG: operation `%s` did not return within 3 s\n", g_where.c_str());
                fflush(stderr);
                bail("hang");
            }
        } else {
            same = 0;
            last = p;
        }
    }
}

int main() {
    signal(SIGABRT, on_abort);
    std::thread(watchdog).detach();
    std::string line;
    while (std::getline(std::cin, line)) {
        auto w = vh::split(line);
        if (w.size() < 5 || w[0] != "case" || w[2] != "agg") continue;
        std::cout << "case " << w[1] << "\n";
        if (w[3] == "a") {
            case_runner<generator<int, int>> r;
            r.run(std::cin, w);
        } else if (w[3] == "r") {
            case_runner<generator<int, targ>> r;
            r.run(std::cin, w);
        } else {
            case_runner<generator<int>> r;
            r.run(std::cin, w);
        }
        std::cout.flush();
    }
    return 0;
}
