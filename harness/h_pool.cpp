// T-harness for cocls::thread_pool (C11): the pool's workers and the client threads are real threads under the baton
// scheduler. Only std::mutex / std::condition_variable / std::thread are interposed (std::atomic stays real: the
// future/promise internals are C01/C02's subject), so the scheduling points are exactly: the end of every critical
// section on the pool mutex, a blocking condition wait, a join, the end of a thread.
//
//   case <id> pool <nworkers> [cvy] [B]  B: a second pool instance (one worker = thread <nworkers>, clients start one later); nothing
//                                        is submitted to it, it is stopped / deleted by `stopB` / `destroyB` ops and the prims b / B
//   case <id> pool <nworkers> [cvy]     cvy: scheduling point at the entry of the pool's _cond.wait (predicate evaluated, mutex held)
//   c <op>...              one line per client thread (threads nworkers, nworkers+1, ...)
//   sched <tid>...
//   end
//
//   op   = ax<n>[:<prims>]  a coroutine does `co_await pool(awaitable)` on a pending operation (slot n), scheduling point right after
//                           the registration; res<n> (or the prim v<n>) resolves it from another thread: that thread submits the coroutine
//   op   = <kind>[:<prims>] | stop | destroy | curq | cura | curc (the current:: API from a thread that is no worker)
//          kind fn may be spelled fn[V][L][T]: function returning void / large closure / the function throws (run()'s catch branch)
//          kind det may be spelled detL / detF / detG: large (heap) closure / small closure in a caller-side cocls::function / large one that way
//   kind = co  (detached coroutine doing `co_await pool`)          fn  (`pool.run(fn)` -> future)
//          det (`pool.run_detached(fn)`)                           rh  (`pool.resume(suspend_point)` of a parked coroutine)
//          ra  (`pool.run(async<int>)` -> future)                  aw  (coroutine doing `co_await pool(future)`, future resolved by the client)
//   prims (what the unit of work does when it runs): s = pool.stop()   f = nested pool.run(fn)   d = nested run_detached
//          D = delete the pool      x = the closure's destructor deletes the pool (det only; after the job ran)
//          r = when the job is cancelled, its handler / destructor / watcher calls back into the pool (is_stopped())
//          v<n> = resolve the operation awaited in slot n (see ax<n>) as soon as its awaiter is registered
//          q = thread_pool::current::is_stopped()   a = thread_pool::current::any_enqueued()
//          c = co_await thread_pool::current() (coroutine kinds co/rh/aw): the rest of the body is re-submitted to the pool of this worker
//          w<n> = block until event n has been signalled (a job waiting for another job)      e<n> = signal event n
//
// Output: the shim's op lines (`s <tid> unlock mx`, `cv-block cv`, `join[-block] t<i>`, `fin`) interleaved with the events
//   submit j<k> <kind> t<tid> exit=<0|1>      run j<k> t<tid> cur=<0|1>      cancel j<k> t<tid>      value j<k> t<tid>
//   flag-set f<n> t<tid>      (a blocking wait is the op line `s <tid> flag-block f<n>`)
//   stop-begin t<tid> / stop-end t<tid> / destroy-begin t<tid> / destroyed t<tid>
// and a final summary (`quiescent` first when the run ended with blocked threads).
#include "shim/verif_shim.h"
#define mutex verif_mutex
#define condition_variable verif_condition_variable
#define thread verif_thread
#include <cocls/future.h>
#include <cocls/async.h>
#include <cocls/thread_pool.h>
#undef mutex
#undef condition_variable
#undef thread
#include <sys/wait.h>
#include <array>

using namespace cocls;
using vshim::S;

static std::vector<std::string> split(const std::string &s) {
    std::vector<std::string> o;
    std::istringstream is(s);
    std::string t;
    while (is >> t) o.push_back(t);
    return o;
}

struct Scn;

struct JobRec {
    int id = 0;
    std::string kind;
    std::string prims;
    int ran = 0, cancelled = 0, value = 0;
    int ran_on = -1;
    std::unique_ptr<future<int>> fut;   // fn / ra: the returned future; aw: the awaited future
    std::unique_ptr<future<void>> futv; // fn spelled with V: run(fn) of a function returning void
    std::coroutine_handle<> h;          // rh: the parked coroutine
    struct Watch : awaiter {
        Scn *sc = nullptr;
        int j = 0;
        static suspend_point<void> fire(awaiter *me, void *) noexcept;
    } watch;
};

struct job_exc : std::exception {   // what a throwing function given to run(fn) throws
    const char *what() const noexcept override { return "job_exc"; }
};

struct grab {
    std::coroutine_handle<> *out;
    bool await_ready() const noexcept { return false; }
    void await_suspend(std::coroutine_handle<> h) noexcept { *out = h; }
    void await_resume() const noexcept {}
};

struct Scn {
    thread_pool *pool = nullptr;
    thread_pool *poolB = nullptr;   // optional second instance (one worker, never a submission): only stopped / destroyed
    int nw = 0;
    std::deque<JobRec> jobs;
    bool flags[20] = {};   // 0..9: events of the scenario; 10+n: "the awaiter of slot n is registered"
    // co_await pool(awaitable) on an operation that another thread resolves
    struct Slot {
        std::unique_ptr<future<int>> fut;
        promise<int> prom;
        std::string prims;
        int job = -1;
        bool used = false;
    } slots[10];
    int guards_live = 0;

    static std::string tid() { return "t" + std::to_string(vshim::self_id); }
    void log(const std::string &s) { S().log_line(s); }

    void on_run(int j) {
        jobs[j].ran++;
        jobs[j].ran_on = vshim::self_id;
        log("run j" + std::to_string(j) + " " + tid() + " cur=" + (pool && is_current(*pool) ? "1" : "0"));
    }
    void on_cancel(int j) {
        jobs[j].cancelled++;
        log("cancel j" + std::to_string(j) + " " + tid());
        // 'r': the cancelled party reacts by asking the pool what happened (one more critical section on the pool mutex)
        if (pool && jobs[j].prims.find('r') != std::string::npos) (void)pool->is_stopped();
    }
    // "value" | "exc" | "broken" | "other" for a ready future
    std::string fut_outcome(JobRec &jb) {
        try {
            if (jb.futv) jb.futv->value(); else jb.fut->value();
            return "value";
        } catch (const await_canceled_exception &) {
            return "broken";
        } catch (const job_exc &) {
            return "exc";
        } catch (...) {
            return "other";
        }
    }
    void on_future(int j) {
        std::string o = fut_outcome(jobs[j]);
        if (o == "value" || o == "exc") {
            jobs[j].value++;
            log(o + " j" + std::to_string(j) + " " + tid());
        } else if (o == "broken") {
            on_cancel(j);
        } else {
            log("other j" + std::to_string(j) + " " + tid());
        }
    }
    void arm(int j) {
        auto &w = jobs[j].watch;
        w.sc = this;
        w.j = j;
        w.VN_awaiter_set_resume_fn(&JobRec::Watch::fire);
        bool waiting = jobs[j].futv ? jobs[j].futv->subscribe(&w) : jobs[j].fut->subscribe(&w);
        if (!waiting) on_future(j);
    }

    void do_stop() {
        log("stop-begin " + tid());
        pool->stop();
        log("stop-end " + tid());
    }
    void do_destroy() {
        if (!pool) { log("destroy-skip " + tid()); return; }
        log("destroy-begin " + tid());
        thread_pool *p = pool;
        delete p;
        pool = nullptr;
        log("destroyed " + tid());
    }
    void do_stopB() {
        log("stopB-begin " + tid());
        poolB->stop();
        log("stopB-end " + tid());
    }
    void do_destroyB() {
        if (!poolB) { log("destroyB-skip " + tid()); return; }
        log("destroyB-begin " + tid());
        thread_pool *p = poolB;
        delete p;
        poolB = nullptr;
        log("destroyedB " + tid());
    }
    void do_wait(int f) {
        if (!flags[f]) {
            S().log_op("flag-block f" + std::to_string(f));
            S().block([this, f] { return flags[f]; });
        }
    }
    static constexpr std::size_t npos = std::string::npos;
    // runs the prims of `prims` up to the first 'c' (co_await thread_pool::current(), only a coroutine can do that);
    // returns its index, or npos when the string is exhausted
    std::size_t do_prims_from(const std::string &prims) {
        for (std::size_t i = 0; i < prims.size(); i++) {
            char c = prims[i];
            switch (c) {
                case 'c': return i;
                case 's': do_stop(); break;
                case 'f': submit("fn", ""); break;
                case 'd': submit("det", ""); break;
                case 'D': do_destroy(); break;
                case 'b': do_stopB(); break;
                case 'B': do_destroyB(); break;
                case 'v': if (i + 1 < prims.size()) do_resolve((prims[++i] - '0') % 10); break;
                case 'q': do_cur_stopped(); break;
                case 'a': do_cur_enq(); break;
                case 'w': if (i + 1 < prims.size()) do_wait((prims[++i] - '0') % 10); break;
                case 'e':
                    if (i + 1 < prims.size()) {
                        int f = (prims[++i] - '0') % 10;
                        flags[f] = true;
                        log("flag-set f" + std::to_string(f) + " " + tid());
                    }
                    break;
                default: break;
            }
        }
        return npos;
    }
    // body of a job that is a plain function: 'c' cannot be expressed there and is skipped
    void do_prims(int j) {
        std::string rest = jobs[j].prims;   // copy: the deque may grow
        for (;;) {
            std::size_t p = do_prims_from(rest);
            if (p == npos) break;
            rest = rest.substr(p + 1);
        }
    }
    // the "pool of this worker thread" API
    void do_cur_stopped() {
        bool r = thread_pool::current::is_stopped();
        log("cur-stopped " + tid() + " " + (r ? "1" : "0"));
    }
    void do_cur_enq() {
        bool r = thread_pool::current::any_enqueued();
        log("cur-enq " + tid() + " " + (r ? "1" : "0"));
    }
    // co_await thread_pool::current(): when the thread is a worker of a pool that is not stopped, the rest of the body
    // becomes a new unit of work (a `co_await pool` submission) of that pool; otherwise the coroutine just goes on
    struct CurProbe {
        Scn *sc;
        int *j;
        const std::string *rest;    // (no std::string member: g++ 12 relocates awaiter temporaries of a coroutine bitwise)
        thread_pool::current::current_awaiter a = thread_pool::current().operator co_await();
        bool ready = false;
        bool await_ready() {
            ready = a.await_ready();
            if (ready) { sc->log("cur-inline " + tid()); return true; }
            int j2 = (int)sc->jobs.size();
            sc->jobs.emplace_back();
            sc->jobs[j2].id = j2;
            sc->jobs[j2].kind = "co";
            bool react = *j >= 0 && sc->jobs[*j].prims.find('r') != npos;
            sc->jobs[j2].prims = *rest + (react && rest->find('r') == npos ? "r" : "");
            sc->log("submit j" + std::to_string(j2) + " co " + tid() + " exit=" + (sc->pool && sc->pool->VN_thread_pool__exit ? "1" : "0"));
            *j = j2;
            return false;
        }
        void await_suspend(std::coroutine_handle<> h) { a.await_suspend(h); }
        void await_resume() {
            a.await_resume();   // throws await_canceled_exception when the re-submission was cancelled
            if (!ready) sc->on_run(*j);
        }
    };
#define COCLS_VERIF_CORO_BODY(j)                                         \
    {                                                                    \
        std::string rest_ = jobs[j].prims;                               \
        for (;;) {                                                       \
            std::size_t p_ = do_prims_from(rest_);                       \
            if (p_ == npos) break;                                       \
            rest_ = rest_.substr(p_ + 1);                                \
            CurProbe probe_{this, &j, &rest_};                           \
            co_await probe_;                                             \
        }                                                                \
    }
    async<void> cur_client() {
        int j = -1;
        std::string none;
        try {
            CurProbe probe{this, &j, &none};
            co_await probe;
        } catch (const await_canceled_exception &) {
            if (j >= 0) on_cancel(j);
        }
    }

    // guard living in a run_detached closure: the closure destroyed without having run = observable cancellation
    struct Guard {
        Scn *sc;
        int j;
        bool fired = false;
        bool kill = false;   // 'x': the destructor of the closure that ran deletes the pool
        Scn *cnt;            // every instance (also a moved-from one) is counted: the container must destroy each of them
        Guard(Scn *s, int jj, bool k) : sc(s), j(jj), kill(k), cnt(s) { ++cnt->guards_live; }
        Guard(Guard &&o) noexcept : sc(std::exchange(o.sc, nullptr)), j(o.j), fired(o.fired), kill(o.kill), cnt(o.cnt) { ++cnt->guards_live; }
        Guard(const Guard &) = delete;
        ~Guard() {
            --cnt->guards_live;
            if (!sc) return;
            if (!fired) sc->on_cancel(j);
            else if (kill) sc->do_destroy();
        }
    };

    async<void> co_job(int j) {
        try {
            co_await *pool;
            on_run(j);
            COCLS_VERIF_CORO_BODY(j)
        } catch (const await_canceled_exception &) {
            on_cancel(j);
        }
    }
    async<void> rh_job(int j) {
        try {
            co_await grab{&jobs[j].h};
            on_run(j);
            COCLS_VERIF_CORO_BODY(j)
        } catch (const await_canceled_exception &) {
            on_cancel(j);
        }
    }
    async<int> ra_job(int j) {
        on_run(j);
        do_prims(j);
        co_return 100 + j;
    }
    // awaiter of the awaited future with a scheduling point right after its registration (still inside await_suspend of
    // the pool's enqueue_awaiter): a resolver on another thread may fire exactly there
    struct RacedAwt {
        co_awaiter<future<int>> inner;
        Scn *sc;
        int n;
        bool await_ready() { return inner.await_ready(); }
        bool await_suspend(awaiter::resume_fn fn, void *ctx) {
            bool r = inner.await_suspend(fn, ctx);
            sc->flags[10 + n] = true;
            S().log_op("aw-reg a" + std::to_string(n));
            S().yield();
            return r;
        }
        int &await_resume() { return inner.await_resume(); }
    };
    async<void> ax_job(int n) {
        int j = -1;
        try {
            RacedAwt awt{{*slots[n].fut}, this, n};
            int v = co_await (*pool)(awt);
            (void)v;
            j = slots[n].job;
            on_run(j);
            COCLS_VERIF_CORO_BODY(j)
        } catch (const await_canceled_exception &) {
            if (j >= 0) on_cancel(j);
        }
    }
    void do_park(int n, const std::string &prims) {
        slots[n].fut.reset(new future<int>());
        slots[n].prom = slots[n].fut->get_promise();
        slots[n].prims = prims;
        log("park a" + std::to_string(n) + " " + tid());
        ax_job(n).detach();
    }
    // resolve the operation of slot n as soon as its awaiter is registered: the resolving thread hands the coroutine to the pool
    void do_resolve(int n) {
        do_wait(10 + n);
        if (slots[n].used) return;
        slots[n].used = true;
        int j = (int)jobs.size();
        jobs.emplace_back();
        jobs[j].id = j;
        jobs[j].kind = "aw";
        jobs[j].prims = slots[n].prims;
        slots[n].job = j;
        log("submit j" + std::to_string(j) + " aw " + tid() + " exit=" + (pool->VN_thread_pool__exit ? "1" : "0"));
        slots[n].prom(5);
    }
    async<void> aw_job(int j) {
        try {
            int v = co_await (*pool)(*jobs[j].fut);
            (void)v;
            on_run(j);
            COCLS_VERIF_CORO_BODY(j)
        } catch (const await_canceled_exception &) {
            on_cancel(j);
        }
    }

    // live instances of a throw-away target used to exercise function::operator= (the old target must die exactly once)
    struct Counted {
        int *live;
        explicit Counted(int *l) : live(l) { ++*live; }
        Counted(Counted &&o) noexcept : live(o.live) { ++*live; }
        Counted(const Counted &) = delete;
        ~Counted() { --*live; }
        void operator()() {}
    };
    // run_detached through a caller-side cocls::function (the pool's own closure container type; the converting constructor
    // from another storage size, function.h l.82/l.190, does not compile when instantiated): default construction,
    // operator!, operator= (twice: the first target is destroyed), operator bool, operator==, then moved into the pool
    template <typename Fn>
    void run_detached_via(Fn &&closure) {
        int live = 0;
        thread_pool::q_item f;
        bool e0 = !f;
        f = thread_pool::q_item(Counted(&live));
        bool l1 = live == 1;
        f = thread_pool::q_item(std::forward<Fn>(closure));
        bool ok = e0 && l1 && live == 0 && bool(f) && !(f == nullptr);
        if (!ok) log("function-bad " + tid());
        pool->run_detached(std::move(f));
        if (f) log("function-bad-moved " + tid());
    }

    int submit(const std::string &kind_in, const std::string &prims) {
        // detL / detF / detG: run_detached with a closure that does not fit the small-object space of the pool's closure
        // container (heap) / a small closure handed over in a caller-side cocls::function / a large one handed over that way
        std::string kind = kind_in.substr(0, 3) == "det" ? "det" : kind_in.substr(0, 2) == "fn" ? "fn" : kind_in;
        std::string fnflags = kind == "fn" ? kind_in.substr(2) : "";
        char variant = kind_in.size() > 3 && kind == "det" ? kind_in[3] : 'S';
        int j = (int)jobs.size();
        jobs.emplace_back();
        jobs[j].id = j;
        jobs[j].kind = kind;
        jobs[j].prims = prims;
        log("submit j" + std::to_string(j) + " " + kind + " " + tid() + " exit=" + (pool->VN_thread_pool__exit ? "1" : "0"));
        if (kind == "co") {
            co_job(j).detach();
        } else if (kind == "fn") {
            // spellings: V = function returning void, L = large closure (heap in the pool's container), T = the function throws
            bool is_void = fnflags.find('V') != npos, large = fnflags.find('L') != npos, throws = fnflags.find('T') != npos;
            auto body = [this, j, throws] {
                on_run(j);
                do_prims(j);
                if (throws) {
                    log("throw j" + std::to_string(j) + " " + tid());
                    throw job_exc();
                }
            };
            if (is_void && large) jobs[j].futv.reset(new future<void>(pool->run([body, pad = std::array<char, 100>()] { (void)pad; body(); })));
            else if (is_void) jobs[j].futv.reset(new future<void>(pool->run([body] { body(); })));
            else if (large) jobs[j].fut.reset(new future<int>(pool->run([body, j, pad = std::array<char, 100>()] { (void)pad; body(); return 100 + j; })));
            else jobs[j].fut.reset(new future<int>(pool->run([body, j] { body(); return 100 + j; })));
            arm(j);
        } else if (kind == "det") {
            bool kill = prims.find('x') != std::string::npos;
            if (variant == 'L') {
                pool->run_detached([this, j, g = Guard(this, j, kill), pad = std::array<char, 100>()]() mutable {
                    (void)pad;
                    g.fired = true;
                    on_run(j);
                    do_prims(j);
                });
            } else if (variant == 'F') {
                run_detached_via([this, j, g = Guard(this, j, kill)]() mutable {
                    g.fired = true;
                    on_run(j);
                    do_prims(j);
                });
            } else if (variant == 'G') {
                run_detached_via([this, j, g = Guard(this, j, kill), pad = std::array<char, 100>()]() mutable {
                    (void)pad;
                    g.fired = true;
                    on_run(j);
                    do_prims(j);
                });
            } else {
                pool->run_detached([this, j, g = Guard(this, j, kill)]() mutable {
                    g.fired = true;
                    on_run(j);
                    do_prims(j);
                });
            }
        } else if (kind == "rh") {
            rh_job(j).detach();
            pool->resume(suspend_point<void>(jobs[j].h));
        } else if (kind == "ra") {
            jobs[j].fut.reset(new future<int>(pool->run(ra_job(j))));
            arm(j);
        } else if (kind == "aw") {
            jobs[j].fut.reset(new future<int>());
            promise<int> p = jobs[j].fut->get_promise();
            aw_job(j).detach();
            p(5);
        }
        return j;
    }

    void client(const std::vector<std::string> &ops) {
        for (auto &op : ops) {
            if (op == "stop") do_stop();
            else if (op == "destroy") do_destroy();
            else if (op.size() == 4 && op.substr(0, 3) == "res") do_resolve((op[3] - '0') % 10);
            else if (op.substr(0, 2) == "ax" && op.size() >= 3) {
                auto c = op.find(':');
                do_park((op[2] - '0') % 10, c == std::string::npos ? "" : op.substr(c + 1));
            }
            else if (op == "curq") do_cur_stopped();
            else if (op == "cura") do_cur_enq();
            else if (op == "curc") cur_client().detach();
            else if (op == "stopB") do_stopB();
            else if (op == "destroyB") do_destroyB();
            else {
                auto c = op.find(':');
                if (c == std::string::npos) submit(op, "");
                else submit(op.substr(0, c), op.substr(c + 1));
            }
        }
    }

    void summary() {
        for (auto &jb : jobs) {
            std::string fs = "none";
            if ((jb.fut || jb.futv) && jb.kind != "aw") {
                bool ready = jb.futv ? jb.futv->ready() : jb.fut->ready();
                fs = ready ? fut_outcome(jb) : "pending";
            }
            log("job j" + std::to_string(jb.id) + " " + jb.kind + " ran=" + std::to_string(jb.ran) + " cancelled=" + std::to_string(jb.cancelled) +
                " value=" + std::to_string(jb.value) + " on=" + (jb.ran_on < 0 ? std::string("-") : "t" + std::to_string(jb.ran_on)) + " fut=" + fs);
        }
        if (pool) log("pool exit=" + std::string(pool->VN_thread_pool__exit ? "1" : "0") + " queue=" + std::to_string(pool->VN_thread_pool__queue.size()) +
                      " threads=" + std::to_string(pool->VN_thread_pool__threads.size()));
        else log("pool destroyed");
        if (has_b) {
            if (poolB) log("poolB exit=" + std::string(poolB->VN_thread_pool__exit ? "1" : "0") + " threads=" + std::to_string(poolB->VN_thread_pool__threads.size()));
            else log("poolB destroyed");
        }
    }

    bool cv_yield = false;
    bool has_b = false;
    void run(int nworkers, const std::vector<std::vector<std::string>> &clients, const std::vector<int> &sched) {
        nw = nworkers;
        pool = new thread_pool(nworkers);
        S().name_obj(&pool->VN_thread_pool__mx, "mx");
        S().name_obj(&pool->VN_thread_pool__cond, "cv");
        if (cv_yield) S().yield_on_cv_entry = &pool->VN_thread_pool__cond;
        if (has_b) {
            poolB = new thread_pool(1);
            S().name_obj(&poolB->VN_thread_pool__mx, "mxB");
            S().name_obj(&poolB->VN_thread_pool__cond, "cvB");
        }
        for (auto &c : clients) {
            std::vector<std::string> ops(c.begin() + 1, c.end());
            S().spawn([this, ops] { client(ops); });
        }
        bool ok = S().run(sched);
        if (!ok) {
            log("quiescent");
            std::string st = "threads";
            for (std::size_t i = 0; i < S().ts.size(); i++)
                st += " " + std::to_string(i) + "=" + (S().ts[i].st == vshim::Sched::FINISHED ? "F" : "B");
            log(st);
        }
        summary();
        if (ok) log("closures live=" + std::to_string(guards_live));   // every run_detached closure object has been destroyed
    }
};

suspend_point<void> JobRec::Watch::fire(awaiter *me, void *) noexcept {
    auto w = static_cast<Watch *>(me);
    w->sc->on_future(w->j);
    return {};
}

static void run_case(const std::vector<std::string> &hdr, const std::vector<std::vector<std::string>> &lines) {
    std::vector<std::vector<std::string>> clients;
    std::vector<int> sched;
    for (auto &w : lines) {
        if (w[0] == "c") clients.push_back(w);
        else if (w[0] == "sched") for (std::size_t i = 1; i < w.size(); i++) sched.push_back(atoi(w[i].c_str()));
    }
    int nw = hdr.size() > 3 ? atoi(hdr[3].c_str()) : 1;
    if (nw < 1) nw = 1;
    Scn *s = new Scn;
    s->cv_yield = std::find(hdr.begin(), hdr.end(), "cvy") != hdr.end();
    s->has_b = std::find(hdr.begin(), hdr.end(), "B") != hdr.end();
    s->run(nw, clients, sched);
    S().log_line("end");
    std::cout.flush();
    _exit(0);   // pending futures / parked threads are abandoned on purpose
}

int main() {
    std::string line;
    std::vector<std::string> hdr;
    std::vector<std::vector<std::string>> lines;
    while (std::getline(std::cin, line)) {
        auto w = split(line);
        if (w.empty()) continue;
        if (w[0] == "case") { hdr = w; lines.clear(); continue; }
        if (w[0] != "end") { lines.push_back(w); continue; }
        std::cout << "case " << hdr[1] << std::endl;
        pid_t pid = fork();
        if (pid == 0) {
            alarm(20);
            run_case(hdr, lines);
            std::cout.flush();
            _exit(0);
        }
        int st = 0;
        waitpid(pid, &st, 0);
        if (!(WIFEXITED(st) && WEXITSTATUS(st) == 0)) {
            if (WIFEXITED(st) && WEXITSTATUS(st) == 3) { /* assertion already reported */ }
            else {
                std::cout << "crash " << (WIFSIGNALED(st) ? "signal " + std::to_string(WTERMSIG(st)) : "exit " + std::to_string(WEXITSTATUS(st))) << "\n";
                std::cout << "end" << std::endl;
            }
        }
    }
    return 0;
}
