// S-harness for cocls::scheduler (C12).
//
// The real scheduler.h is compiled with three standard classes interposed (no source hooks):
//   std::mutex              -> std::verif_mutex               (owner tracking: a relock by the owner is reported
//                                                              as a self-deadlock instead of hanging)
//   std::condition_variable -> std::verif_condition_variable  (counts notify_all; wait_until advances the virtual clock)
//   std::chrono::system_clock -> std::chrono::verif_system_clock (virtual time, 1 tick = 1 ms)
//
// Case kinds (grammar shared with lean/Drivers/C12.lean):
//   case <n> man                 manual mode: sleep/sched/ge/drain/cancel/cancelx/remove/dump/destroy with explicit ticks,
//                                plus the interval() generator: ivl <dur> <now> / next <now> / stop (std::stop_token)
//   case <n> run <t0>            single-thread start(awaitable) under virtual time, scripted sleeper coroutines (co ... / go)
//   case <n> thr [v] | pool <k> [v]  worker in a real std::thread / on a real thread_pool, virtual clock driven by `adv <t>`;
//                                v selects the entry point: scheduler(thread&) / start(thread&) / start_thread(), scheduler(pool&) / start(pool&)
//                                `cbs <tp> <id> s <tp2> <id2>` / `cbs <tp> <id> c <id2>`: a sleep whose awaiter is a callback
//                                (make_promise) that calls the scheduler again - sleep_until(tp2, id2) / cancel(id2) - in
//                                the thread that resolves it (the worker, or the caller of cancel/remove); reported as
//                                `cbs#k=s` / `cbc#k=<result>`, the sleep it created as `cs#k=<outcome>`
//   case <n> thrstep | poolstep <k>  same, but every acquisition of the scheduler mutex by the worker is a stall point:
//                                `w` lets the worker run one lock region, public calls run in between, `free` ends the
//                                stepping; every line reports the worker's state (w=lock | parked:<deadline> | gone)
//   case <n> stoprace <tp>       ~scheduler() forced between the worker's stop check and its wait_until
#include <algorithm>
#include <atomic>
#include <cassert>
#include <chrono>
#include <condition_variable>
#include <coroutine>
#include <cstdint>
#include <deque>
#include <functional>
#include <iostream>
#include <limits>
#include <map>
#include <memory>
#include <mutex>
#include <optional>
#include <queue>
#include <sstream>
#include <stop_token>
#include <string>
#include <thread>
#include <unistd.h>
#include <variant>
#include <vector>

#include "common.h"

namespace vt {
inline std::atomic<long long> now_ticks{0};      // virtual clock (ms)
inline std::atomic<unsigned long> notifies{0};   // notify_all / notify_one calls on the watched condition variable
inline thread_local unsigned long my_notifies = 0;   // ... those made by the calling thread (a completion callback that
                                                 // re-enters the scheduler on the worker's thread may notify concurrently)
inline const void *watch_cv = nullptr;           // the scheduler's `_cond` (nullptr: count every interposed cv)
inline bool single_thread = true;      // wait_until advances the clock instead of blocking
inline std::vector<std::string> *trace = nullptr;   // wait_until events (run mode)
inline std::atomic<long long> reads{0};   // clock reads since the clock last advanced / the case started
inline long long spins = 0;            // consecutive waits that did not advance the clock
inline long long horizon = 0;          // run mode: a wait beyond this tick means "blocked forever"

[[noreturn]] inline void fatal(const char *what, int rc) {
    std::cout << "FATAL " << what << std::endl;
    std::cerr << "verif: " << what << std::endl;
    _exit(rc);
}

// ---- multi-thread virtual time (thread / thread-pool mode): real threads, virtual clock.
// A thread that waits on an interposed condition variable registers here; the controlling (main) thread acts only
// when every worker thread is parked (`quiesce`), and advances the clock from one wait deadline to the next.
constexpr long long never = std::numeric_limits<long long>::max();
struct waiter {
    const void *cv;
    long long deadline;
    bool woken = false;
};
inline std::mutex G;
inline std::condition_variable Gcv;
inline std::vector<waiter *> waiters;
inline int blocked = 0;      // parked worker threads (a notified / timed-out waiter stops counting at once)
inline int nthreads = 0;     // worker threads of the case
// ---- step mode: every acquisition of the scheduler mutex by a worker thread is a stall point; the controlling thread
// lets the worker run one lock region at a time (`w`) and runs public calls in between
inline bool step_mode = false;
inline int tokens = 0;                   // lock acquisitions the worker may still perform
inline bool stalled_lock = false;        // a worker thread is parked in front of the scheduler mutex
inline const void *skip_mx = nullptr;    // the thread pool's own mutex: not a stall point
inline thread_local bool controller = false;   // main thread / destroyer helper: never stalled
inline void lock_stall_point(const void *mx) {
    if (controller || mx == skip_mx) return;
    std::unique_lock g(G);
    if (!step_mode) return;
    stalled_lock = true;
    ++blocked;
    Gcv.notify_all();
    Gcv.wait(g, [] { return tokens > 0 || !step_mode; });   // the releaser has already done --blocked
    if (tokens > 0) --tokens;
    stalled_lock = false;
}
inline bool stall_clock = false;         // a worker thread that reads the clock parks until released (stop-race scenario)
inline bool stalled = false;             // ... and one is parked there
inline std::thread::id main_thread;
inline std::atomic<int> lock_waiters{0}; // threads blocked in verif_mutex::lock
inline void stall_point() {
    std::unique_lock g(G);
    if (!stall_clock || std::this_thread::get_id() == main_thread) return;
    stalled = true;
    ++blocked;
    Gcv.notify_all();
    Gcv.wait(g, [] { return !stall_clock; });
    stalled = false;
}

inline void quiesce() {
    std::unique_lock g(G);
    if (!Gcv.wait_for(g, std::chrono::seconds(30), [] { return blocked == nthreads; }))
        fatal("hang: the worker threads did not become idle", 43);
}
// wake the waiters selected by `sel`; G must be held
template <typename Sel>
inline void wake_lk(Sel sel, bool only_one) {
    for (waiter *w : waiters) {
        if (!w->woken && sel(*w)) {
            w->woken = true;
            --blocked;
            if (only_one) break;
        }
    }
    Gcv.notify_all();
}
// earliest deadline a parked thread waits for (never = nobody waits with a deadline); G must be held
inline long long next_deadline_lk() {
    long long d = never;
    for (waiter *w : waiters)
        if (!w->woken) d = std::min(d, w->deadline);
    return d;
}
}  // namespace vt

namespace std {
namespace chrono {
struct verif_system_clock {
    using duration = std::chrono::milliseconds;
    using rep = duration::rep;
    using period = duration::period;
    using time_point = std::chrono::time_point<verif_system_clock, duration>;
    static constexpr bool is_steady = false;
    static time_point now() noexcept {
        if (!vt::single_thread) vt::stall_point();
        // virtual time only advances in wait_until: a thread that keeps reading the clock without ever blocking spins
        if (++vt::reads > 200000) vt::fatal("livelock: the scheduling thread polls the clock without ever blocking", 46);
        return time_point(duration(vt::now_ticks.load()));
    }
};
}  // namespace chrono

class verif_mutex {
    std::mutex _m;
    std::atomic<std::thread::id> _owner{};

public:
    verif_mutex() = default;
    verif_mutex(const verif_mutex &) = delete;
    void lock() {
        if (_owner.load(std::memory_order_relaxed) == std::this_thread::get_id())
            vt::fatal("self-deadlock: mutex locked again by the thread that owns it", 42);
        if (!vt::single_thread) vt::lock_stall_point(this);
        ++vt::lock_waiters;
        _m.lock();
        --vt::lock_waiters;
        _owner.store(std::this_thread::get_id(), std::memory_order_relaxed);
    }
    bool try_lock() {
        if (_owner.load(std::memory_order_relaxed) == std::this_thread::get_id()) return false;
        if (!_m.try_lock()) return false;
        _owner.store(std::this_thread::get_id(), std::memory_order_relaxed);
        return true;
    }
    void unlock() {
        _owner.store(std::thread::id(), std::memory_order_relaxed);
        _m.unlock();
    }
    bool held_by_me() const { return _owner.load(std::memory_order_relaxed) == std::this_thread::get_id(); }
};

class verif_condition_variable {
    // multi-thread mode: park the calling thread until notified or until the virtual clock reaches `t`
    template <typename Lock>
    bool park(Lock &lk, long long t) {
        std::unique_lock g(vt::G);
        if (t <= vt::now_ticks.load()) {
            // deadline already reached: a timed wait returns at once
            if (++vt::spins > 100000)
                vt::fatal("livelock: the scheduling thread keeps waiting for a time point that is not in the future", 46);
            return false;
        }
        vt::waiter w{this, t};
        vt::waiters.push_back(&w);
        ++vt::blocked;
        vt::Gcv.notify_all();
        lk.unlock();   // registered before the mutex is released: no notification sent under the mutex can be missed
        vt::Gcv.wait(g, [&] { return w.woken; });
        vt::waiters.erase(std::find(vt::waiters.begin(), vt::waiters.end(), &w));
        bool timed_out = t <= vt::now_ticks.load();
        g.unlock();
        lk.lock();
        return !timed_out;
    }

public:
    void notify_all() noexcept {
        if (!vt::watch_cv || vt::watch_cv == this) ++vt::notifies, ++vt::my_notifies;
        if (!vt::single_thread) {
            std::lock_guard g(vt::G);
            vt::wake_lk([&](const vt::waiter &w) { return w.cv == this; }, false);
        }
    }
    void notify_one() noexcept {
        if (!vt::watch_cv || vt::watch_cv == this) ++vt::notifies, ++vt::my_notifies;
        if (!vt::single_thread) {
            std::lock_guard g(vt::G);
            vt::wake_lk([&](const vt::waiter &w) { return w.cv == this; }, true);
        }
    }
    template <typename Lock>
    void wait(Lock &lk) {
        if (vt::single_thread) vt::fatal("hang: wait() without deadline in the only thread", 43);
        park(lk, vt::never);
    }
    template <typename Lock, typename Pred>
    void wait(Lock &lk, Pred p) {
        while (!p()) wait(lk);
    }
    template <typename Lock, typename Clock, typename Dur>
    std::cv_status wait_until(Lock &lk, const std::chrono::time_point<Clock, Dur> &tp) {
        if (!lk.owns_lock()) vt::fatal("wait_until without holding the lock", 44);
        long long t = std::chrono::duration_cast<std::chrono::milliseconds>(tp.time_since_epoch()).count();
        if (!vt::single_thread) {
            if (tp == std::chrono::time_point<Clock, Dur>::max()) t = vt::never;
            return park(lk, t) ? std::cv_status::no_timeout : std::cv_status::timeout;
        }
        // the only thread blocks until the deadline: nobody can notify, so the wait ends exactly at tp
        if (t > vt::horizon) vt::fatal("hang: the scheduling thread blocks with no sleeper that could wake it", 43);
        if (vt::trace) vt::trace->push_back("wait:" + std::to_string(vt::now_ticks.load()) + "->" + std::to_string(t));
        if (t > vt::now_ticks) {
            vt::now_ticks = t;
            vt::spins = 0;
            vt::reads = 0;
        } else if (++vt::spins > 1000) {
            // waiting for a deadline that has already passed returns at once: the scheduling thread spins
            vt::fatal("livelock: the scheduling thread keeps waiting for a time point that is not in the future", 46);
        }
        return std::cv_status::timeout;
    }
};
}  // namespace std

#define mutex verif_mutex
#define condition_variable verif_condition_variable
#define system_clock verif_system_clock
#include <cocls/scheduler.h>
#undef mutex
#undef condition_variable
#undef system_clock

using namespace cocls;
using vh::test_exc;
using vclock = std::chrono::verif_system_clock;

static vclock::time_point TP(long long t) { return vclock::time_point(std::chrono::milliseconds(t)); }
static long long ticks(vclock::time_point tp) { return tp.time_since_epoch().count(); }
static scheduler::ident ID(long long i) { return reinterpret_cast<scheduler::ident>(static_cast<std::uintptr_t>(i)); }

// protected members are reached through a derived class (no source hooks)
struct sch_t : scheduler {
    using scheduler::scheduler;
    const void *cond_addr() const { return &VN_scheduler__cond; }
    std::string dump() {
        std::lock_guard _(VN_scheduler__mx);
        std::ostringstream os;
        os << "n=" << VN_scheduler__scheduled.size();
        for (auto &x : VN_scheduler__scheduled)
        {
            // identifiers used by the harness are small numbers; anything else is interval()'s `&tag`
            auto id = reinterpret_cast<std::uintptr_t>(x.VN_scheduler_SchItem__ident);
            os << " " << ticks(x.VN_scheduler_SchItem__tp) << ":";
            if (id < (1u << 20)) os << id; else os << "T";
            os << ":" << (x.VN_scheduler_SchItem__p ? 1 : 0);
        }
        return os.str();
    }
};

struct pool_t : thread_pool {
    using thread_pool::thread_pool;
    const void *mx_addr() const { return &VN_thread_pool__mx; }
};

static std::string tstr(vclock::time_point tp) {
    if (tp == vclock::time_point::max()) return "t:max";
    return "t:" + std::to_string(ticks(tp));
}

// ------------------------------------------------------------------------------------------------
// manual mode
// ------------------------------------------------------------------------------------------------
static void run_manual(std::istream &in) {
    vt::single_thread = true;
    vt::now_ticks = 0;
    std::unique_ptr<sch_t> sch(new sch_t());
    vh::fut_set<void> sl("sleep");
    std::vector<std::string> evs;
    std::string line;
    // interval() generator driven through its public interface, stopped through a std::stop_token
    std::optional<generator<std::size_t>> gen;
    std::optional<std::stop_source> stp;
    std::unique_ptr<future<std::size_t>> tick;
    auto poll_tick = [&] {
        if (tick && tick->ready()) {
            evs.push_back(std::string("ivl=") + (tick->has_value() ? "tick" : "done"));
            tick.reset();
        }
    };
    auto finish_ivl = [&] {
        // the generator may only be destroyed while it is paused on co_yield or finished: stop it first
        if (gen) {
            if (!stp->stop_requested()) stp->request_stop();
            poll_tick();
            gen.reset();
        }
    };
    while (std::getline(in, line)) {
        auto w = vh::split(line);
        if (w.empty()) continue;
        std::ostringstream head;
        auto num = [&](std::size_t i) { return w.size() > i ? atoll(w[i].c_str()) : 0LL; };
        if (w[0] == "end") {
            finish_ivl();
            sch.reset();
            sl.poll(evs);
            vh::emit("end", evs);
            return;
        } else if (w[0] == "ivl") {
            // ivl <dur> <now>: create the generator (its body starts with the first `next`)
            vt::now_ticks = num(2);
            stp.emplace();
            gen.emplace(sch->interval(std::chrono::milliseconds(num(1)), stp->get_token()));
            head << "ivl";
        } else if (w[0] == "next") {
            // next <now>: ask for the next tick at clock reading <now>
            vt::now_ticks = num(1);
            if (!gen || tick || gen->done()) {
                head << "next n/a";
            } else {
                unsigned long n0 = vt::notifies;
                tick.reset(new future<std::size_t>((*gen)()));
                head << "next " << (tick->ready() ? "ready" : "pending") << " ntf=" << (vt::notifies - n0);
            }
        } else if (w[0] == "stop") {
            if (!stp) head << "stop n/a";
            else head << "stop " << stp->request_stop();
        } else if (w[0] == "sleep" || w[0] == "sched") {
            long long tp = num(1), id = num(2);
            unsigned long n0 = vt::notifies;
            std::size_t k;
            if (w[0] == "sleep") {
                k = sl.add([&] { return sch->sleep_until(TP(tp), ID(id)); });
            } else {
                k = sl.add([&](scheduler::promise p) { sch->schedule(ID(id), std::move(p), TP(tp)); });
            }
            head << "sleep#" << k << " " << sl.now(k) << " ntf=" << (vt::notifies - n0);
        } else if (w[0] == "ge") {
            vt::now_ticks = num(1);
            scheduler::expired e = sch->get_expired(TP(num(1)));
            if (std::holds_alternative<scheduler::promise>(e)) {
                head << "ge p";
                std::get<scheduler::promise>(e)();
            } else {
                head << "ge " << tstr(std::get<vclock::time_point>(e));
            }
        } else if (w[0] == "drain") {
            // what the worker does at one instant: resolve everything that is due, in the order handed out
            vt::now_ticks = num(1);
            for (;;) {
                scheduler::expired e = sch->get_expired(TP(num(1)));
                if (std::holds_alternative<scheduler::promise>(e)) {
                    std::get<scheduler::promise>(e)();
                    sl.poll(evs);
                    poll_tick();
                } else {
                    head << "drain " << tstr(std::get<vclock::time_point>(e));
                    break;
                }
            }
        } else if (w[0] == "cancel") {
            bool r = sch->cancel(ID(num(1)));
            head << "cancel " << r;
        } else if (w[0] == "cancelx") {
            bool r = sch->cancel(ID(num(1)), std::make_exception_ptr(test_exc((int)num(2))));
            head << "cancel " << r;
        } else if (w[0] == "remove") {
            scheduler::promise p = sch->remove(ID(num(1)));
            if (p) {
                head << "remove 1";
                p();
            } else {
                head << "remove 0";
            }
        } else if (w[0] == "dump") {
            head << "dump " << sch->dump();
        } else if (w[0] == "destroy") {
            finish_ivl();
            sch.reset();
            head << "destroy";
            sl.poll(evs);
            vh::emit(head.str(), evs);
            while (std::getline(in, line)) {
                auto w2 = vh::split(line);
                if (!w2.empty() && w2[0] == "end") break;
            }
            vh::emit("end", evs);
            return;
        } else {
            head << "bad-op";
        }
        sl.poll(evs);
        poll_tick();
        vh::emit(head.str(), evs);
    }
}


// ------------------------------------------------------------------------------------------------
// run mode: scheduler::start(awaitable) in the only thread, virtual time.
//   co <act>...   one sleeper coroutine; acts: s<d>:<id> sleep_for   u<t>:<id> sleep_until
//                 c<id> cancel (plain call)   a<id> co_await cancel   x<id>:<code> / y<id>:<code> same with an exception
//   go            creates the coroutines in order (each runs up to its first suspension), then runs
//                 sch.start(all_done) until the last coroutine has finished; prints the event trace
// events: S<k>@<clock>:<tp>:<id> sleep issued, W<k>@<clock>=<outcome> woken, C<k>@<clock>:<id>=<r> cancel result,
//         D<k>@<clock> finished, wait:<from>-><to> the scheduling thread blocked until <to>, ret@<clock> start() returned
// ------------------------------------------------------------------------------------------------
struct act_t {
    char kind;
    long long a = 0, b = 0;
};

struct run_ctx {
    sch_t &sch;
    std::vector<std::string> &ev;
    int live = 0;
    std::function<void()> done;   // resolves the awaitable handed to start()
};

static async<void> sleeper(run_ctx &cx, int k, std::vector<act_t> script) {
    auto tag = [&](const char *c) { return std::string(c) + std::to_string(k) + "@" + std::to_string(vt::now_ticks); };
    for (auto &a : script) {
        if (a.kind == 's' || a.kind == 'u') {
            long long tp = a.kind == 's' ? vt::now_ticks + a.a : a.a;
            cx.ev.push_back(tag("S") + ":" + std::to_string(tp) + ":" + std::to_string(a.b));
            std::string o = "ok";
            try {
                if (a.kind == 's') co_await cx.sch.sleep_for(std::chrono::milliseconds(a.a), ID(a.b));
                else co_await cx.sch.sleep_until(TP(a.a), ID(a.b));
            } catch (const await_canceled_exception &) {
                o = "canceled";
            } catch (const test_exc &e) {
                o = "exc:" + std::to_string(e.code);
            }
            cx.ev.push_back(tag("W") + "=" + o);
        } else {
            bool r;
            if (a.kind == 'c') r = cx.sch.cancel(ID(a.a));
            else if (a.kind == 'a') r = co_await cx.sch.cancel(ID(a.a));
            else if (a.kind == 'x') r = cx.sch.cancel(ID(a.a), std::make_exception_ptr(test_exc((int)a.b)));
            else r = co_await cx.sch.cancel(ID(a.a), std::make_exception_ptr(test_exc((int)a.b)));
            cx.ev.push_back(tag("C") + ":" + std::to_string(a.a) + "=" + (r ? "1" : "0"));
        }
    }
    cx.ev.push_back(tag("D"));
    if (--cx.live == 0) cx.done();
}

static std::vector<act_t> parse_script(const std::vector<std::string> &w) {
    std::vector<act_t> out;
    for (std::size_t i = 1; i < w.size(); ++i) {
        act_t a;
        a.kind = w[i][0];
        const char *p = w[i].c_str() + 1;
        char *e;
        a.a = strtoll(p, &e, 10);
        if (*e == ':') a.b = strtoll(e + 1, &e, 10);
        out.push_back(a);
    }
    return out;
}

static void run_start(std::istream &in, long long t0) {
    vt::single_thread = true;
    vt::now_ticks = t0;
    vt::horizon = 1000000000LL;
    std::vector<std::vector<act_t>> scripts;
    std::vector<std::string> evs;
    std::string line;
    while (std::getline(in, line)) {
        auto w = vh::split(line);
        if (w.empty()) continue;
        if (w[0] == "end") {
            vh::emit("end", evs);
            return;
        } else if (w[0] == "co") {
            scripts.push_back(parse_script(w));
            std::cout << "co#" << scripts.size() - 1 << "\n";
        } else if (w[0] == "go") {
            // go [mode]: what the awaitable handed to start() is and how it ends
            //   0 future<void>, completes   1 future<void>, fails with test_exc(7)
            //   2 future<int>, yields 1000 + number of coroutines   3 future<int>, fails with test_exc(7)
            int mode = w.size() > 1 ? atoi(w[1].c_str()) & 3 : 0;
            {
                sch_t sch;
                future<void> done_v;
                future<int> done_i;
                scheduler::promise pv = done_v.get_promise();
                cocls::promise<int> pi = done_i.get_promise();
                int val = 1000 + (int)scripts.size();
                run_ctx cx{sch, evs, (int)scripts.size(), [&] {
                               if (mode == 0) pv();
                               else if (mode == 1) pv(std::make_exception_ptr(test_exc(7)));
                               else if (mode == 2) pi(val);
                               else pi(std::make_exception_ptr(test_exc(7)));
                           }};
                vt::trace = &evs;
                if (scripts.empty()) cx.done();
                for (std::size_t k = 0; k < scripts.size(); ++k) sleeper(cx, (int)k, scripts[k]).detach();
                std::string res;
                try {
                    if (mode < 2) {
                        sch.start(done_v);
                    } else {
                        int r = sch.start(done_i);
                        res = "=v:" + std::to_string(r);
                    }
                } catch (const test_exc &e) {
                    res = "=exc:" + std::to_string(e.code);
                }
                vt::trace = nullptr;
                evs.push_back("ret@" + std::to_string(vt::now_ticks) + res);
                evs.push_back(sch.dump());
            }
            vh::emit("go", evs);
            scripts.clear();
        } else {
            std::cout << "bad-op\n";
        }
    }
}

// ------------------------------------------------------------------------------------------------
// thread / thread-pool mode under virtual time: the scheduler's worker runs in a real std::thread (`thr`) or as a
// coroutine on the threads of a real cocls::thread_pool (`pool <n>`).  The main thread acts only while every worker
// thread is parked, and `adv <t>` moves the clock from one wait deadline to the next up to <t>, so the trace is
// deterministic.  Completions carry the clock reading at which the main thread observed them: `sleep#k=ok@<clock>`.
// ------------------------------------------------------------------------------------------------
// start variants (same worker, different entry point): thread mode 0 scheduler(std::thread&), 1 start(std::thread&),
// 2 start_thread() (detached); pool mode 0 scheduler(thread_pool&), 1 start(thread_pool&)
static void run_mt(std::istream &in, const std::string &kind, int nthr, bool step, int variant) {
    vt::single_thread = false;
    vt::now_ticks = 0;
    vt::waiters.clear();
    vt::blocked = 0;
    vt::tokens = 0;
    vt::stalled_lock = false;
    vt::skip_mx = nullptr;
    vt::nthreads = kind == "thr" ? 1 : nthr;
    std::thread thr;
    std::unique_ptr<pool_t> pool;
    std::unique_ptr<sch_t> sch;
    if (kind == "thr") {
        vt::step_mode = step;
        if (variant % 3 == 0) {
            sch.reset(new sch_t(thr));
        } else {
            sch.reset(new sch_t());
            if (variant % 3 == 1) sch->start(thr);
            else sch->start_thread();
        }
    } else {
        pool.reset(new pool_t(nthr));
        vt::quiesce();
        vt::skip_mx = pool->mx_addr();
        {
            std::lock_guard g(vt::G);
            vt::step_mode = step;
        }
        if (variant % 2 == 0) {
            sch.reset(new sch_t(*pool));
        } else {
            sch.reset(new sch_t());
            sch->start(*pool);
        }
    }
    vt::watch_cv = sch->cond_addr();
    vt::quiesce();
    // what the worker is doing at a quiescent point: in front of the scheduler mutex, parked in wait_until, or gone
    auto wstatus = [&]() -> std::string {
        std::lock_guard g(vt::G);
        if (vt::stalled_lock) return "lock";
        for (vt::waiter *x : vt::waiters)
            if (!x->woken && x->cv == vt::watch_cv)
                return "parked:" + (x->deadline == vt::never ? std::string("max") : std::to_string(x->deadline));
        return "gone";
    };
    auto end_step_mode = [&] {
        std::lock_guard g(vt::G);
        if (vt::step_mode) {
            vt::step_mode = false;
            if (vt::stalled_lock) --vt::blocked;
            vt::Gcv.notify_all();
        }
    };
    vh::fut_set<void> sl("sleep");
    std::vector<std::string> evs;
    // completion callbacks (make_promise) that call the scheduler again: what they did, reported after the completions.
    // They may run on the worker's thread while the main thread is still inside its own call, so they never touch `sl`:
    // the sleep created by the callback of sleep #k is kept in `cbfut[k]` and reported as `cs#k=<outcome>`.
    std::mutex cbmx;
    std::vector<std::pair<std::size_t, std::string>> cbev;
    std::map<std::size_t, std::pair<std::unique_ptr<future<void>>, bool>> cbfut;
    std::atomic<bool> sch_alive{true};
    auto poll = [&] {
        std::size_t n0 = evs.size();
        sl.poll(evs);
        {
            std::lock_guard g(cbmx);
            for (auto &e : cbfut)
                if (!e.second.second && e.second.first->ready()) {
                    e.second.second = true;
                    evs.push_back("cs#" + std::to_string(e.first) + "=" + vh::outcome(*e.second.first));
                }
            std::sort(cbev.begin(), cbev.end());
            for (auto &e : cbev) evs.push_back(e.second);
            cbev.clear();
        }
        for (std::size_t i = n0; i < evs.size(); ++i) evs[i] += "@" + std::to_string(vt::now_ticks.load());
    };
    auto shutdown = [&] {
        sch_alive = false;   // a callback run by the destruction must not use the dying scheduler
        // ~scheduler: request_stop, wait for the worker; then every promise still in the vector is dropped
        if (step) {
            // the worker may be in front of the mutex: run the destructor in a helper thread, then let the worker go
            std::atomic<bool> done{false};
            unsigned long n0 = vt::notifies;
            std::thread destroyer([&] {
                vt::controller = true;
                sch.reset();
                std::lock_guard g(vt::G);
                done = true;
                vt::Gcv.notify_all();
            });
            for (int i = 0; vt::notifies == n0 && vt::lock_waiters == 0 && !done; ++i) {
                if (i > 30000) vt::fatal("hang: ~scheduler neither notified nor blocked", 43);
                std::this_thread::sleep_for(std::chrono::milliseconds(1));
            }
            end_step_mode();
            {
                std::unique_lock g(vt::G);
                if (!vt::Gcv.wait_for(g, std::chrono::seconds(8), [&] { return done.load(); }))
                    vt::fatal("hang: ~scheduler() does not return: the worker missed the stop request and stays parked", 43);
            }
            destroyer.join();
        }
        sch.reset();
        if (thr.joinable()) thr.join();
        vt::nthreads = kind == "thr" ? 0 : nthr;
        if (pool) {
            vt::quiesce();
            vt::nthreads = 0;
            pool.reset();
        }
        poll();
        vt::single_thread = true;
        vt::watch_cv = nullptr;
        vt::step_mode = false;
        vt::skip_mx = nullptr;
    };
    std::string line;
    while (std::getline(in, line)) {
        auto w = vh::split(line);
        if (w.empty()) continue;
        std::ostringstream head;
        auto num = [&](std::size_t i) { return w.size() > i ? atoll(w[i].c_str()) : 0LL; };
        if (w[0] == "end" || w[0] == "destroy") {
            shutdown();
            if (w[0] == "destroy") {
                vh::emit("destroy", evs);
                while (std::getline(in, line)) {
                    auto w2 = vh::split(line);
                    if (!w2.empty() && w2[0] == "end") break;
                }
            }
            vh::emit("end", evs);
            return;
        } else if (w[0] == "sleep" || w[0] == "sched") {
            long long tp = num(1), id = num(2);
            unsigned long n0 = vt::my_notifies;
            std::size_t k;
            if (w[0] == "sleep") k = sl.add([&] { return sch->sleep_until(TP(tp), ID(id)); });
            else k = sl.add([&](scheduler::promise p) { sch->schedule(ID(id), std::move(p), TP(tp)); });
            // the worker may already be resolving it: its completion is reported by the poll after quiescence
            head << "sleep#" << k << " ntf=" << (vt::my_notifies - n0);
        } else if (w[0] == "cbs") {
            // cbs <tp> <id> s <tp2> <id2> | cbs <tp> <id> c <id2>: schedule(id, make_promise<void>(callback), tp) - "you can
            // actually schedule anything" - with a callback that calls the scheduler again when the sleep completes:
            // sleep_until(tp2, id2) (a timer re-arming itself) or cancel(id2) (a timeout handler).  The callback runs
            // synchronously in whatever thread resolves the promise (the worker, or the caller of cancel/remove).
            long long tp = num(1), id = num(2), a = num(4), b = num(5);
            char act = w.size() > 3 ? w[3][0] : 's';
            unsigned long n0 = vt::my_notifies;
            std::size_t k = sl.v.size();
            sch_t *sp = sch.get();
            sl.add([&](scheduler::promise bridge) {
                sp->schedule(ID(id), make_promise<void>([&, sp, k, act, a, b, bridge = std::move(bridge)](future<void> &f) mutable {
                    // hand the outcome over to the harness' future #k
                    try {
                        f.value();
                        bridge();
                    } catch (...) {
                        bridge(std::current_exception());
                    }
                    if (!sch_alive) return;
                    if (act == 's') {
                        std::unique_ptr<future<void>> f2(new future<void>([&] { return sp->sleep_until(TP(a), ID(b)); }));
                        std::lock_guard g(cbmx);
                        cbfut[k] = {std::move(f2), false};
                        cbev.push_back({k, "cbs#" + std::to_string(k) + "=s"});
                    } else {
                        bool r = sp->cancel(ID(a));
                        std::lock_guard g(cbmx);
                        cbev.push_back({k, "cbc#" + std::to_string(k) + "=" + (r ? "1" : "0")});
                    }
                }), TP(tp));
            });
            head << "sleep#" << k << " ntf=" << (vt::my_notifies - n0);
        } else if (w[0] == "w") {
            // step mode: the worker performs its next lock region
            std::lock_guard g(vt::G);
            if (vt::step_mode && vt::stalled_lock && vt::tokens == 0) {
                vt::tokens = 1;
                --vt::blocked;
                vt::Gcv.notify_all();
            }
            head << "w";
        } else if (w[0] == "free") {
            end_step_mode();
            head << "free";
        } else if (w[0] == "adv" && vt::step_mode) {
            // step mode: the clock jumps; waits whose deadline has passed end (the worker then wants the mutex back)
            long long T = num(1);
            std::lock_guard g(vt::G);
            if (T > vt::now_ticks.load()) vt::now_ticks = T;
            vt::reads = 0;
            long long nowv = vt::now_ticks.load();
            vt::wake_lk([&](const vt::waiter &x) { return x.deadline <= nowv; }, false);
            head << "adv";
        } else if (w[0] == "adv") {
            long long T = num(1);
            for (;;) {
                {
                    std::lock_guard g(vt::G);
                    long long d = vt::next_deadline_lk();
                    if (d > T) break;
                    if (d > vt::now_ticks.load()) vt::now_ticks = d;
                    vt::reads = 0;
                    long long nowv = vt::now_ticks.load();
                    vt::wake_lk([&](const vt::waiter &x) { return x.deadline <= nowv; }, false);
                }
                vt::quiesce();
                poll();
            }
            if (T > vt::now_ticks.load()) vt::now_ticks = T;
            head << "adv";
        } else if (w[0] == "cancel") {
            head << "cancel " << (bool)sch->cancel(ID(num(1)));
        } else if (w[0] == "cancelx") {
            head << "cancel " << (bool)sch->cancel(ID(num(1)), std::make_exception_ptr(test_exc((int)num(2))));
        } else if (w[0] == "remove") {
            scheduler::promise p = sch->remove(ID(num(1)));
            if (p) {
                head << "remove 1";
                p();
            } else {
                head << "remove 0";
            }
        } else if (w[0] == "dump") {
            head << "dump " << sch->dump();
        } else {
            head << "bad-op";
        }
        vt::quiesce();
        poll();
        if (step) head << " w=" << wstatus();
        vh::emit(head.str(), evs);
    }
}

// ------------------------------------------------------------------------------------------------
// stop race (thread mode): the scheduler is destroyed while its worker is between its stop check and its wait.
//   case <n> stoprace <tp>
//   go        worker parked; the clock read that follows the worker's stop check is stalled; sleep_until(tp) wakes the
//             worker (it passes the stop check and stalls); another thread runs ~scheduler up to the point where its stop
//             notification is out (or blocked on the scheduler mutex); the worker is released.
//             prints `go destroyed=<0|1>`: whether ~scheduler returned without the clock having to reach <tp>
// ------------------------------------------------------------------------------------------------
static void run_stoprace(std::istream &in, long long tp) {
    std::string line;
    std::vector<std::string> evs;
    while (std::getline(in, line)) {
        auto w = vh::split(line);
        if (w.empty()) continue;
        if (w[0] == "end") {
            vh::emit("end", evs);
            return;
        }
        if (w[0] != "go") {
            std::cout << "bad-op\n";
            continue;
        }
        vt::single_thread = false;
        vt::now_ticks = 0;
        vt::waiters.clear();
        vt::blocked = 0;
        vt::nthreads = 1;
        std::thread thr;
        std::unique_ptr<sch_t> sch(new sch_t(thr));
        vt::watch_cv = sch->cond_addr();
        vt::quiesce();
        vh::fut_set<void> sl("sleep");
        {
            std::lock_guard g(vt::G);
            vt::stall_clock = true;
        }
        sl.add([&] { return sch->sleep_until(TP(tp), ID(1)); });   // notifies: the worker re-checks stop and reads the clock
        vt::quiesce();                                            // ... where it stalls
        unsigned long n0 = vt::notifies;
        std::atomic<bool> done{false};
        std::thread destroyer([&] {
            sch.reset();
            std::lock_guard g(vt::G);
            done = true;
            vt::Gcv.notify_all();
        });
        // wait until the stop notification went out, or its sender is blocked on the scheduler mutex
        for (int i = 0; vt::notifies == n0 && vt::lock_waiters == 0; ++i) {
            if (i > 30000) vt::fatal("hang: ~scheduler neither notified nor blocked", 43);
            std::this_thread::sleep_for(std::chrono::milliseconds(1));
        }
        {
            std::unique_lock g(vt::G);
            vt::stall_clock = false;
            --vt::blocked;
            vt::Gcv.notify_all();
            // ~scheduler returns promptly unless the notification was lost; give it 8 s of real time
            vt::Gcv.wait_for(g, std::chrono::seconds(8), [&] { return done.load(); });
        }
        bool prompt = done;
        if (!prompt) {
            // the worker is parked until <tp> with the stop request pending: only the deadline wakes it
            std::lock_guard g(vt::G);
            vt::now_ticks = tp;
            long long nowv = tp;
            vt::wake_lk([&](const vt::waiter &x) { return x.deadline <= nowv; }, false);
        }
        destroyer.join();
        if (thr.joinable()) thr.join();
        vt::nthreads = 0;
        vt::single_thread = true;
        vt::watch_cv = nullptr;
        std::size_t e0 = evs.size();
        sl.poll(evs);
        for (std::size_t i = e0; i < evs.size(); ++i) evs[i] += "@" + std::to_string(vt::now_ticks.load());
        vh::emit(std::string("go destroyed=") + (prompt ? "1" : "0"), evs);
    }
}

int main() {
    vt::main_thread = std::this_thread::get_id();
    vt::controller = true;
    std::string line;
    while (std::getline(std::cin, line)) {
        auto w = vh::split(line);
        if (w.empty() || w[0] != "case") continue;
        std::cout << "case " << w[1] << "\n";
        vt::reads = 0;
        vt::spins = 0;
        const std::string kind = w.size() > 2 ? w[2] : "";
        if (kind == "man") run_manual(std::cin);
        else if (kind == "run") run_start(std::cin, w.size() > 3 ? atoll(w[3].c_str()) : 0);
        else if (kind == "stoprace") run_stoprace(std::cin, w.size() > 3 ? atoll(w[3].c_str()) : 50);
        else if (kind == "thr") run_mt(std::cin, kind, 1, false, w.size() > 3 ? atoi(w[3].c_str()) : 0);
        else if (kind == "pool") run_mt(std::cin, kind, w.size() > 3 ? atoi(w[3].c_str()) : 2, false, w.size() > 4 ? atoi(w[4].c_str()) : 0);
        else if (kind == "thrstep") run_mt(std::cin, "thr", 1, true, w.size() > 3 ? atoi(w[3].c_str()) : 0);
        else if (kind == "poolstep") run_mt(std::cin, "pool", w.size() > 3 ? atoi(w[3].c_str()) : 2, true, w.size() > 4 ? atoi(w[4].c_str()) : 0);
        else std::cout << "bad-kind\n";
        std::cout.flush();
    }
    return 0;
}
