// S-harness for cocls::suspend_point<void> / suspend_point<int> (C06).
// Reads cases from stdin, drives the real header, prints one canonical line per operation
// (the Lean model prints the same lines: lean/Drivers/C06.lean).
//
//   case <id> sp <n|c> <slots> <coros>      n = operations performed from plain code (no coro_queue active)
//                                           c = operations performed from inside a coroutine running under coro_queue
//   ctor i | ctorh i h | ctorv i v | ctorhv i h v | ctorsv i j v | mov i j | movb i j | mrg i j | asg i j
//   addh i h | pop i | clear i | del i | await i me | yield me | size i | empty i | val i | end
//   conv i | cconv i | ares i     read the value of a typed suspend point: X(sp) on a non-const lvalue (operator X()),
//                   X(sp) on a const lvalue (operator const X() const), sp.await_resume(); `val i` does all three in a row
//   delx i          the object in slot i is destroyed *during stack unwinding* (by the destructor of a guard of a scope
//                   that is left by a thrown exception); must behave exactly like `del i`
//   clearx i        the content of slot i is moved into a local suspend point of a scope that is left by a thrown exception
//                   (discarded during unwinding); must behave exactly like `clear i`
//   csp i h...      slot i = coro_queue::create_suspend_point([&]{ coro_queue::resume(h)... })            (suspend_point<void>)
//   cspv i v h...   slot i = coro_queue::create_suspend_point([&]{ coro_queue::resume(h)...; return v; }) (suspend_point<Val>)
//   addme i me      sp_i << (handle of the coroutine that will later `await` with id me): in mode c me is the driver
//                   coroutine (99) itself, in mode n a persistent awaiting coroutine `me` (>= number of counters)
//   ctorself i me   mode c only: slot i = co_await cocls::self()   (the library's idiom to obtain the own handle)
//   -- faults: allocation failure (the replaced operator new[] throws std::bad_alloc once) and exceptions out of callables --
//   addhf i h       sp_i << h while the next new[] fails; head `threw` when std::bad_alloc came out (caught by the caller), else `ok`
//   mrgf i j k      sp_i << std::move(sp_j) while the (k+1)-th new[] of the operation fails; head `threw` / `ok`
//   asgf i j k      sp_i = std::move(sp_j) likewise (sp_i a suspend_point<void>: the base assignment forwards to operator<<)
//   call j|- h...   coro_queue::install_queue_and_call(fn) from the code that performs the operations; fn makes the coroutines h...
//                   ready (coro_queue::resume), then clears sp_j (if given) and returns
//   callx j|- h...  the same, but fn ends by throwing; the exception is caught by the caller: head `threw`
//   cspx h...       coro_queue::create_suspend_point(fn) with fn making h... ready and then throwing (no suspend point is
//                   created); head `threw`
//   act             head `act 0|1`: coro_queue::is_active() as seen by the code that performs the operations
//
// output line:  <head> | <size of every slot, '-' = no object> [; events in order of occurrence]
// events: r<id> coroutine <id> resumed, n<k> new Ptr[k], d<k> delete[] of a block of k cells, dBAD delete[] of
// something that is not a live block.
#include <coroutine>
#include <cstdio>
#include <cstdlib>
#include <cstring>
#include <iostream>
#include <map>
#include <memory>
#include <new>
#include <sstream>
#include <string>
#include <vector>

#include <cocls/suspend_point.h>
#include <cocls/self.h>

// ---------------------------------------------------------------------------------------------
// event log + array new/delete tracking (suspend_point is the only user of new[] in a measured op)
// ---------------------------------------------------------------------------------------------
static std::vector<std::string> g_evs;
static bool g_track = false;
static std::map<void *, std::size_t> *g_live = nullptr;   // blocks allocated by new[] while tracking

static long g_fail_at = -1;   // fault plan: >= 0 = the (g_fail_at+1)-th tracked new[] from now throws std::bad_alloc (once)

void *operator new[](std::size_t sz) {
    if (g_track && g_fail_at >= 0 && g_fail_at-- == 0) throw std::bad_alloc();
    void *p = std::malloc(sz ? sz : 1);
    if (!p) throw std::bad_alloc();
    if (g_track) {
        g_track = false;
        (*g_live)[p] = sz;
        g_evs.push_back("n" + std::to_string(sz / sizeof(void *)));
        g_track = true;
    }
    return p;
}
static void array_delete(void *p) noexcept {
    if (!p) return;
    if (g_live) {
        bool t = g_track;
        g_track = false;
        auto it = g_live->find(p);
        if (it != g_live->end()) {
            if (t) g_evs.push_back("d" + std::to_string(it->second / sizeof(void *)));
            g_live->erase(it);
        } else if (t) {
            g_evs.push_back("dBAD");
        }
        g_track = t;
    }
    std::free(p);
}
void operator delete[](void *p) noexcept { array_delete(p); }
void operator delete[](void *p, std::size_t) noexcept { array_delete(p); }

static void log_resume(int id) { g_evs.push_back("r" + std::to_string(id)); }

// ---------------------------------------------------------------------------------------------
// coroutine types
// ---------------------------------------------------------------------------------------------
struct task {
    struct promise_type {
        task get_return_object() { return {std::coroutine_handle<promise_type>::from_promise(*this)}; }
        std::suspend_always initial_suspend() noexcept { return {}; }
        std::suspend_always final_suspend() noexcept { return {}; }
        void return_void() {}
        void unhandled_exception() { std::terminate(); }
    };
    std::coroutine_handle<promise_type> h;
};

// a ready coroutine that can be resumed any number of times; every resumption is logged
static task counter(int id) {
    for (;;) {
        log_resume(id);
        co_await std::suspend_always{};
    }
}

// value type of the typed suspend points: a moved-from Val is distinguishable (prints as `M`), a copy is not.
// Self move-assignment keeps the value.
struct Val {
    long v = 0;
    Val() = default;
    explicit Val(long x) : v(x) {}
    Val(const Val &) = default;
    Val &operator=(const Val &) = default;
    Val(Val &&o) noexcept : v(o.v) { o.v = -1; }
    Val &operator=(Val &&o) noexcept {
        if (&o != this) {
            v = o.v;
            o.v = -1;
        }
        return *this;
    }
    std::string str() const { return v < 0 ? std::string("M") : std::to_string(v); }
};

using SPV = cocls::suspend_point<void>;
using SPI = cocls::suspend_point<Val>;

// read-only look at the handles a suspend point holds (begin()/end() are protected)
struct Peek : SPV {
    using SPV::VN_suspend_point_begin;
    using SPV::VN_suspend_point_end;
};
static bool holds(SPV &sp, void *addr) {
    Peek &p = static_cast<Peek &>(sp);
    for (auto it = p.VN_suspend_point_begin(); it != p.VN_suspend_point_end(); ++it)
        if (*it == addr) return true;
    return false;
}

struct fn_failed {};   // thrown by the callables of call / callx / cspx
struct unwinding {};   // thrown to leave a scope: everything destroyed on the way is destroyed during stack unwinding

struct Slot {
    int kind = 0;   // 0 = no object, 1 = suspend_point<void>, 2 = suspend_point<int>
    alignas(SPI) unsigned char buf[sizeof(SPI) > sizeof(SPV) ? sizeof(SPI) : sizeof(SPV)];
    SPV &base() { return kind == 2 ? static_cast<SPV &>(*reinterpret_cast<SPI *>(buf)) : *reinterpret_cast<SPV *>(buf); }
    SPV &v() { return *reinterpret_cast<SPV *>(buf); }
    SPI &t() { return *reinterpret_cast<SPI *>(buf); }
    void destroy() {
        if (kind == 1) v().~SPV();
        else if (kind == 2) t().~SPI();
        kind = 0;
    }
};

// awaiting coroutine for normal mode: a coroutine that is *not* running under coro_queue. It is resumed by plain code
// with a target (then it co_awaits that suspend point) or by whoever holds its handle (a suspend point / the ready
// queue); every resumption that is not the start of a commanded co_await is logged. It parks on suspend_always after
// each step, so a bogus extra resumption is observable (logged) instead of being undefined behaviour.
struct Awaiter {
    task t{};
    SPV *tv = nullptr;
    SPI *tt = nullptr;
    bool passed = false;
    std::string value;      // what `co_await typed_sp` yielded
};
static task awaiter_body(Awaiter *a, int me) {
    for (;;) {
        if (a->tv) {
            SPV &sp = *a->tv;
            a->tv = nullptr;
            bool suspends = !sp.await_ready();
            co_await sp;
            a->passed = true;
            if (suspends) log_resume(me);
        } else if (a->tt) {
            SPI &sp = *a->tt;
            a->tt = nullptr;
            bool suspends = !sp.await_ready();
            Val &r = co_await sp;
            a->value = r.str();
            a->passed = true;
            if (suspends) log_resume(me);
        } else {
            log_resume(me);
        }
        co_await std::suspend_always{};
    }
}

static std::vector<std::string> split(const std::string &s) {
    std::vector<std::string> out;
    std::istringstream is(s);
    std::string t;
    while (is >> t) out.push_back(t);
    return out;
}

struct Ctx {
    bool coro_mode = false;
    std::vector<Slot> slots;
    std::vector<task> coros;
    std::map<void *, int> ids;
    bool ended = false;
    static constexpr int driver_id = 99;
    std::coroutine_handle<> driver_h{};
    std::map<int, std::unique_ptr<Awaiter>> awaiters;

    Awaiter &awaiter(int me) {
        auto it = awaiters.find(me);
        if (it == awaiters.end()) {
            bool t = g_track;
            g_track = false;
            it = awaiters.emplace(me, std::make_unique<Awaiter>()).first;
            it->second->t = awaiter_body(it->second.get(), me);
            ids[it->second->t.h.address()] = me;
            g_track = t;
        }
        return *it->second;
    }

    bool live(int i) const { return i >= 0 && i < (int)slots.size() && slots[i].kind != 0; }
    bool vacant(int i) const { return i >= 0 && i < (int)slots.size() && slots[i].kind == 0; }
    std::coroutine_handle<> handle(int id) const {
        if (id < 0 || id >= (int)coros.size()) return {};
        return coros[id].h;
    }
    std::string sizes() {
        std::string s;
        for (std::size_t i = 0; i < slots.size(); ++i) {
            if (i) s += ",";
            s += slots[i].kind ? std::to_string(slots[i].base().size()) : std::string("-");
        }
        return s;
    }
    void emit(const std::string &head) {
        bool t = g_track;
        g_track = false;
        std::cout << head << " | " << sizes();
        if (!g_evs.empty()) {
            std::cout << " ;";
            for (auto &e : g_evs) std::cout << " " << e;
        }
        std::cout << "\n";
        g_evs.clear();
        g_track = t;
    }
};

enum class Act { done, await_void, await_typed, yield, ctorself, end, bad };

// every operation that does not need a co_await in the caller; returns what the caller has to do
static Act exec(Ctx &c, const std::vector<std::string> &w, std::string &head, int &slot, int &me) {
    auto num = [&](std::size_t k) { return k < w.size() ? atoi(w[k].c_str()) : -1; };
    const std::string &op = w[0];
    head = "ok";
    int i = num(1), j = num(2);
    if (op == "end") return Act::end;
    if (op == "ctor") {
        if (!c.vacant(i)) return Act::bad;
        new (c.slots[i].buf) SPV();
        c.slots[i].kind = 1;
    } else if (op == "ctorh") {
        auto h = c.handle(num(2));
        if (!c.vacant(i) || !h) return Act::bad;
        new (c.slots[i].buf) SPV(h);
        c.slots[i].kind = 1;
    } else if (op == "ctorv") {
        if (!c.vacant(i)) return Act::bad;
        new (c.slots[i].buf) SPI(Val(num(2)));
        c.slots[i].kind = 2;
    } else if (op == "ctorhv") {
        auto h = c.handle(num(2));
        if (!c.vacant(i) || !h) return Act::bad;
        new (c.slots[i].buf) SPI(h, Val(num(3)));
        c.slots[i].kind = 2;
    } else if (op == "ctorsv") {
        if (!c.vacant(i) || !c.live(j)) return Act::bad;
        new (c.slots[i].buf) SPI(std::move(c.slots[j].base()), Val(num(3)));
        c.slots[i].kind = 2;
    } else if (op == "mov") {
        if (!c.vacant(i) || !c.live(j)) return Act::bad;
        if (c.slots[j].kind == 2) new (c.slots[i].buf) SPI(std::move(c.slots[j].t()));
        else new (c.slots[i].buf) SPV(std::move(c.slots[j].v()));
        c.slots[i].kind = c.slots[j].kind;
    } else if (op == "movb") {
        if (!c.vacant(i) || !c.live(j)) return Act::bad;
        new (c.slots[i].buf) SPV(std::move(c.slots[j].base()));
        c.slots[i].kind = 1;
    } else if (op == "mrg") {
        if (!c.live(i) || !c.live(j)) return Act::bad;
        c.slots[i].base() << std::move(c.slots[j].base());   // i == j: self-merge
    } else if (op == "asg") {
        if (!c.live(i) || !c.live(j)) return Act::bad;                       // i == j: self move-assignment
        if (c.slots[i].kind == 2 && c.slots[j].kind == 1) return Act::bad;   // does not compile
        if (c.slots[i].kind == 2) c.slots[i].t() = std::move(c.slots[j].t());
        else c.slots[i].v() = std::move(c.slots[j].base());
    } else if (op == "addh") {
        auto h = c.handle(num(2));
        if (!c.live(i) || !h) return Act::bad;
        c.slots[i].base() << std::move(h);
    } else if (op == "addme") {
        me = num(2);
        if (!c.live(i)) return Act::bad;
        if (c.coro_mode) {
            if (me != Ctx::driver_id) return Act::bad;
            c.slots[i].base() << std::coroutine_handle<>(c.driver_h);
        } else {
            if (me < (int)c.coros.size()) return Act::bad;
            c.slots[i].base() << std::coroutine_handle<>(c.awaiter(me).t.h);
        }
    } else if (op == "ctorself") {
        me = num(2);
        if (!c.coro_mode || me != Ctx::driver_id || !c.vacant(i)) return Act::bad;
        slot = i;
        return Act::ctorself;
    } else if (op == "pop") {
        if (!c.live(i)) return Act::bad;
        std::coroutine_handle<> h = c.slots[i].base().pop();
        if (h == std::noop_coroutine()) head = "pop noop";
        else {
            auto it = c.ids.find(h.address());
            head = it == c.ids.end() ? std::string("pop ?") : "pop " + std::to_string(it->second);
        }
    } else if (op == "clear") {
        if (!c.live(i)) return Act::bad;
        c.slots[i].base().clear();
    } else if (op == "del") {
        if (!c.live(i)) return Act::bad;
        c.slots[i].destroy();
    } else if (op == "delx") {
        if (!c.live(i)) return Act::bad;
        struct Guard {
            Slot *s;
            ~Guard() { s->destroy(); }      // runs while the exception below propagates: std::uncaught_exceptions() == 1
        };
        try {
            Guard g{&c.slots[i]};
            throw unwinding{};
        } catch (const unwinding &) {
        }
    } else if (op == "clearx") {
        if (!c.live(i)) return Act::bad;
        try {
            SPV local(std::move(c.slots[i].base()));   // a local of a scope that is left by an exception
            throw unwinding{};
        } catch (const unwinding &) {
        }
    } else if (op == "csp" || op == "cspv") {
        std::size_t first = op == "csp" ? 2 : 3;
        if (!c.vacant(i) || w.size() < first) return Act::bad;
        std::vector<std::coroutine_handle<>> hs;
        for (std::size_t k = first; k < w.size(); ++k) {
            auto h = c.handle(atoi(w[k].c_str()));
            if (!h) return Act::bad;
            hs.push_back(h);
        }
        if (op == "csp") {
            new (c.slots[i].buf) SPV(cocls::coro_queue::create_suspend_point([&] {
                for (auto h : hs) cocls::coro_queue::resume(h);
            }));
            c.slots[i].kind = 1;
        } else {
            long v = num(2);
            new (c.slots[i].buf) SPI(cocls::coro_queue::create_suspend_point([&] {
                for (auto h : hs) cocls::coro_queue::resume(h);
                return Val(v);
            }));
            c.slots[i].kind = 2;
        }
    } else if (op == "addhf") {
        auto h = c.handle(num(2));
        if (!c.live(i) || !h) return Act::bad;
        g_fail_at = 0;
        try {
            c.slots[i].base() << std::move(h);
        } catch (const std::bad_alloc &) {
            head = "threw";
        }
        g_fail_at = -1;
    } else if (op == "mrgf" || op == "asgf") {
        int k = num(3);
        if (!c.live(i) || !c.live(j) || k < 0) return Act::bad;
        if (op == "asgf" && c.slots[i].kind != 1) return Act::bad;
        g_fail_at = k;
        try {
            if (op == "mrgf") c.slots[i].base() << std::move(c.slots[j].base());
            else c.slots[i].v() = std::move(c.slots[j].base());
        } catch (const std::bad_alloc &) {
            head = "threw";
        }
        g_fail_at = -1;
    } else if (op == "call" || op == "callx") {
        if (w.size() < 2) return Act::bad;
        int tgt = -1;
        if (w[1] != "-") {
            tgt = num(1);
            if (!c.live(tgt)) return Act::bad;
        }
        std::vector<std::coroutine_handle<>> hs;
        for (std::size_t k = 2; k < w.size(); ++k) {
            auto h = c.handle(atoi(w[k].c_str()));
            if (!h) return Act::bad;
            hs.push_back(h);
        }
        if (c.coro_mode && cocls::coro_queue::instance) {
            // the queue is flushed while the driver coroutine is running: its own handle must not be waiting there
            for (auto q : cocls::coro_queue::instance->_queue) if (q == c.driver_h) return Act::bad;
        }
        if (c.coro_mode && tgt >= 0 && holds(c.slots[tgt].base(), c.driver_h.address())) return Act::bad;
        bool thr = op == "callx";
        try {
            if (hs.size() % 2 == 0) {
                cocls::coro_queue::install_queue_and_call([&] {
                    for (auto h : hs) cocls::coro_queue::resume(h);
                    if (tgt >= 0) c.slots[tgt].base().clear();
                    if (thr) throw fn_failed{};
                });
            } else {
                // a callable with an argument and a result
                int r = cocls::coro_queue::install_queue_and_call([&](int x) {
                    for (auto h : hs) cocls::coro_queue::resume(h);
                    if (tgt >= 0) c.slots[tgt].base().clear();
                    if (thr) throw fn_failed{};
                    return x + 1;
                }, 41);
                if (r != 42) head = "call ?";
            }
        } catch (const fn_failed &) {
            head = "threw";
        }
    } else if (op == "cspx") {
        std::vector<std::coroutine_handle<>> hs;
        for (std::size_t k = 1; k < w.size(); ++k) {
            auto h = c.handle(atoi(w[k].c_str()));
            if (!h) return Act::bad;
            hs.push_back(h);
        }
        try {
            if (hs.size() % 2 == 0) {
                SPV sp(cocls::coro_queue::create_suspend_point([&] {
                    for (auto h : hs) cocls::coro_queue::resume(h);
                    throw fn_failed{};
                }));
                head = "cspx ?";
            } else {
                SPI sp(cocls::coro_queue::create_suspend_point([&]() -> Val {
                    for (auto h : hs) cocls::coro_queue::resume(h);
                    throw fn_failed{};
                }));
                head = "cspx ?";
            }
        } catch (const fn_failed &) {
            head = "threw";
        }
    } else if (op == "act") {
        head = std::string("act ") + (cocls::coro_queue::is_active() ? "1" : "0");
    } else if (op == "size") {
        if (!c.live(i)) return Act::bad;
        head = "size " + std::to_string(c.slots[i].base().size());
    } else if (op == "empty") {
        if (!c.live(i)) return Act::bad;
        head = std::string("empty ") + (c.slots[i].base().empty() ? "1" : "0");
    } else if (op == "val") {
        if (!c.live(i) || c.slots[i].kind != 2) return Act::bad;
        SPI &sp = c.slots[i].t();
        std::string a = static_cast<Val>(sp).str();                                // operator X()
        std::string b = static_cast<Val>(static_cast<const SPI &>(sp)).str();      // operator const X() const
        std::string d = sp.await_resume().str();
        head = "val " + a;
        if (b != a || d != a) head += "/" + b + "/" + d;
    } else if (op == "conv") {
        if (!c.live(i) || c.slots[i].kind != 2) return Act::bad;
        Val x = c.slots[i].t();                                                    // operator X() on a non-const lvalue
        head = "conv " + x.str();
    } else if (op == "cconv") {
        if (!c.live(i) || c.slots[i].kind != 2) return Act::bad;
        const SPI &csp = c.slots[i].t();
        Val x = csp;                                                               // operator const X() const
        head = "cconv " + x.str();
    } else if (op == "ares") {
        if (!c.live(i) || c.slots[i].kind != 2) return Act::bad;
        head = "ares " + c.slots[i].t().await_resume().str();
    } else if (op == "await") {
        if (!c.live(i)) return Act::bad;
        slot = i;
        me = num(2);
        if (c.coro_mode && me != Ctx::driver_id) return Act::bad;
        if (!c.coro_mode && me < (int)c.coros.size()) return Act::bad;
        return c.slots[i].kind == 2 ? Act::await_typed : Act::await_void;
    } else if (op == "yield") {
        me = num(1);
        if (!c.coro_mode || me != Ctx::driver_id) return Act::bad;
        return Act::yield;
    } else {
        return Act::bad;
    }
    return Act::done;
}

static void destroy_all(Ctx &c) {
    for (auto &s : c.slots) s.destroy();
}

// coroutine mode: the whole case runs inside this coroutine, which is resumed under an installed coro_queue
static task driver(Ctx &c, std::istream &in) {
    std::string line;
    while (std::getline(in, line)) {
        auto w = split(line);
        if (w.empty()) continue;
        std::string head;
        int slot = -1, me = -1;
        Act a = exec(c, w, head, slot, me);
        if (a == Act::end) {
            destroy_all(c);
            c.ended = true;
            // the queue is flushed once this coroutine is suspended; the `end` line is printed by the caller.
            // The driver parks instead of returning, so that a bogus extra resumption is logged, not UB.
            for (;;) {
                co_await std::suspend_always{};
                log_resume(Ctx::driver_id);
            }
        }
        if (a == Act::ctorself) {
            SPV tmp = co_await cocls::self();
            new (c.slots[slot].buf) SPV(std::move(tmp));
            c.slots[slot].kind = 1;
        } else if (a == Act::await_void) {
            SPV &sp = c.slots[slot].v();
            bool suspends = !sp.await_ready();
            co_await sp;
            if (suspends) log_resume(Ctx::driver_id);
        } else if (a == Act::await_typed) {
            SPI &sp = c.slots[slot].t();
            bool suspends = !sp.await_ready();
            Val &r = co_await sp;
            head = "aw " + r.str();
            if (suspends) log_resume(Ctx::driver_id);
        } else if (a == Act::yield) {
            co_await cocls::pause();
            log_resume(Ctx::driver_id);
        } else if (a == Act::bad) {
            head = "bad";
        }
        c.emit(head);
    }
}

static void skip_case(std::istream &in) {
    std::string line;
    while (std::getline(in, line)) {
        auto w = split(line);
        if (!w.empty() && w[0] == "end") return;
    }
}

static void run_case(std::istream &in, bool coro_mode, int nslots, int ncoros) {
    Ctx c;
    c.coro_mode = coro_mode;
    c.slots.resize(nslots);
    for (int k = 0; k < ncoros; ++k) {
        c.coros.push_back(counter(k));
        c.ids[c.coros.back().h.address()] = k;
    }
    g_evs.clear();
    g_track = true;
    bool stuck = false;
    if (coro_mode) {
        task d = driver(c, in);
        c.driver_h = d.h;
        c.ids[d.h.address()] = Ctx::driver_id;
        cocls::coro_queue::install_queue_and_resume(d.h);
        if (!c.ended) {
            // the driver was suspended by a co_await and never resumed again
            stuck = true;
            c.emit("stuck");
            skip_case(in);
        }
        d.h.destroy();
    } else {
        std::string line;
        while (std::getline(in, line)) {
            auto w = split(line);
            if (w.empty()) continue;
            std::string head;
            int slot = -1, me = -1;
            Act a = exec(c, w, head, slot, me);
            if (a == Act::end) {
                destroy_all(c);
                c.ended = true;
                break;
            }
            if (a == Act::await_void || a == Act::await_typed) {
                Awaiter &aw = c.awaiter(me);
                if (a == Act::await_void) aw.tv = &c.slots[slot].v(); else aw.tt = &c.slots[slot].t();
                aw.passed = false;
                aw.t.h.resume();
                if (!aw.passed) head = "stuck";
                else if (a == Act::await_typed) head = "aw " + aw.value;
            } else if (a == Act::bad || a == Act::yield || a == Act::ctorself) {
                head = "bad";
            }
            c.emit(head);
        }
    }
    if (stuck) destroy_all(c);
    g_track = false;
    std::size_t live = g_live->size();
    g_track = true;
    c.emit("end live=" + std::to_string(live));
    g_track = false;
    for (auto &t : c.coros) t.h.destroy();
    for (auto &a : c.awaiters) a.second->t.h.destroy();
    g_live->clear();
}

int main() {
    g_live = new std::map<void *, std::size_t>();
    std::string line;
    while (std::getline(std::cin, line)) {
        auto w = split(line);
        if (w.size() < 6 || w[0] != "case") continue;
        std::cout << "case " << w[1] << "\n";
        if (w[2] != "sp") {
            std::cout << "bad-kind\n";
            continue;
        }
        run_case(std::cin, w[3] == "c", atoi(w[4].c_str()), atoi(w[5].c_str()));
        std::cout.flush();
    }
    delete g_live;
    return 0;
}
