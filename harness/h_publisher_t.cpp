// T-harness for cocls::publisher<int> / cocls::subscriber<int> (C16): a publisher thread against subscriber threads and
// coroutine subscribers on real threads under the baton scheduler (harness/shim): one thread runs at a time and the baton
// may change hands after every unlock of the queue's mutex and after every atomic operation of the unmodified headers,
// as the `sched` line says.  So the windows *inside* the library calls (between `advance_suspend`'s lock region and the
// rest of `co_awaiter::await_suspend`, between the two lock regions of `push_lk`, between `ready()` and `check_next()` of a
// polling `next_ready()`, ...) are ordinary scheduling points, reached deterministically.
//
//   case <id> pubt <max|0> <min>
//   p <op>...             the publisher thread (thread 0): s = publish one value, b<k> = batch of k from a vector,
//                         i<k> = batch of k from a single-pass input iterator, c = close, d = destroy the publisher
//   c <style> <mode>      a consumer on its own thread; style:
//                           co    every next() is `co_await sub.next()` in a coroutine started from the consumer thread
//                                 (so every await_suspend runs on the consumer thread, against the publisher thread)
//                           loop  one coroutine `while (co_await sub.next())`, continuing wherever it is resumed
//                           blk   blocking `bool(sub.next())`      not  `if (!sub.next()) break;`     rfor  range-for
//                           poll  `sub.next_ready()` polling
//   sched <tid>...
//   end
// Published values are 1,2,3,... (value = stream position). Output: one line per completed next()
// (`n <consumer> v:<x>@<position()>` / `n <consumer> eof@<pos>`), `deadlock` if nothing can run while somebody is
// unfinished (a lost wake-up), `fin <consumer> <values>` for every consumer that left its loop.
#include "shim/verif_shim.h"
#include "shim/rename_on.h"
#include <cocls/publisher.h>
#include "shim/rename_off.h"
#include <sys/wait.h>

using namespace cocls;
using vshim::S;
using pub_t = publisher<int>;
using sub_t = subscriber<int>;

static std::vector<std::string> split(const std::string &s) {
    std::vector<std::string> o;
    std::istringstream is(s);
    std::string t;
    while (is >> t) o.push_back(t);
    return o;
}

static subscribtion_type mode_of(char c) {
    return c == 'b' ? subscribtion_type::skip_if_behind : c == 'r' ? subscribtion_type::skip_to_recent
                                                                    : subscribtion_type::all_values;
}

struct fire {
    struct promise_type {
        fire get_return_object() { return {}; }
        std::suspend_never initial_suspend() noexcept { return {}; }
        std::suspend_never final_suspend() noexcept { return {}; }
        void return_void() {}
        void unhandled_exception() { std::terminate(); }
    };
};

struct Consumer {
    int id;
    std::string style;
    char mode;
    std::unique_ptr<sub_t> s;
    int values = 0;
    bool finished = false;
    std::verif_atomic<int> done{0};      // one-shot coroutine finished / loop coroutine left its loop
    bool last = false;
};

static void say(const std::string &t) { std::cout << t << "\n"; }

static void note(Consumer &c, bool b) {
    sub_t &s = *c.s;
    if (b) {
        ++c.values;
        say("n " + std::to_string(c.id) + " v:" + std::to_string(s.value()) + "@" + std::to_string(s.position()));
    } else {
        say("n " + std::to_string(c.id) + " eof@" + std::to_string(s.position()));
    }
}

static fire one_next(Consumer *c) {
    bool b = co_await c->s->next();
    note(*c, b);
    c->last = b;
    c->done.store(1);
}

// (written as `bool b = co_await ...` on purpose: with g++ 12 a coroutine whose *first* suspension is a `while (co_await ...)`
//  loop condition has no resume pointer in its frame yet while that first await_suspend runs, so resuming it from another
//  thread inside that window crashes in coroutine_handle::resume() — a compiler matter, independent of cocls)
static fire loop_next(Consumer *c) {
    for (;;) {
        bool b = co_await c->s->next();
        if (!b) break;
        note(*c, true);
    }
    note(*c, false);
    c->done.store(1);
}

static void consumer_body(Consumer *c) {
    sub_t &s = *c->s;
    if (c->style == "co") {
        for (;;) {
            c->done.store(0);
            one_next(c);
            c->done.wait(0);
            if (!c->last) break;
        }
    } else if (c->style == "loop") {
        loop_next(c);
        c->done.wait(0);
    } else if (c->style == "blk") {
        while (s.next()) note(*c, true);
        note(*c, false);
    } else if (c->style == "not") {
        for (;;) {
            if (!s.next()) break;
            note(*c, true);
        }
        note(*c, false);
    } else if (c->style == "rfor") {
        for (int &x : s) { (void)x; note(*c, true); }
        note(*c, false);
    } else {   // poll
        for (;;) {
            std::size_t before = s.position();
            if (s.next_ready()) note(*c, true);
            else if (s.position() != before) { note(*c, false); break; }   // the position moved and no value: end of stream
        }
    }
    c->finished = true;
    say("fin " + std::to_string(c->id) + " " + std::to_string(c->values));
}

static void run_case(const std::vector<std::string> &hdr, const std::vector<std::vector<std::string>> &lines) {
    std::size_t mx = hdr.size() > 3 ? (std::size_t)atoll(hdr[3].c_str()) : 0;
    std::size_t mn = hdr.size() > 4 ? (std::size_t)atoll(hdr[4].c_str()) : 1;
    std::unique_ptr<pub_t> pub(mx ? new pub_t(mx, mn) : new pub_t());
    auto q = pub->get_queue();
    std::deque<Consumer> cons;
    std::vector<std::string> pops;
    std::vector<int> sched;
    for (auto &w : lines) {
        if (w[0] == "p") pops.assign(w.begin() + 1, w.end());
        else if (w[0] == "c" && w.size() >= 3) {
            cons.emplace_back();
            Consumer &c = cons.back();
            c.id = (int)cons.size();
            c.style = w[1];
            c.mode = w[2][0];
            c.s.reset(new sub_t(*pub, mode_of(c.mode)));
        } else if (w[0] == "sched")
            for (std::size_t i = 1; i < w.size(); i++) sched.push_back(atoi(w[i].c_str()));
    }
    S().quiet = true;
    S().max_steps = 400000;
    bool pub_done = false;
    S().spawn([&] {
        int v = 1;
        for (auto &op : pops) {
            if (op == "s") {
                pub->publish(v); v++;
                say("p s");
            } else if (op[0] == 'b' || op[0] == 'i') {
                int k = atoi(op.c_str() + 1);
                if (op[0] == 'b') {
                    std::vector<int> vals;
                    for (int j = 0; j < k; j++) vals.push_back(v + j);
                    pub->publish(vals.begin(), vals.end());
                } else {
                    std::string text;
                    for (int j = 0; j < k; j++) text += std::to_string(v + j) + " ";
                    std::istringstream is(text);
                    std::istream_iterator<int> from(is), to;
                    pub->publish(from, to);
                }
                v += k;
                say("p " + op);
            } else if (op == "c") {
                pub->close();
                say("p c");
            } else if (op == "d") {
                pub.reset();
                say("p d");
            }
        }
        // whatever the script says, the publisher goes away at the end: everybody still waiting must be released
        pub.reset();
        say("p end");
        pub_done = true;
    });
    for (auto &c : cons) S().spawn([&c] { consumer_body(&c); });
    bool ok = S().run(sched);
    if (!ok) {
        say("deadlock");
        for (auto &c : cons)
            if (!c.finished) say("stuck " + std::to_string(c.id) + " " + c.style + " " + std::string(1, c.mode) + " pub_done=" + (pub_done ? "1" : "0"));
        say("end");
        std::cout.flush();
        _exit(0);
    }
    say("end");
    std::cout.flush();
    _exit(0);      // (suspended coroutine frames of a failed run are not interesting to the leak checker)
}

int main() {
    std::string line;
    std::vector<std::string> hdr;
    std::vector<std::vector<std::string>> lines;
    while (std::getline(std::cin, line)) {
        auto w = split(line);
        if (w.empty()) continue;
        if (w[0] == "case") { hdr = w; lines.clear(); continue; }
        if (w[0] != "end") { lines.push_back(w); continue; }
        std::cout << "case " << hdr[1] << std::endl;
        pid_t pid = fork();
        if (pid == 0) {
            alarm(20);
            run_case(hdr, lines);
            std::cout.flush();
            _exit(0);
        }
        int st = 0;
        waitpid(pid, &st, 0);
        if (!(WIFEXITED(st) && WEXITSTATUS(st) == 0)) {
            if (WIFEXITED(st) && WEXITSTATUS(st) == 3) { /* assertion already reported */ }
            else {
                std::cout << "crash " << (WIFSIGNALED(st) ? "signal " + std::to_string(WTERMSIG(st)) : "exit " + std::to_string(WEXITSTATUS(st))) << "\n";
                std::cout << "end" << std::endl;
            }
        }
    }
    return 0;
}
