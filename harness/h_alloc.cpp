// S-harness for C20 ("the core synchronisation primitives never allocate").
// Executes "core programs" on the real cocls headers inside a measured region and prints, per operation, the
// executed coroutine actions and every dynamic allocation / release it observed, by category.
// The Lean model prints the same lines: lean/CoclsModel/Alloc.lean + lean/Drivers/C20.lean.
//
//   case <id> alloc <i|b> <m|f>    value type: i = int, b = 64-byte POD;  m = run on the main thread (its ready queue is reset
//                                  to a freshly constructed deque before the case, outside the measured region),
//                                  f = run on a fresh thread (first use of the thread's ready queue is inside the case)
//   fut <i>                        construct future F_i, take its promise P_i
//   res <i> <v|e|d|x>              ordinary code resolves P_i: value / exception / drop tag / promise destructor
//   cb <i>                         subscribe a callback awaiter (resume_fn) to F_i
//   bs <i>                         subscribe a blocking-thread awaiter (sync_awaiter) to F_i
//   bt <i>                         a real thread blocks in F_i.sync() (joined inside the operation that resolves F_i)
//   bw <i>                         blocking wait on the (resolved) F_i: through the subscribed sync_awaiter, else future::wait()
//   del <i>                        destroy F_i (resolved, not referenced any more)
//   bd <i> <4|32|48|64|200>        B_i = P_i.bind(value of that many bytes): the promise moves into the callable (kept in storage
//                                  the harness owns); bi <i> invokes B_i (resolves with the bound value), bx <i> destroys B_i
//   co <j> <H|N> <i|-> <script>    create coroutine C_j (async<T>) with a heap / non-heap (bump storage) frame; bound to P_i
//                                  (`start(P_i)`) or detached; script = comma separated actions (or `-`):
//                                  a<i> co_await F_i | r<i><v|e|d> resolve P_i, drop the suspend point | R<i><v|e|d> resolve and
//                                  co_await the suspend point | l<m> co_await M_m.lock() | u<m> release, drop | U<m> co_await
//                                  release | p park | y co_await pause() | g<g> step G_g synchronously | G<g> co_await G_g.next()
//   tl <m> / ul <m>                ordinary code: try_lock M_m / release the ownership it holds
//   sa <s> <j>                     S_s << handle of the parked coroutine C_j
//   sp <s>                         h = S_s.pop(); coro_queue::resume(h)
//   sf <s>                         S_s.clear()
//   sm <s> <t> / sg <s> <t>        S_s << std::move(S_t)  /  S_s = std::move(S_t)   (merge of whole suspend points)
//   rm <s> <i> <v|e|d>             S_s << P_i(..): the suspend point returned by a resolution is merged into S_s
//   gen <g> <H|N> <n>              create synchronous generator G_g yielding 0..n-1
//   gs <g> <n|f|b|r>               step: bool(G.next()) / future = G() / G.begin() != G.end() / range-for over whatever is left
//                                  (`for (int v : G)`: begin(), operator++ until end()), head `items=<k>`
//   gd <g>                         destroy G_g
//   end                            drain (release, resolve with drop, unpark, flush until nothing moves), destroy everything
//
// output: one line per op: `<head>[ ; tok tok ...]`, tokens in order of occurrence:
//   c<j>:<act>[=..] coroutine j executed that action, c<j>:end finished;  cb<i> callback of F_i fired;
//   a:<cat>+<n> allocation, f:<cat>-<n> release;  cat = frame (n = 1), growth (n = cells of the handle array),
//   resolve-suspend-point-growth (the same, for the suspend point a resolution collects the released coroutines in),
//   ready-queue-node (n = bytes; allocations made by the thread-local std::deque of coro_queue), other (n = bytes),
//   exception (n = 1: an exception object / dependent exception allocated by the C++ runtime for a `throw` /
//   `rethrow_exception` executed by library code: strong definitions of __cxa_allocate_exception and
//   __cxa_allocate_dependent_exception in this executable, forwarding with dlsym(RTLD_NEXT); works under ASan, which does
//   not intercept them), malloc (n = bytes: malloc/calloc/realloc called directly, seen through ASan's
//   __sanitizer_malloc_hook; main thread only — a fresh thread's first thread_local registration callocs inside glibc)
//   c<j>:caught / m:caught  the user code of coroutine j / ordinary code caught an exception the library threw TO IT
//   (reading a future that was resolved without a value): such an exception object is the caller's, every other is the library's
#include <algorithm>
#include <atomic>
#include <cassert>
#include <chrono>
#include <concepts>
#include <condition_variable>
#include <coroutine>
#include <cstddef>
#include <cstdint>
#include <cstdio>
#include <cstdlib>
#include <cstring>
#include <dlfcn.h>
#include <deque>
#include <exception>
#include <functional>
#include <iostream>
#include <iterator>
#include <limits>
#include <map>
#include <memory>
#include <mutex>
#include <new>
#include <optional>
#include <queue>
#include <set>
#include <sstream>
#include <stdexcept>
#include <stop_token>
#include <string>
#include <thread>
#include <tuple>
#include <type_traits>
#include <utility>
#include <variant>
#include <vector>

// ------------------------------------------------------------------------------------------------
// allocation log
// ------------------------------------------------------------------------------------------------
namespace al {

enum Cat { FRAME, GROWTH, RGROWTH, RQ, OTHER, EXC, RAWMALLOC };
static const char *cat_name[] = {"frame", "growth", "resolve-suspend-point-growth", "ready-queue-node", "other", "exception", "malloc"};

struct Blk { Cat cat; long n; };

// Per-thread switches; the log itself is shared (a blocking helper thread of `bt` logs into it too).
static thread_local int measuring = 0;     // > 0: inside the measured region
static thread_local int guard = 0;         // > 0: the harness's own bookkeeping is running: not logged
static thread_local bool in_hook = false;  // the log's own containers allocate
static thread_local int in_known = 0;      // > 0: malloc is being called by a channel that logs for itself (operator new, the
                                           // tagging allocator, the exception allocation of the C++ runtime)
static thread_local bool raw_armed = false;  // this thread reports direct malloc calls (main thread only)
struct known {
    known() { ++in_known; }
    ~known() { --in_known; }
};
// a handle array allocated while a resolution (promise call / drop / destructor, bound callable, final_suspend of a bound
// coroutine) collects the released coroutines is `resolve-suspend-point-growth`; any other handle array is `growth`
static thread_local int in_resolution = 0;      // the harness is inside a call that resolves a future
static thread_local bool final_window = false;  // a coroutine body has reached co_return; closed by the next script action
static thread_local int expect_frame = 0;  // the harness is calling a coroutine function: the next plain `new` is its frame
static std::mutex *mtx = nullptr;
static std::vector<std::string> *evs = nullptr;
static std::map<void *, Blk> *live = nullptr;

struct hguard {
    hguard() { ++guard; }
    ~hguard() { --guard; }
};
struct hook {
    hook() { in_hook = true; mtx->lock(); }
    ~hook() { mtx->unlock(); in_hook = false; }
};

static void tok(const char *s) {
    hook h;
    evs->push_back(s);
}
static void tokf(const char *fmt, int a, const char *b, long c = 0, bool from_script = true) {
    if (from_script) final_window = false;
    char buf[96];
    std::snprintf(buf, sizeof buf, fmt, a, b, c);
    tok(buf);
}

// record a block; logged as an event when `log`
static void note_alloc(void *p, Cat c, long n, bool log) {
    hook h;
    (*live)[p] = Blk{c, n};
    if (log) evs->push_back(std::string("a:") + cat_name[c] + "+" + std::to_string(n));
}

// an allocation that is not tied to a block the harness tracks (exception objects, direct malloc)
static void note_event(Cat c, long n) {
    hook h;
    evs->push_back(std::string("a:") + cat_name[c] + "+" + std::to_string(n));
}
static bool logging() { return !in_hook && live && measuring > 0 && guard == 0; }

static void *do_new(std::size_t sz, bool array) {
    known k;
    void *p = std::malloc(sz ? sz : 1);
    if (!p) throw std::bad_alloc();
    if (!in_hook && live && measuring > 0 && guard == 0) {
        if (array) {
            if (sz % sizeof(void *) == 0)
                note_alloc(p, (in_resolution > 0 || final_window) ? RGROWTH : GROWTH, (long)(sz / sizeof(void *)), true);
            else note_alloc(p, OTHER, (long)sz, true);
        } else if (expect_frame > 0) {
            --expect_frame;
            note_alloc(p, FRAME, 1, true);
        } else {
            note_alloc(p, OTHER, (long)sz, true);
        }
    }
    return p;
}

static void do_delete(void *p) noexcept {
    if (!p) return;
    if (!in_hook && live) {
        hook h;
        auto it = live->find(p);
        if (it != live->end()) {
            if (measuring > 0 && guard == 0)
                evs->push_back(std::string("f:") + cat_name[it->second.cat] + "-" + std::to_string(it->second.n));
            live->erase(it);
        }
    }
    std::free(p);
}

// allocator of the renamed std::deque: tags its blocks as `ready-queue-node`
template <typename T>
struct tag_alloc {
    using value_type = T;
    tag_alloc() = default;
    template <typename U>
    tag_alloc(const tag_alloc<U> &) noexcept {}
    T *allocate(std::size_t n) {
        known k;
        void *p = std::malloc(n * sizeof(T));
        if (!p) throw std::bad_alloc();
        // tracked even outside the measured region (the main thread's queue is rebuilt before every case), so that
        // releasing such a block inside the region is seen
        if (!in_hook && live) note_alloc(p, RQ, (long)(n * sizeof(T)), measuring > 0 && guard == 0);
        return static_cast<T *>(p);
    }
    void deallocate(T *p, std::size_t) noexcept { do_delete(p); }
    template <typename U>
    bool operator==(const tag_alloc<U> &) const noexcept { return true; }
    template <typename U>
    bool operator!=(const tag_alloc<U> &) const noexcept { return false; }
};

}  // namespace al

// ---- the allocation channels besides operator new ----------------------------------------------------------------
// every `throw` allocates its exception object through __cxa_allocate_exception (-> malloc, not operator new), every
// std::rethrow_exception a dependent exception through __cxa_allocate_dependent_exception: defined here, they interpose the
// ones of libstdc++.so for the whole process (calls from the headers compiled into this executable and from libstdc++ itself)
extern "C" void *__cxa_allocate_exception(std::size_t sz) noexcept {
    using fn = void *(*)(std::size_t);
    static fn real = reinterpret_cast<fn>(dlsym(RTLD_NEXT, "__cxa_allocate_exception"));
    if (al::logging()) al::note_event(al::EXC, 1);
    al::known k;
    return real(sz);
}
extern "C" void *__cxa_allocate_dependent_exception() noexcept {
    using fn = void *(*)();
    static fn real = reinterpret_cast<fn>(dlsym(RTLD_NEXT, "__cxa_allocate_dependent_exception"));
    if (al::logging()) al::note_event(al::EXC, 1);
    al::known k;
    return real();
}
// ASan calls this after every malloc / calloc / realloc of the process
extern "C" void __sanitizer_malloc_hook(const volatile void *, std::size_t sz) {
    if (al::raw_armed && al::in_known == 0 && al::logging()) al::note_event(al::RAWMALLOC, (long)sz);
}

void *operator new(std::size_t sz) { return al::do_new(sz, false); }
void *operator new[](std::size_t sz) { return al::do_new(sz, true); }
void operator delete(void *p) noexcept { al::do_delete(p); }
void operator delete[](void *p) noexcept { al::do_delete(p); }
void operator delete(void *p, std::size_t) noexcept { al::do_delete(p); }
void operator delete[](void *p, std::size_t) noexcept { al::do_delete(p); }

// the ready queue of coro_queue is the only std::deque in the core headers: tag it by renaming, for the duration of
// the cocls includes, `deque` -> `verif_deque` (= std::deque with the tagging allocator). Nothing in /repo is edited.
namespace std {
template <typename T>
using verif_deque = std::deque<T, al::tag_alloc<T>>;
}
#define deque verif_deque
#include <cocls/coro_queue.h>
#include <cocls/suspend_point.h>
#include <cocls/awaiter.h>
#include <cocls/future.h>
#include <cocls/async.h>
#include <cocls/mutex.h>
#include <cocls/generator.h>
#include <cocls/with_allocator.h>
#undef deque

using namespace cocls;

// ------------------------------------------------------------------------------------------------
// non-heap storage policy: bump allocation from a static arena (reset per case)
// ------------------------------------------------------------------------------------------------
struct bump_storage {
    static constexpr std::size_t arena_size = 4u << 20;
    alignas(16) static char arena[arena_size];
    static std::size_t used;
    void *alloc(std::size_t sz) {
        std::size_t a = (used + 15) & ~std::size_t(15);
        if (a + sz > arena_size) std::abort();
        used = a + sz;
        return arena + a;
    }
    static void dealloc(void *, std::size_t) {}
};
alignas(16) char bump_storage::arena[bump_storage::arena_size];
std::size_t bump_storage::used = 0;

// values of a given size to bind to a promise; both value types are constructed from them
template <int N>
struct blob {
    int tag;
    char pad[N > 4 ? N - 4 : 1];
    explicit blob(int t) : tag(t) { std::memset(pad, 0, sizeof pad); }
    operator int() const { return tag; }
};
template <>
struct blob<4> {
    int tag;
    explicit blob(int t) : tag(t) {}
    operator int() const { return tag; }
};
static_assert(sizeof(blob<4>) == 4 && sizeof(blob<32>) == 32 && sizeof(blob<48>) == 48 && sizeof(blob<64>) == 64 &&
              sizeof(blob<200>) == 200);

struct big {
    long a[8];
    big(long x = 0) { for (auto &v : a) v = x; }
    template <int N>
    big(const blob<N> &b) : big((long)b.tag) {}
};
static long first(int v) { return v; }
static long first(const big &b) { return b.a[0]; }

struct test_exc : std::exception {
    const char *what() const noexcept override { return "test_exc"; }
};

static std::vector<std::string> split(const std::string &s, char sep = ' ') {
    std::vector<std::string> out;
    std::string cur;
    for (char c : s) {
        if (c == sep) { if (!cur.empty() || sep != ' ') out.push_back(cur); cur.clear(); }
        else cur.push_back(c);
    }
    if (!cur.empty() || sep != ' ') out.push_back(cur);
    return out;
}
static bool to_nat(const std::string &s, int &out) {
    if (s.empty() || s.size() > 6) return false;
    for (char c : s) if (c < '0' || c > '9') return false;
    out = atoi(s.c_str());
    return true;
}

constexpr int NMX = 2;    // mutexes M_0, M_1
constexpr int NSP = 2;    // suspend points S_0, S_1
constexpr int MAXID = 160;

struct Act {
    char k = 0;      // a r R l u U p y g G
    int i = 0;
    char kind = 'v';
    std::string text;
};

static bool parse_act(const std::string &t, Act &a) {
    if (t.empty()) return false;
    a.k = t[0];
    a.text = t;
    if (a.k == 'p' || a.k == 'y') return t.size() == 1;
    if (a.k == 'r' || a.k == 'R') {
        if (t.size() < 3) return false;
        a.kind = t.back();
        if (a.kind != 'v' && a.kind != 'e' && a.kind != 'd') return false;
        return to_nat(t.substr(1, t.size() - 2), a.i) && a.i < MAXID;
    }
    if (a.k == 'a' || a.k == 'g' || a.k == 'G') return to_nat(t.substr(1), a.i) && a.i < MAXID;
    if (a.k == 'l' || a.k == 'u' || a.k == 'U') return to_nat(t.substr(1), a.i) && a.i < NMX;
    return false;
}

// generators
static generator<int> counter_heap(int n) {
    for (int i = 0; i < n; i++) co_yield i;
}
static with_allocator<bump_storage, generator<int>> counter_bump(bump_storage &, int n) {
    for (int i = 0; i < n; i++) co_yield i;
}

template <typename VT>
struct Runner {
    enum CoSt { UNBORN, ACTIVE, PARKED, INSP, DONE };   // ACTIVE: running, queued or suspended in the library
    struct Fut {
        alignas(future<VT>) unsigned char store[sizeof(future<VT>)];
        future<VT> *f = nullptr;      // constructed in `store`
        promise<VT> p;
        bool existed = false;
        // awaiters living outside coroutines: raw storage owned by the harness, objects constructed inside the measured region
        struct slot { alignas(sync_awaiter) unsigned char b[sizeof(sync_awaiter)]; };
        std::vector<std::unique_ptr<slot>> cb_store, sync_store;
        std::vector<awaiter *> cbs;
        std::vector<sync_awaiter *> syncs;
        std::size_t sync_waited = 0;
        // the callable returned by promise::bind, constructed in place
        alignas(16) unsigned char bstore[288];
        int bsize = 0;     // 0: none, else the size of the bound value
        // a real thread blocked in future::sync()
        std::vector<std::unique_ptr<std::thread>> blocked;
        ~Fut() {
            for (auto *a : cbs) a->~awaiter();
            for (auto *a : syncs) a->~sync_awaiter();
        }
    };
    struct Co {
        std::vector<Act> script;
        CoSt st = UNBORN;
        std::coroutine_handle<> parked;
        int insp = -1;
    };
    struct Gen {
        generator<int> g;
        bool exists = false;
    };

    std::deque<Fut> futs;
    std::deque<Co> cos;
    std::deque<Gen> gens;
    cocls::mutex mx[NMX];
    cocls::mutex::ownership main_own[NMX];
    std::optional<suspend_point<void>> sps[NSP];
    std::exception_ptr exc = std::make_exception_ptr(test_exc());
    bump_storage bump;
    static Runner *R;

    Runner() : futs(MAXID), cos(MAXID), gens(MAXID) {
        for (auto &s : sps) s.emplace();
    }

    // ---- resolution by kind; returns the suspend point ---------------------------------------------
    struct rctx {
        rctx() { ++al::in_resolution; }
        ~rctx() { --al::in_resolution; }
    };
    static suspend_point<bool> resolve(promise<VT> &p, char kind, int i, std::exception_ptr &e) {
        rctx c;
        if (kind == 'v') return p(VT(100 + i));
        if (kind == 'e') return p(e);
        return p(drop);
    }

    struct park_awaiter {
        int id;
        bool await_ready() noexcept { return false; }
        void await_suspend(std::coroutine_handle<> h) noexcept {
            Co &c = R->cos[id];
            c.parked = h;
            c.st = PARKED;
        }
        void await_resume() noexcept {}
    };

    static void cb_fn_log(int i) { al::tokf("cb%d%s", i, "", 0, false); }
    static suspend_point<void> cb_fn(awaiter *, void *ctx) noexcept {
        cb_fn_log((int)(reinterpret_cast<std::intptr_t>(ctx)));
        return {};
    }

    // ---- the scripted coroutine -------------------------------------------------------------------
    template <typename Ret, typename... St>
    static Ret body(St &..., int id) {
        cocls::mutex::ownership own[NMX];
        for (std::size_t pc = 0;; ++pc) {
            Co &me = R->cos[id];
            if (pc >= me.script.size()) break;
            const Act &a = me.script[pc];
            const char *t = a.text.c_str();
            int i = a.i;
            switch (a.k) {
                case 'a': {
                    al::tokf("c%d:%s", id, t);
                    Fut &f = R->futs[i];
                    if (!f.f) break;
                    try {
                        VT &v = co_await *f.f;
                        (void)v;
                    } catch (...) {
                        // the future was resolved without a value: the library reports that to this code by an exception
                        al::tokf("c%d:caught%s", id, "");
                    }
                    break;
                }
                case 'r': {
                    al::tokf("c%d:%s", id, t);
                    Fut &f = R->futs[i];
                    if (!f.existed) break;
                    resolve(f.p, a.kind, i, R->exc);
                    break;
                }
                case 'R': {
                    al::tokf("c%d:%s", id, t);
                    Fut &f = R->futs[i];
                    if (!f.existed) break;
                    bool ok = co_await resolve(f.p, a.kind, i, R->exc);
                    (void)ok;
                    break;
                }
                case 'l': {
                    al::tokf("c%d:%s", id, t);
                    if (own[i]) break;   // already ours: locking again would never return
                    own[i] = co_await R->mx[i].lock();
                    break;
                }
                case 'u': {
                    al::tokf("c%d:%s", id, t);
                    own[i].release();
                    break;
                }
                case 'U': {
                    al::tokf("c%d:%s", id, t);
                    co_await own[i].release();
                    break;
                }
                case 'p': {
                    al::tokf("c%d:%s", id, t);
                    co_await park_awaiter{id};
                    break;
                }
                case 'y': {
                    al::tokf("c%d:%s", id, t);
                    co_await cocls::pause();
                    break;
                }
                case 'g': {
                    Gen &g = R->gens[i];
                    if (!g.exists) { al::tokf("c%d:%s=none", id, t); break; }
                    if (g.g.next()) al::tokf("c%d:%s=%ld", id, t, (long)g.g.value());
                    else al::tokf("c%d:%s=done", id, t);
                    break;
                }
                case 'G': {
                    Gen &g = R->gens[i];
                    if (!g.exists) { al::tokf("c%d:%s=none", id, t); break; }
                    bool b = co_await g.g.next();
                    if (b) al::tokf("c%d:%s=%ld", id, t, (long)g.g.value());
                    else al::tokf("c%d:%s=done", id, t);
                    break;
                }
                default: break;
            }
        }
        al::tokf("c%d:end%s", id, "");
        R->cos[id].st = DONE;
        al::final_window = true;   // what follows: destruction of the locals, final_suspend (resolves the bound future)
        co_return VT(1000 + id);
    }

    std::string outcome(future<VT> &f) {
        if (!f.ready()) return "pending";
        try {
            long v = first(f.wait());
            al::hguard g;
            return "v:" + std::to_string(v);
        } catch (const await_canceled_exception &) {
            al::tok("m:caught");
            return "canceled";
        } catch (const test_exc &) {
            al::tok("m:caught");
            return "exc";
        } catch (...) {
            al::tok("m:caught");
            return "other";
        }
    }

    // ---- top level operations; each returns the head of its output line ------------------------------
    struct measured {
        measured() { ++al::measuring; }
        ~measured() { --al::measuring; }
    };

    std::string op_fut(int i) {
        Fut &f = futs[i];
        if (f.existed) return "skip";
        measured m;
        f.f = new (f.store) future<VT>();
        f.p = f.f->get_promise();
        f.existed = true;
        return "ok";
    }

    std::string op_res(int i, char kind) {
        Fut &f = futs[i];
        if (!f.existed) return "skip";
        measured m;
        if (kind == 'x') {
            bool valid = static_cast<bool>(f.p);
            { rctx c; promise<VT> victim(std::move(f.p)); }
            return valid ? "1 n=-" : "0 n=-";
        }
        suspend_point<bool> sp = resolve(f.p, kind, i, exc);
        bool won = sp;
        std::size_t n = sp.size();
        {
            al::hguard g;
            return std::string(won ? "1" : "0") + " n=" + std::to_string(n);
        }
        // `sp` is destroyed here: in ordinary code the carried coroutines run now
    }

    std::string op_cb(int i) {
        Fut &f = futs[i];
        if (!f.f) return "skip";
        void *mem;
        {
            al::hguard g;
            f.cb_store.emplace_back(new typename Fut::slot());
            mem = f.cb_store.back()->b;
            f.cbs.reserve(f.cbs.size() + 1);
        }
        measured m;
        awaiter *a = new (mem) awaiter(&cb_fn, reinterpret_cast<void *>(static_cast<std::intptr_t>(i)));
        f.cbs.push_back(a);
        co_awaiter<future<VT>> aw(*f.f);
        if (aw.await_ready()) return "ready";
        return aw.subscribe(a) ? "sub" : "ready";
    }

    std::string op_bs(int i) {
        Fut &f = futs[i];
        if (!f.f) return "skip";
        void *mem;
        {
            al::hguard g;
            f.sync_store.emplace_back(new typename Fut::slot());
            mem = f.sync_store.back()->b;
            f.syncs.reserve(f.syncs.size() + 1);
        }
        measured m;
        co_awaiter<future<VT>> aw(*f.f);
        if (aw.await_ready()) return "ready";
        sync_awaiter *a = new (mem) sync_awaiter();     // what co_awaiter::sync() puts on the blocking thread's stack
        if (!aw.subscribe(a)) {
            a->~sync_awaiter();
            return "ready";
        }
        f.syncs.push_back(a);
        return "sub";
    }

    // a real thread blocks in future::sync(); the operation returns once its awaiter is in the chain
    struct peek : future<VT> {
        static awaiter *head(future<VT> &f) { return static_cast<peek &>(f).VN_future_common__awaiter.load(std::memory_order_acquire); }
    };
    std::string op_bt(int i) {
        Fut &f = futs[i];
        if (!f.f) return "skip";
        if (f.f->ready()) {
            measured m;
            f.f->sync();
            return "ready";
        }
        awaiter *before = peek::head(*f.f);
        future<VT> *fp = f.f;
        {
            al::hguard g;
            f.blocked.emplace_back(new std::thread([fp] {
                ++al::measuring;
                fp->sync();
                --al::measuring;
            }));
        }
        while (peek::head(*f.f) == before) std::this_thread::yield();
        return "sub";
    }
    // after every operation: a blocked thread whose future has been resolved finishes inside that operation's line
    void join_woken(bool all) {
        for (auto &f : futs) {
            if (f.blocked.empty() || !(all || !f.f || f.f->ready())) continue;
            al::hguard g;
            for (auto &t : f.blocked) t->join();
            f.blocked.clear();
        }
    }

    std::string op_bw(int i) {
        Fut &f = futs[i];
        if (!f.f || !f.f->ready()) return "skip";
        measured m;
        if (f.sync_waited < f.syncs.size()) f.syncs[f.sync_waited++]->wait_sync();
        f.f->sync();
        return outcome(*f.f);
    }

    // ---- promise::bind ------------------------------------------------------------------------------
    template <int N>
    using bound_t = decltype(std::declval<promise<VT> &>().bind(std::declval<blob<N>>()));
    template <int N>
    static void bind_n(Fut &f, int tag) {
        static_assert(sizeof(bound_t<N>) <= sizeof f.bstore && alignof(bound_t<N>) <= 16);
        new (f.bstore) bound_t<N>(f.p.bind(blob<N>(tag)));
    }
    template <int N>
    static suspend_point<bool> call_n(Fut &f) { return (*reinterpret_cast<bound_t<N> *>(f.bstore))(); }
    template <int N>
    static void kill_n(Fut &f) { reinterpret_cast<bound_t<N> *>(f.bstore)->~bound_t<N>(); }
#define BOUND_DISPATCH(fn, f, ...)                                                       \
    switch ((f).bsize) {                                                                 \
        case 4: return fn<4>(f, ##__VA_ARGS__);                                          \
        case 32: return fn<32>(f, ##__VA_ARGS__);                                        \
        case 48: return fn<48>(f, ##__VA_ARGS__);                                        \
        case 64: return fn<64>(f, ##__VA_ARGS__);                                        \
        default: return fn<200>(f, ##__VA_ARGS__);                                       \
    }
    static void bind_any(Fut &f, int tag) { BOUND_DISPATCH(bind_n, f, tag) }
    static suspend_point<bool> call_any(Fut &f) { BOUND_DISPATCH(call_n, f) }
    static void kill_any(Fut &f) { BOUND_DISPATCH(kill_n, f) }

    std::string op_bd(int i, int size) {
        Fut &f = futs[i];
        if (!f.existed || f.bsize) return "skip";
        measured m;
        f.bsize = size;
        bind_any(f, 100 + i);
        return "ok";
    }
    std::string op_bi(int i) {
        Fut &f = futs[i];
        if (!f.bsize) return "skip";
        measured m;
        suspend_point<bool> sp = [&] { rctx c; return call_any(f); }();
        bool won = sp;
        std::size_t n = sp.size();
        {
            al::hguard g;
            return std::string(won ? "1" : "0") + " n=" + std::to_string(n);
        }
    }
    void kill_bound(Fut &f) {
        rctx c;
        kill_any(f);
        f.bsize = 0;
    }
    std::string op_bx(int i) {
        Fut &f = futs[i];
        if (!f.bsize) return "skip";
        measured m;
        kill_bound(f);
        return "ok";
    }

    std::string op_del(int i) {
        Fut &f = futs[i];
        if (!f.f || f.f->pending() || !f.blocked.empty()) return "skip";
        measured m;
        f.f->~future();
        f.f = nullptr;
        return "ok";
    }

    std::string op_co(int j, bool heap, int bind, const std::vector<Act> &script) {
        Co &c = cos[j];
        if (c.st != UNBORN || (bind >= 0 && !futs[bind].existed)) return "skip";
        c.script = script;
        c.st = ACTIVE;
        measured m;
        std::string head = "ok";
        al::expect_frame = heap ? 1 : 0;
        if (heap) {
            async<VT> a = body<async<VT>>(j);
            al::expect_frame = 0;
            launch(a, bind, head, c);
        } else {
            async<VT> a = body<with_allocator<bump_storage, async<VT>>, bump_storage>(bump, j);
            launch(a, bind, head, c);
        }
        return head;
    }
    void launch(async<VT> &a, int bind, std::string &head, Co &c) {
        if (bind >= 0) {
            suspend_point<bool> sp = a.start(futs[bind].p);
            if (!sp) { head = "unclaimed"; c.st = DONE; }
        } else {
            suspend_point<void> sp = a.detach();
        }
        // `sp` destroyed: the coroutine starts now; `a` destroyed afterwards (destroys the frame if it never started)
    }

    std::string op_tl(int m) {
        if (main_own[m]) return "skip";
        measured ms;
        main_own[m] = mx[m].try_lock();
        return main_own[m] ? "1" : "0";
    }
    std::string op_ul(int m) {
        if (!main_own[m]) return "skip";
        measured ms;
        suspend_point<void> sp = main_own[m].release();
        std::size_t n = sp.size();
        al::hguard g;
        return "n=" + std::to_string(n);
    }

    std::string op_sa(int s, int j) {
        Co &c = cos[j];
        if (c.st != PARKED) return "skip";
        c.st = INSP;
        c.insp = s;
        measured m;
        *sps[s] << std::coroutine_handle<>(c.parked);
        std::size_t n = sps[s]->size();
        al::hguard g;
        return "n=" + std::to_string(n);
    }
    void unmark_sp(int s, std::coroutine_handle<> h) {
        for (auto &c : cos)
            if (c.st == INSP && c.insp == s && (!h || c.parked == h)) { c.st = ACTIVE; c.insp = -1; }
    }
    std::string op_sp(int s) {
        measured m;
        std::coroutine_handle<> h = sps[s]->pop();
        if (h == std::noop_coroutine()) return "none";
        unmark_sp(s, h);
        coro_queue::resume(h);
        return "ok";
    }
    std::string op_sf(int s) {
        measured m;
        std::size_t n = sps[s]->size();
        unmark_sp(s, nullptr);
        sps[s]->clear();
        al::hguard g;
        return "n=" + std::to_string(n);
    }

    std::string op_sm(int s, int t, bool assign) {
        measured m;
        if (assign) *sps[s] = std::move(*sps[t]);
        else *sps[s] << std::move(*sps[t]);
        if (s != t)
            for (auto &c : cos)
                if (c.st == INSP && c.insp == t) c.insp = s;
        std::size_t n = sps[s]->size();
        al::hguard g;
        return "n=" + std::to_string(n);
    }
    std::string op_rm(int s, int i, char kind) {
        Fut &f = futs[i];
        if (!f.existed) return "skip";
        measured m;
        suspend_point<bool> r = resolve(f.p, kind, i, exc);
        bool won = r;
        *sps[s] << std::move(r);      // the released coroutines stay suspended, carried by S_s
        std::size_t n = sps[s]->size();
        al::hguard g;
        return std::string(won ? "1" : "0") + " n=" + std::to_string(n);
    }

    std::string op_gen(int g, bool heap, int n) {
        Gen &G = gens[g];
        if (G.exists) return "skip";
        measured m;
        al::expect_frame = heap ? 1 : 0;
        if (heap) G.g = counter_heap(n);
        else G.g = generator<int>(counter_bump(bump, n));
        al::expect_frame = 0;
        G.exists = true;
        return "ok";
    }
    std::string op_gs(int g, char mode) {
        Gen &G = gens[g];
        if (!G.exists) return "skip";
        measured m;
        if (mode == 'f') {
            if (G.g.done()) return "done";
            future<int> f = G.g();
            if (!f.ready()) return "pending";
            bool has = f.has_value();
            al::hguard gd;
            return has ? "v:" + std::to_string(f.value()) : std::string("done");
        }
        if (mode == 'r') {
            // a whole pass in the range-for spelling (on an exhausted generator: begin() == end() at once)
            long items = 0, sum = 0;
            for (int v : G.g) { ++items; sum += v; }
            (void)sum;
            al::hguard gd;
            return "items=" + std::to_string(items);
        }
        if (mode == 'b') {
            auto it = G.g.begin();
            bool b = it != G.g.end();
            long v = b ? (long)*it : 0;
            al::hguard gd;
            return b ? "v:" + std::to_string(v) : std::string("done");
        }
        bool b = G.g.next();
        al::hguard gd;
        return b ? "v:" + std::to_string(G.g.value()) : std::string("done");
    }
    std::string op_gd(int g) {
        Gen &G = gens[g];
        if (!G.exists) return "skip";
        measured m;
        G.g = generator<int>();
        G.exists = false;
        return "ok";
    }

    std::string op_end() {
        measured m;
        bool progress = true;
        int rounds = 0;
        while (progress && rounds < 100000) {
            progress = false;
            ++rounds;
            for (int k = 0; k < NMX; k++)
                if (main_own[k]) { main_own[k].release(); progress = true; }
            for (int i = 0; i < MAXID; i++)
                if (futs[i].existed && futs[i].p) { resolve(futs[i].p, 'd', i, exc); progress = true; }
            for (int i = 0; i < MAXID; i++)
                if (futs[i].bsize) { kill_bound(futs[i]); progress = true; }
            for (int j = 0; j < MAXID; j++)
                if (cos[j].st == PARKED) { cos[j].st = ACTIVE; coro_queue::resume(cos[j].parked); progress = true; }
            for (int s = 0; s < NSP; s++)
                if (!sps[s]->empty()) { unmark_sp(s, nullptr); sps[s]->clear(); progress = true; }
        }
        int left = 0;
        for (auto &c : cos) if (c.st != UNBORN && c.st != DONE) left++;
        for (int g = 0; g < MAXID; g++)
            if (gens[g].exists) { gens[g].g = generator<int>(); gens[g].exists = false; }
        join_woken(false);
        for (int i = 0; i < MAXID; i++)
            if (futs[i].f && !futs[i].f->pending() && futs[i].blocked.empty()) { futs[i].f->~future(); futs[i].f = nullptr; }
        al::hguard g;
        return "left=" + std::to_string(left);
    }

    // ---- the case loop -----------------------------------------------------------------------------
    void run(std::vector<std::string> &lines, std::vector<std::string> &out) {
        for (auto &line : lines) {
            auto w = split(line);
            std::string head = "bad-op";
            int a = 0, b = 0;
            if (w.empty()) continue;
            const std::string &k = w[0];
            if (k == "fut" && w.size() == 2 && to_nat(w[1], a) && a < MAXID) head = op_fut(a);
            else if (k == "res" && w.size() == 3 && to_nat(w[1], a) && a < MAXID && w[2].size() == 1 &&
                     std::strchr("vedx", w[2][0])) head = op_res(a, w[2][0]);
            else if (k == "cb" && w.size() == 2 && to_nat(w[1], a) && a < MAXID) head = op_cb(a);
            else if (k == "bs" && w.size() == 2 && to_nat(w[1], a) && a < MAXID) head = op_bs(a);
            else if (k == "bt" && w.size() == 2 && to_nat(w[1], a) && a < MAXID) head = op_bt(a);
            else if (k == "bw" && w.size() == 2 && to_nat(w[1], a) && a < MAXID) head = op_bw(a);
            else if (k == "del" && w.size() == 2 && to_nat(w[1], a) && a < MAXID) head = op_del(a);
            else if (k == "bd" && w.size() == 3 && to_nat(w[1], a) && a < MAXID && to_nat(w[2], b) &&
                     (b == 4 || b == 32 || b == 48 || b == 64 || b == 200)) head = op_bd(a, b);
            else if (k == "bi" && w.size() == 2 && to_nat(w[1], a) && a < MAXID) head = op_bi(a);
            else if (k == "bx" && w.size() == 2 && to_nat(w[1], a) && a < MAXID) head = op_bx(a);
            else if (k == "co" && w.size() == 5 && to_nat(w[1], a) && a < MAXID && (w[2] == "H" || w[2] == "N")) {
                int bind = -1;
                bool ok = w[3] == "-" || (to_nat(w[3], bind) && bind < MAXID);
                std::vector<Act> script;
                if (w[4] != "-")
                    for (auto &t : split(w[4], ',')) {
                        Act act;
                        if (!parse_act(t, act)) ok = false;
                        script.push_back(act);
                    }
                if (ok) head = op_co(a, w[2] == "H", bind, script);
            }
            else if (k == "tl" && w.size() == 2 && to_nat(w[1], a) && a < NMX) head = op_tl(a);
            else if (k == "ul" && w.size() == 2 && to_nat(w[1], a) && a < NMX) head = op_ul(a);
            else if (k == "sa" && w.size() == 3 && to_nat(w[1], a) && a < NSP && to_nat(w[2], b) && b < MAXID) head = op_sa(a, b);
            else if (k == "sp" && w.size() == 2 && to_nat(w[1], a) && a < NSP) head = op_sp(a);
            else if (k == "sf" && w.size() == 2 && to_nat(w[1], a) && a < NSP) head = op_sf(a);
            else if ((k == "sm" || k == "sg") && w.size() == 3 && to_nat(w[1], a) && a < NSP && to_nat(w[2], b) && b < NSP)
                head = op_sm(a, b, k == "sg");
            else if (k == "rm" && w.size() == 4 && to_nat(w[1], a) && a < NSP && to_nat(w[2], b) && b < MAXID &&
                     w[3].size() == 1 && std::strchr("ved", w[3][0])) head = op_rm(a, b, w[3][0]);
            else if (k == "gen" && w.size() == 4 && to_nat(w[1], a) && a < MAXID && (w[2] == "H" || w[2] == "N") &&
                     to_nat(w[3], b)) head = op_gen(a, w[2] == "H", b);
            else if (k == "gs" && w.size() == 3 && to_nat(w[1], a) && a < MAXID && (w[2] == "n" || w[2] == "f" || w[2] == "b" || w[2] == "r")) head = op_gs(a, w[2][0]);
            else if (k == "gd" && w.size() == 2 && to_nat(w[1], a) && a < MAXID) head = op_gd(a);
            else if (k == "end" && w.size() == 1) { end_head = op_end(); join_woken(false); continue; }
            join_woken(false);
            flush_line(k + " " + head, out);
        }
    }
    std::string end_head = "left=?";

    static void flush_line(const std::string &head, std::vector<std::string> &out) {
        al::final_window = false;
        al::hook hk;
        std::string s = head;
        if (!al::evs->empty()) {
            s += " ;";
            for (auto &e : *al::evs) { s += " "; s += e; }
            al::evs->clear();
        }
        out.push_back(s);
    }
};
template <typename VT>
Runner<VT> *Runner<VT>::R = nullptr;

template <typename VT>
static void run_case(std::vector<std::string> &lines, bool fresh, std::vector<std::string> &out) {
    bump_storage::used = 0;
    auto work = [&](bool reset_queue) {
        if (reset_queue) {
            // the main thread's ready queue: a freshly constructed deque for every case (constructed outside the
            // measured region), so a case's output does not depend on the cases run before it in this process
            coro_queue::queue_impl::instance._queue = std::verif_deque<std::coroutine_handle<>>();
        }
        auto *r = new Runner<VT>();
        Runner<VT>::R = r;
        r->run(lines, out);
        std::string eh = r->end_head;
        {
            // everything the case still owns goes away inside the measured region
            ++al::measuring;
            delete r;
            --al::measuring;
        }
        Runner<VT>::R = nullptr;
        return eh;
    };
    std::string eh;
    if (fresh) {
        al::hguard g;           // thread creation itself allocates: not part of the program
        std::thread t([&] {
            eh = work(false);
            ++al::measuring;    // the thread's exit (destructor of its thread-local ready queue) is measured too
        });
        t.join();
    } else {
        eh = work(true);
    }
    Runner<VT>::flush_line("end " + eh, out);
}

int main() {
    std::ios::sync_with_stdio(false);
    al::mtx = new std::mutex();
    al::evs = new std::vector<std::string>();
    al::live = new std::map<void *, al::Blk>();
    al::raw_armed = true;
    std::string line;
    std::vector<std::string> lines;
    bool in_case = false, fresh = false;
    char vt = 'i';
    while (std::getline(std::cin, line)) {
        auto w = split(line);
        if (w.empty()) continue;
        if (w[0] == "case") {
            std::cout << "case " << (w.size() > 1 ? w[1] : "?") << "\n";
            lines.clear();
            in_case = true;
            vt = w.size() > 3 && w[3] == "b" ? 'b' : 'i';
            fresh = w.size() > 4 && w[4] == "f";
            continue;
        }
        if (!in_case) continue;
        lines.push_back(line);
        if (w[0] == "end") {
            std::vector<std::string> out;
            if (vt == 'b') run_case<big>(lines, fresh, out);
            else run_case<int>(lines, fresh, out);
            for (auto &o : out) std::cout << o << "\n";
            std::cout.flush();
            in_case = false;
        }
    }
    delete al::evs;
    al::evs = nullptr;
    auto *l = al::live;
    al::live = nullptr;
    delete l;
    delete al::mtx;
    return 0;
}
