// T-harness for cocls::generator (C13): a consumer thread doing blocking accesses (bool(next(a)), value(), gen(a) + wait(),
// range-for, destroy) versus a second thread that completes the operations the body awaits — real threads under the baton
// scheduler (harness/shim): one thread runs at a time and every interposed atomic operation of the unmodified headers
// (`_block.store/wait` of generator::promise_type, the future/promise atomics, sync_awaiter's flag) is a scheduling point
// decided by the `sched` line. The interesting window: right after `_block.store(true)` in unblock_sync (or the resolution of
// the future) the consumer may already run — read the value, issue its next access with a new argument, or destroy the
// generator — while the completing thread is still returning from the notification inside yield_suspend::await_suspend.
//
//   case <id> <v|a> [verbose]        v: generator<int>   a: generator<int,int>;  verbose: print the `s ...` operation log
//   script <act>...                   y<v> | n | p<k> (harness event) | f<k> (cocls::future) | g | t | x     (as in h_generator.cpp)
//   c <op> [arg]                      consumer thread, in order: next [a] | value | call [a] | fwait | for | destroy
//   k <k>...                          completing thread: operations completed in this order, each as soon as the body awaits it
//   sched <0|1>...                    0 = consumer, 1 = completing thread
//   end
// Output (order of occurrence): `c> <op>` / `c< <op> <result>` (start / end of a consumer operation), `b got=<a>` / `b ~g<i>` (body),
// `k <k>` (completion), then `end made=<guards> once=<destroyed once> multi=<more than once>`; `deadlock`, `assert-failed ...`
// (a library assert fired), `crash ...` (the forked child died: sanitizer report, signal).
#include "shim/verif_shim.h"
#include "shim/rename_on.h"
#include <cocls/generator.h>
#include "shim/rename_off.h"
#include <sys/wait.h>

using namespace cocls;
using vshim::S;

namespace {

struct test_exc : std::exception {};

std::vector<std::string> split(const std::string &s) {
    std::vector<std::string> o;
    std::istringstream is(s);
    std::string t;
    while (is >> t) o.push_back(t);
    return o;
}

void out(const std::string &s) { (*S().out) << s << "\n"; }

constexpr int NK = 8;
struct Act {
    char kind;
    int v;
};
struct Event {
    bool set = false;
    std::coroutine_handle<> waiter;
};

std::vector<int> g_dtor;
struct Guard {
    int id;
    Guard() : id((int)g_dtor.size()) { g_dtor.push_back(0); }
    Guard(const Guard &) = delete;
    ~Guard() {
        g_dtor[id]++;
        out("b ~g" + std::to_string(id));
    }
};

struct World {
    std::vector<Act> script;
    Event events[NK];
    std::unique_ptr<future<int>> futs[NK];
    promise<int> proms[NK];
    bool completed[NK] = {};
    bool noted[NK] = {};      // the body is about to co_await future k
    bool uses_future[NK] = {};
    bool consumer_done = false;
    World() {
        for (int k = 0; k < NK; ++k) {
            futs[k].reset(new future<int>());
            proms[k] = futs[k]->get_promise();
        }
    }
    bool awaited(int k) const { return !completed[k] && (events[k].waiter || noted[k]); }
    int first_awaited() const {
        for (int k = 0; k < NK; ++k)
            if (awaited(k)) return k;
        return -1;
    }
    void complete(int k) {
        if (completed[k]) return;
        completed[k] = true;
        events[k].set = true;
        if (auto h = std::exchange(events[k].waiter, nullptr)) h.resume();
        if (uses_future[k]) proms[k](k);   // (an operation nobody awaits as a future is not resolved: fewer irrelevant scheduling points)
    }
};
World *W = nullptr;

struct EventAwaiter {
    Event &e;
    bool await_ready() { return e.set; }
    void await_suspend(std::coroutine_handle<> h) { e.waiter = h; }
    void await_resume() {}
};

#define VT_COMMON_ACTS                                        \
    case 'p':                                                 \
        co_await EventAwaiter{W->events[a.v]};                \
        break;                                                \
    case 'f':                                                 \
        W->noted[a.v] = true;                                 \
        co_await *W->futs[a.v];                               \
        break;                                                \
    case 'g':                                                 \
        guards.push_back(std::make_unique<Guard>());          \
        break;                                                \
    case 't':                                                 \
        throw test_exc();                                     \
    case 'x':                                                 \
        co_return;                                            \
    default:                                                  \
        break;

generator<int> body_v() {
    std::vector<std::unique_ptr<Guard>> guards;
    int idx = 0;
    for (const Act &a : W->script) {
        ++idx;
        switch (a.kind) {
            case 'y':
                if (idx & 1) {
                    int lv = a.v;
                    co_yield lv;
                } else {
                    co_yield int(a.v);
                }
                break;
            case 'n':
                co_yield nullptr;
                break;
            VT_COMMON_ACTS
        }
    }
}

generator<int, int> body_a() {
    std::vector<std::unique_ptr<Guard>> guards;
    int idx = 0;
    for (const Act &a : W->script) {
        ++idx;
        switch (a.kind) {
            case 'y': {
                int got;
                if (idx & 1) {
                    int lv = a.v;
                    got = co_yield lv;
                } else {
                    got = co_yield int(a.v);
                }
                out("b got=" + std::to_string(got));
                break;
            }
            case 'n': {
                int got = co_yield nullptr;
                out("b got=" + std::to_string(got));
                break;
            }
            VT_COMMON_ACTS
        }
    }
}

template <typename G>
struct Scn {
    static constexpr bool has_arg = !G::arg_is_void;
    std::optional<G> gen;
    std::unique_ptr<future<int>> fut;
    std::deque<int> args;

    std::string value_str() {
        try {
            return "v:" + std::to_string(gen->value());
        } catch (const test_exc &) {
            return "exc";
        } catch (const value_not_ready_exception &) {
            return "notready";
        } catch (const no_more_values_exception &) {
            return "nomore";
        }
    }

    void consumer(const std::vector<std::vector<std::string>> &cops) {
        for (auto &w : cops) {
            std::string txt = w[1] + (w.size() > 2 ? " " + w[2] : "");
            out("c> " + txt);
            const std::string &op = w[1];
            std::string r;
            if (!gen && op != "fwait") r = "gone";
            else if (op == "next") {
                args.push_back(w.size() > 2 ? atoi(w[2].c_str()) : 0);
                try {
                    bool b;
                    if constexpr (has_arg) b = bool(gen->next(args.back()));
                    else b = bool(gen->next());
                    r = b ? "true" : "false";
                } catch (const no_more_values_exception &) {
                    r = "nomore";
                }
            } else if (op == "value") {
                r = value_str();
            } else if (op == "call") {
                args.push_back(w.size() > 2 ? atoi(w[2].c_str()) : 0);
                if (fut && !fut->ready()) r = "busy";
                else {
                    try {
                        std::unique_ptr<future<int>> nf;
                        if constexpr (has_arg) nf.reset(new future<int>((*gen)(args.back())));
                        else nf.reset(new future<int>((*gen)()));
                        fut = std::move(nf);
                        r = fut->ready() ? "ready" : "pending";
                    } catch (const no_more_values_exception &) {
                        r = "nomore";
                    }
                }
            } else if (op == "fwait") {
                if (!fut) r = "nofut";
                else {
                    try {
                        r = "v:" + std::to_string(fut->wait());
                    } catch (const await_canceled_exception &) {
                        r = "novalue";
                    } catch (const test_exc &) {
                        r = "exc";
                    } catch (const no_more_values_exception &) {
                        r = "nomore";
                    } catch (const value_not_ready_exception &) {
                        r = "notready";
                    }
                }
            } else if (op == "for") {
                if constexpr (has_arg) r = "n/a";
                else {
                    if (fut && !fut->ready()) r = "busy";
                    else {
                        try {
                            for (int &v : *gen) r += (r.empty() ? "v:" : " v:") + std::to_string(v);
                            r += r.empty() ? "end" : " end";
                        } catch (const test_exc &) {
                            r += r.empty() ? "exc" : " exc";
                        } catch (const no_more_values_exception &) {
                            r += r.empty() ? "nomore" : " nomore";
                        } catch (const value_not_ready_exception &) {
                            r += r.empty() ? "notready" : " notready";
                        }
                    }
                }
            } else if (op == "destroy") {
                if (fut && !fut->ready()) r = "busy";
                else {
                    gen.reset();
                    r = "ok";
                }
            } else {
                r = "bad-op";
            }
            out("c< " + w[1] + " " + r);
        }
        W->consumer_done = true;
    }

    static void completer(const std::vector<int> &ks) {
        for (int k : ks) {
            auto pred = [k] { return W->awaited(k) || W->completed[k] || W->consumer_done; };
            if (!pred()) S().block(pred);
            if (W->completed[k]) continue;
            if (!W->awaited(k)) {
                // the consumer is done; the body may still reach this operation only through operations awaited now
                if (W->first_awaited() < 0) return;
                continue;
            }
            out("k " + std::to_string(k));
            W->complete(k);
        }
    }

    void run(const std::vector<std::vector<std::string>> &cops, const std::vector<int> &ks, const std::vector<int> &sched) {
        if constexpr (has_arg) gen.emplace(body_a());
        else gen.emplace(body_v());
        S().name_obj(&gen->VN_generator__promise->VN_generator_promise_type__block, "block");
        S().spawn([this, &cops] { consumer(cops); });
        S().spawn([&ks] { completer(ks); });
        bool ok = S().run(sched);
        if (!ok) {
            out("deadlock");
            out("end");
            std::cout.flush();
            _exit(0);
        }
        // whatever the consumer left outstanding (a pending call) is served on the controller thread, then everything is destroyed
        for (int guard = 0; guard < 64 && fut && !fut->ready(); ++guard) {
            int k = W->first_awaited();
            if (k < 0) break;
            W->complete(k);
        }
        gen.reset();
        if (fut && !fut->ready()) out("lost pending-future");
        else fut.reset();
        int once = 0, multi = 0;
        for (int d : g_dtor) {
            once += d == 1;
            multi += d > 1;
        }
        out("end made=" + std::to_string(g_dtor.size()) + " once=" + std::to_string(once) + " multi=" + std::to_string(multi));
        for (int k = 0; k < NK; ++k) {
            W->uses_future[k] = true;
            W->completed[k] = false;
            W->complete(k);
        }
    }
};

void run_case(const std::vector<std::string> &hdr, const std::vector<std::vector<std::string>> &lines) {
    World world;
    W = &world;
    std::vector<std::vector<std::string>> cops;
    std::vector<int> ks, sched;
    for (auto &w : lines) {
        if (w[0] == "script") {
            for (std::size_t i = 1; i < w.size(); ++i) {
                Act a{w[i][0], w[i].size() > 1 ? atoi(w[i].c_str() + 1) : 0};
                if ((a.kind == 'p' || a.kind == 'f') && (a.v < 0 || a.v >= NK)) a.v = 0;
                if (a.kind == 'f') world.uses_future[a.v] = true;
                world.script.push_back(a);
            }
        } else if (w[0] == "c" && w.size() > 1) cops.push_back(w);
        else if (w[0] == "k") for (std::size_t i = 1; i < w.size(); ++i) ks.push_back(std::min(NK - 1, std::max(0, atoi(w[i].c_str()))));
        else if (w[0] == "sched") for (std::size_t i = 1; i < w.size(); ++i) sched.push_back(atoi(w[i].c_str()));
    }
    S().quiet = !(hdr.size() > 3 && hdr[3] == "verbose");
    S().max_steps = 20000;
    if (hdr.size() > 2 && hdr[2] == "a") {
        Scn<generator<int, int>> s;
        s.run(cops, ks, sched);
    } else {
        Scn<generator<int>> s;
        s.run(cops, ks, sched);
    }
}

}  // namespace

int main() {
    std::string line;
    std::vector<std::string> hdr;
    std::vector<std::vector<std::string>> lines;
    while (std::getline(std::cin, line)) {
        auto w = split(line);
        if (w.empty()) continue;
        if (w[0] == "case") {
            hdr = w;
            lines.clear();
            continue;
        }
        if (w[0] != "end") {
            lines.push_back(w);
            continue;
        }
        std::cout << "case " << hdr[1] << std::endl;
        pid_t pid = fork();
        if (pid == 0) {
            alarm(20);
            run_case(hdr, lines);
            std::cout.flush();
            _exit(0);
        }
        int st = 0;
        waitpid(pid, &st, 0);
        if (!(WIFEXITED(st) && WEXITSTATUS(st) == 0)) {
            if (WIFEXITED(st) && WEXITSTATUS(st) == 3) { /* assertion already reported */
            } else {
                std::cout << "crash " << (WIFSIGNALED(st) ? "signal " + std::to_string(WTERMSIG(st)) : "exit " + std::to_string(WEXITSTATUS(st)))
                          << "\n";
                std::cout << "end" << std::endl;
            }
        }
    }
    return 0;
}
